#!/usr/bin/env python3
"""Regenerates MANIFEST.json from the table below (kept as code so it stays valid at all times)."""
import json, subprocess

CLAIMED = {
 "C01": dict(level="exploration",
   text="Differential testing of all four channels in both directions against an independent codec (spec.rs: explicit offsets, literal numbers): every Frontend operation with generated arguments x NEED_REPLY x acknowledged-feature configuration (request bytes, descriptors on byte 0 only and identical to the ones passed, conforming replies decoded to the encoded values), every request code against the real BackendReqHandler (handler arguments and descriptor identities vs encoded values; reply/ack bytes for scripted results), the five back-end-initiated requests through Backend proxy and FrontendReqHandler incl. acknowledgement values, the twelve GPU requests and four GPU replies; plus an enumeration of every config payload length (every 7th in quick, all 4084 in thorough) and every region count 1..=32. About 70k generated messages in quick.",
   note="Trusted: spec.rs is hand-transcribed from the vhost-user / vhost-user-gpu specifications (the sandbox has no copy of the text), refpred.rs for 'the API must reject locally', fstat/fdinfo identities for 'same open file'. Spec-silent bytes (padding of the inflight description, payload of the SET_LOG_BASE reply) are masked. Messages the crate does not implement are only checked to be rejected (C04/C05).",
   technique="differential property testing (proptest + enumeration) of real endpoints against an independent specification codec via a raw socket peer",
   ref="DESIGN.md section 3, C01"),
 "C02": dict(level="exploration",
   text="Stateful property testing of the real Frontend against the real BackendReqHandler (library Mutex adapter over a recording handler, served with the daemon's stop-at-first-error policy): 2500 sessions of up to 24 calls over all public operations with generated protocol-valid arguments after a generated negotiation; every call is judged by a model of what the API accepts: accepted => exactly one new handler entry with equal operation, scalars, payload bytes and descriptor identities (fstat / eventfd-id), present before the call returns when a reply/ack is awaited; rejected => error and nothing reaches the server; lent descriptors stay open. Plus 20000 locally-rejected candidates against a raw peer (byte count on the wire) and 3000 sequences through the RwLock/RefCell VhostBackend adapters over a recording VhostBackendMut.",
   note="Trusted: feops.rs (operation model: local-rejection rules from the property text, expected handler invocation), fstat/fdinfo identities instead of kcmp (not available). 'Accepted arguments' are protocol-valid ones; SET_LOG_FD and SET_LOG_BASE without shmfd region cannot be served by this back-end server and are skipped in sessions. Handler results are always success here (C03 covers failures).",
   technique="model-based (stateful) property testing with proptest sessions across both real endpoints + raw-peer byte accounting",
   ref="DESIGN.md section 3, C02"),
 "C03": dict(level="exploration",
   text="Property testing across both real endpoints: for every reply-bearing operation and every acknowledged set-operation a scripted handler outcome (success with lattice values / generated config bytes / with or without file, Err of each of the 16 error variants, unusable success such as wrong-length config bytes or a queue count above the maximum) is injected at a random position of a session, under REPLY_ACK on/off x NEED_REPLY on/off; the call runs in a helper thread. Usable success must come back as exactly the handler's values, bytes and the very file (identity); anything else must come back as an error, and the call must return at all: a call that never returns is diagnosed by quiescence (caller asleep, server asleep or stopped, no byte in flight over many looks), not by a deadline.",
   note="Trusted: the session machinery of props/c02.rs, the server thread's emulation of the daemon policy (stop serving and shut the socket down at the first request error). Set-operations without a negotiated acknowledgement are only checked not to hang. A server that keeps a dead request's connection open (policy the library leaves to its caller) is not modelled.",
   technique="property-based fault injection (scripted handler outcomes) over proptest sessions, quiescence-based hang detection",
   ref="DESIGN.md section 3, C03"),
 "C04": dict(level="exploration",
   text="Model-based testing of the real BackendReqHandler: every word up to depth 3 (quick) / 4 (thorough) over a 21-symbol reduced alphabet x {protocol features offered or not} is executed exhaustively, plus thousands of random histories (length <= 12) over all 44 request codes with generated bodies, NEED_REPLY flags and scripted handler outcomes; the bytes the server writes are compared frame by frame with a reference protocol model and a sentinel request proves exact consumption. Histories are an unbounded space, so bounded-exhaustive + random exploration is the level claimed.",
   note="Trusted: spec.rs (request table and layouts transcribed from the vhost-user specification), the protocol model in props/c04.rs. Stated tolerances: the SET_PROTOCOL_FEATURES that flips REPLY_ACK may or may not be acked; requests rejected before the handler may produce nothing or one non-zero ack; SET_LOG_BASE reply payload and the 4 padding bytes of the inflight description are spec-silent.",
   technique="model-based (stateful) property testing: bounded-exhaustive + proptest histories vs. reference protocol model; thorough tier adds a coverage-guided libFuzzer campaign over histories (fuzz/c04_hist, same model inside the target)",
   ref="DESIGN.md section 3, C04"),
 "C05": dict(level="exploration",
   text="Generated-input search on both levels named by the property: (a) the real BackendReqHandler is fed grammar-aware byte streams (valid messages of random codes with one mutator each on size/flags/code/body fields, truncation, extension, random tails, 0..=40 descriptors at byte 0 or a random byte, after a random negotiation prefix) and random byte strings; every handler invocation must be explained by a protocol-valid message (independent predicates) literally present in the sent bytes at increasing offsets, no call may panic. (b) a running daemon receives sequences of well-typed messages with adversarial 64-bit fields (regions at the top of the address space, unmappable sizes, ring addresses around region edges, indexes up to 255 and beyond); no thread may panic, the process must not crash (supervising parent turns a signal into a replayable violation).",
   note="Trusted: refpred.rs / spec.rs, the 'message present in the stream' oracle (resynchronisation after an error is the server's choice), overflow-checks + debug-assertions in the harness build. A set REPLY bit on a request and out-of-bounds reads that do not alter arguments are not judged here (the latter only in the ASan build of the libFuzzer target). Descriptors passed by the generator back the ranges the messages declare (a mapping past the end of a file faults in any mmap-based back end).",
   technique="grammar-aware mutational property testing (proptest) with independent validity oracle; crash isolation by supervising process; thorough tier adds a coverage-guided libFuzzer campaign (fuzz/c05_stream, same oracle inside the target, ASan), quick tier replays its corpus",
   ref="DESIGN.md section 3, C05"),
 "C06": dict(level="exploration",
   text="Mutation-based property testing of every reply parser on the front-end side: for each reply-awaiting call of Frontend (reply-bearing operations and acknowledged set-operations), Backend proxy (5 requests) and GpuBackend (4 calls) the raw peer answers with the conforming reply transformed by 0..2 mutators (code, REPLY bit, NEED_REPLY, version, reserved flag bits, size field, body bytes from the lattice, descriptors added/removed, truncation + close, random bytes); a three-valued oracle derived from the property's own conjunct list decides MUST_ACCEPT (returned value must equal the bytes sent) / MUST_REJECT (Ok is a fabricated success) / EITHER. The request server for back-end-initiated requests is fed mutated streams with 0..=3 descriptors: no panic (catch_unwind, crash isolation) and every handler invocation must be explained by a well-formed request literally present in the stream. 36k cases in quick.",
   note="Trusted: feops.rs / spec.rs (conforming replies), refpred.rs (body validity). EITHER where the statement is silent: size-field-only changes, NEED_REPLY on a reply, values an endpoint may refuse for other reasons (queue count above the maximum, config flags that differ from the request).",
   technique="mutational property testing (proptest) of reply parsers with a three-valued oracle; stream fuzzing of the request server with an independent validity oracle; thorough tier adds coverage-guided libFuzzer campaigns (fuzz/c06_reply, fuzz/c06_bereq, same oracles inside the targets), quick tier replays their corpora",
   ref="DESIGN.md section 3, C06"),
 "C07": dict(level="exploration",
   text="Exhaustive enumeration on both endpoints: every acknowledged subset of the 10 gating protocol-feature bits (11 in the postcopy build), each also combined with all non-gating bits, x PROTOCOL_FEATURES offered/acknowledged x every gated operation on the real Frontend (a raw peer counts the bytes put on the wire) and on the real BackendReqHandler (the raw peer negotiates exactly the subset, then sends the gated request; handler log must not grow); every negotiation word up to length 3/4 (front-end API calls resp. raw messages, incl. acknowledge-then-un-acknowledge) followed by every gated operation; the 2^3 Backend-proxy flag settings x 5 requests; GET_PROTOCOL_FEATURES for 47 systematic and 2000 random device feature sets (REPLY_ACK always offered). About 220k cases in quick, complete for the stated finite spaces.",
   note="Trusted: spec.rs gate table (bit numbers), feops.rs state model of the front end. Only the refusing direction is judged (bit clear => refused, nothing on the wire / handler not invoked); the accepting direction belongs to C02. Longer negotiation histories are covered randomly by C04's model check.",
   technique="exhaustive configuration / order enumeration with raw-peer byte accounting and handler-log oracle",
   ref="DESIGN.md section 3, C07"),
 "C08": dict(level="fault_enumeration",
   text="Enumeration of segmentations and truncations for one spec-encoded instance of every request the back-end server implements (incl. a 4096-byte SET_CONFIG and a 32-region SET_MEM_TABLE with 32 descriptors), every back-end-initiated request and every reply/ack kind read by Frontend, Backend proxy and GpuBackend: all 2-splits, all 3-splits of messages up to 64 bytes (selected points for longer ones), byte-by-byte delivery, and every cut offset followed by a half-close (about 25k deliveries in quick). Each next segment is written only after the receiver drained the previous one, so splits are really experienced. Segmented delivery must equal unsplit delivery (result and handler log) and be accepted; a cut must give an error (Disconnected exactly at offset 0), no dispatch, no hang. Sender side: bursts of maximum-size messages from Frontend and BackendReqHandler on non-blocking sockets with minimal SO_SNDBUF against a reader that provokes partial writes (observed in every burst) and checks byte-exact concatenation and descriptor placement.",
   note="Trusted: spec.rs encodings, FIONREAD==0 as 'segment consumed', the inference of a partial write from a stalled sender with an off-boundary byte count. With this kernel's minimum send buffer a descriptor-carrying message (<= 1044 bytes) is never split by a partial write, so descriptor placement under partial writes is only exercised for whole messages. A receiver still blocked after 10 s counts as blocking forever.",
   technique="exhaustive fault enumeration (all split points / cut offsets) with differential oracle against unsplit delivery; provoked partial writes",
   ref="DESIGN.md section 3, C08"),
 "C09": dict(level="exploration",
   text="Descriptor accounting by exact set equality of /proc/self/fd: every scenario starts from a snapshot of the process's open descriptor numbers and must return to exactly that set after all endpoints, handler-owned files and harness copies are dropped. Scenarios: (1) 6000 mutated request streams with 0..=40 descriptors per chunk at byte 0 or a random byte against the real BackendReqHandler, torn down after a generated number of handle_request calls (incl. with unread descriptor-carrying messages in the socket); every identity a handler receives must have been sent and is received at most once, nothing may stay open between calls that was not handed over; (2) 3000 back-end-request streams against FrontendReqHandler (descriptors lent to the handler must be closed after the call); (3) 6000 Frontend calls answered with mutated replies carrying 0..=3 descriptors; (4) 500 C02 sessions with lent descriptors of five kinds; (5) 300 daemon message sequences, differential against an empty session on the same fixture.",
   note="Trusted: /proc/self/fd and fstat/fdinfo identities (no kcmp in this sandbox), harness-sent descriptors are fresh memfds/eventfds with unique identities. Daemon level is differential because the fixture itself leaves the exit-event consumer registered in the worker's epoll set open (not a descriptor that arrived over a socket).",
   technique="property-based resource accounting: generated histories x teardown points with exact fd-set equality oracle",
   ref="DESIGN.md section 3, C09"),
 "C10": dict(level="exploration",
   text="Controlled concurrency runs with harness-owned hold points between 'request written' and 'reply read' in the Frontend, the Backend proxy and the GpuBackend: every op mix of two callers (and sampled / all mixes of three) over {two reply-bearing codes, acknowledged, fire-and-forget} x every release order; the first caller is parked with its request outstanding, the others are started and must settle (blocked on the endpoint lock), the raw peer sees the wire and answers every request with that request's identity. Checked: no request reaches the wire while another caller sits between write and read, every caller gets its own answer and no error, all complete. Plus uncontrolled stress (8 threads x 200 mixed calls per endpoint; 16 x 20000 thorough) with an identity-echoing responder, which covers windows the hold point does not expose.",
   note="Trusted: hold-point controller and thread-state sampling (a caller asleep without being parked is 'blocked on the lock'). Atomicity is explored at hold-point granularity (one window per call); interleavings inside sendmsg/recvmsg are the kernel's. The stress part is probabilistic.",
   technique="controlled-schedule enumeration with hold points + multi-thread stress against an identity-echoing raw peer",
   ref="DESIGN.md section 3, C10"),
 "C11": dict(level="exploration",
   text="Model-based testing of a real VhostUserDaemon: every word up to depth 4 (quick) / 5 (thorough) over the 11-symbol one-ring alphabet (containing a kick) is executed on a fresh daemon, alternating Mutex- and RwLock-backed rings, plus random 2-ring histories up to 20 steps; after every step a double barrier on the worker makes 'no dispatch' observable without sleeping and per-ring handler invocations are compared with a reference ring model (started/enabled/pending). Histories are unbounded, so bounded-exhaustive + random exploration is what is claimed.",
   note="Trusted: the ring model in props/c11.rs, the double-barrier argument (epoll batch semantics), the raw spec-encoding client. Kicks are raised on the current descriptor and on stale descriptors the front end still holds; fatal-by-protocol steps are skipped; an extra handler call for an active ring without a kick is only counted.",
   technique="model-based (stateful) property testing with bounded-exhaustive + proptest histories vs. reference ring model, double-barrier observation",
   ref="DESIGN.md section 3, C11"),
 "C12": dict(level="exploration",
   text="The harness owns the schedule at the instrumented points (cargo feature verif-hooks): for three scenarios (disable/enable, stop/restart with a new kick descriptor, reset/re-feature) on a started, enabled, kicked ring, every word over {worker advances to its next hold point, control path advances, one more guest kick} with 4 worker and 3 control steps and at most one extra kick is executed on a fresh daemon for both vring kinds (1890 words; exhaustive for one wake-up against one disabling message at hold-point granularity), and invariants over the history recorded on one logical clock are checked: no handler entry between 'reply to the disabling message received' and 'enabling message sent', every kick on a descriptor that stays current is followed by a handler entry, worker alive. This explores the instrumented interleavings, not all machine-level ones.",
   note="Trusted: hold-point controller, thread-state sampling as 'blocked/idle' diagnosis (no deadline as correctness signal), the logical clock. Two genuine defects are recorded as known findings (F9a, F9c in known-findings.json) and excluded by their exact trigger pattern in the trace, so the search continues behind them; F9b was repaired. Kicks on descriptors dropped by GET_VRING_BASE are not required to be delivered.",
   technique="schedule enumeration with harness-owned hold points (controlled interleavings) + history invariants",
   ref="DESIGN.md section 3, C12"),
 "C13": dict(level="exploration",
   text="Stateful property testing of a real daemon: random histories of SET_MEM_TABLE/ADD_MEM_REG/REM_MEM_REG with generated geometry (adjacent/overlapping/duplicate/unordered regions, failing mmaps, user ranges up to the top of the 64-bit space), each step checked against a memory-table model: region set of the guest memory handed to the back end, update_memory count, byte backing in both directions through the passed files, and SET_VRING_ADDR translation probes at region edges. A refused request ends the connection (daemon policy), the harness reconnects to the same daemon, which is how 'previous table intact' is observed.",
   note="Trusted: the memtable model in props/c13.rs, vm-memory's GuestMemory read/write as the observation channel, the double barrier for sampling the queue's descriptor-table address. Unsorted/overlapping SET_MEM_TABLE may fail or succeed; probes with overlapping user ranges are skipped; failing application update_memory callbacks are not injected.",
   technique="model-based (stateful) property testing with proptest histories vs. memory-table reference model",
   ref="DESIGN.md section 3, C13"),
 "C14": dict(level="exploration",
   text="Stateful property testing of a real 3-ring daemon (back end direct / Mutex / RwLock wrapped, VringMutex / VringRwLock): thousands of random histories in arbitrary message order, each step compared with a model of the configured ring using the queue state sampled inside the worker thread at a barrier, the used-ring bytes and used index in the memfds of the latest accepted table (and the previous table's files unchanged), the counters of every call eventfd ever installed, the values the back end's acked_features/set_event_idx received, and the behaviour of the Backend proxy handed over by SET_BACKEND_REQ_FD (refusals, NEED_REPLY flag).",
   note="Trusted: the ring model in props/c14.rs, virtio-queue getters as observation of the queue, the barrier listener. Non-power-of-two sizes within the maximum are outside the statement and only counted. Refused requests end the connection (daemon policy); the harness reconnects to the same daemon.",
   technique="model-based (stateful) property testing with proptest histories vs. ring-configuration reference model",
   ref="DESIGN.md section 3, C14"),
 "C15": dict(level="exploration",
   text="Stateful property testing of a real daemon with the dirty-log bitmap: random histories mixing SET_LOG_BASE (windows from too small to ample, non-zero and unaligned offsets), writes through every guest-memory entry point incl. used-ring updates and direct mark_dirty with zero/huge lengths, and memory-table changes; after every step each log file is read back with pread and must equal the expected page bitmap inside the window and zero elsewhere (both directions: no missing and no extra bit, nothing outside the mapping). Plus a stress part with 2..16 writers on bits of the same log byte(s), 24k barrier-released rounds in quick.",
   note="Trusted: the page-set model in props/c15.rs, pread on the memfd as an observation independent of the crate. Lost updates of a non-atomic read-modify-write are detected only probabilistically (stress, not schedule control). While logging, a table change the log window cannot cover may be refused (then the old table must stay).",
   technique="model-based property testing (proptest histories vs. page-set model) + multi-thread stress for atomicity",
   ref="DESIGN.md section 3, C15"),
 "C16": dict(level="fault_enumeration",
   text="Enumeration of shutdown/teardown scenarios on real daemons: 9 positions of the shutdown request relative to the daemon thread's progress (three pinned exactly with hold points in the thread loop, the others reached by peer behaviour: partial header, header without body, blocked inside the back end's callback, reply path filled until the thread sleeps in sendmsg, peer gone) x 1..3 callers (sequential/concurrent) x events interleaved between the two steps of a shutdown request (hold point): peer close, daemon request error, second caller, a wait() running meanwhile or already blocked; peer close at every byte offset of 8 request kinds for wait() and serve(); 5 request-error kinds; drop of a connected daemon. Every scenario checks wait()'s result, bounded completion (helper thread + thread-state report), EOF at the peer, a successful restart on a new connection and the thread count after drop. The scenario space is finite and enumerated completely (repeated 5x in quick for timing variance).",
   note="Trusted: hold-point controller (sched.rs), /proc thread accounting, a 10 s bound as 'does not complete' on an otherwise idle process. Not asserted: wait() result when the peer closes right after a complete request that has a reply; serve() result for cuts inside a body. Interleavings are explored at hold-point granularity.",
   technique="fault/schedule enumeration with harness-owned hold points and scripted peer behaviour",
   ref="DESIGN.md section 3, C16"),
 "C17": dict(level="exploration",
   text="Every queues-per-thread configuration with num_queues<=4 and <=2 worker masks (quick; <=3 masks thorough), each mask any value below 2^(num_queues+2), is built as a real daemon and every queue is kicked once (exhaustive over that finite sub-space), plus sampled configurations up to 6 queues x 3 threads; owner thread, event id (rank), ring-slice length and ring identity (size 2^(q+1)) are compared with the first-principles formula, other workers must stay silent (double barrier on every worker), dropping the daemon must terminate the workers through the exit event. Custom listener ids over the 64-bit range must be delivered exactly or refused.",
   note="Trusted: the double barrier, the first-principles owner/rank formula in props/c17.rs. Queues in no mask: only silence is checked. Listener ids that cannot be delivered may be refused (acceptance creates the obligation). A hung teardown is diagnosed after 10 s with the worker threads' states and ends the run as a violation.",
   technique="exhaustive configuration enumeration + proptest sampling vs. first-principles routing oracle",
   ref="DESIGN.md section 3, C17"),
 "C18": dict(level="exploration",
   text="Stateful property testing across both real endpoints of the back-end-request channel: 6000 histories of up to 16 requests (five kinds, generated UUIDs and mapping descriptors, five descriptor kinds) issued on the real Backend proxy and forwarded by a recording tee (bytes and descriptors, both directions) to the real FrontendReqHandler served in a thread, with a scripted handler result per request (0, non-zero, errno, negative raw code, error without errno) and REPLY_ACK on/off (plus the asymmetric case: negotiated at the front end, not requested by the proxy). Checked per request: exactly one handler entry with equal arguments and the same open file, lent descriptors closed / kept as prescribed, proxy success iff status 0, acknowledgement bytes on the wire equal to the prescribed value and after their request, no acknowledgement bytes without NEED_REPLY.",
   note="Trusted: spec.rs ack encoding, the tee (harness code) as the observation of the wire, fstat/fdinfo identities. Protocol-invalid arguments (nil / all-ones UUID, zero or wrapping lengths, undefined flags) are outside the claim and not generated; raw error code i32::MIN is excluded.",
   technique="model-based property testing with proptest histories across both real endpoints and a recording tee",
   ref="DESIGN.md section 3, C18"),
 "C19": dict(level="exploration",
   text="Differential testing of every trait operation of the four kernel back ends (blanket VhostBackend impl through a test VhostKernBackend type, Net, Vsock, VhostKernVdpa with all VhostVdpa operations, VhostKernFeatures, IOTLB messages v1/v2 with every type x permission) against the Linux UAPI: the harness binary defines ioctl() itself, records request number and argument bytes of every vhost ioctl the library issues on a dummy descriptor and plays the kernel (writes generated bytes back for _IOR/_IOWR); a C program compiled at check time against <linux/vhost.h> supplies the request numbers (direction, type, nr, size) and the sizeof/offsetof of every argument struct. 100k generated calls in quick plus an enumeration of region-table sizes 0..257; ring configurations with zero / non-power-of-two / over-maximum size or a log flag without address must be refused before any ioctl; host addresses handed to the kernel are recomputed independently from the region list.",
   note="Trusted: the system UAPI headers and ckern/uapi.c, the in-binary ioctl interposition (the real kernel is not involved: 'returns what the kernel wrote back' is judged against the fake), SOCK_SEQPACKET read-back of IOTLB writes. Structure padding in IOTLB messages has no defined content and is not compared.",
   technique="differential property testing against the kernel UAPI headers via ioctl interposition",
   ref="DESIGN.md section 3, C19"),
 "C20": dict(level="exploration",
   text="Exhaustive enumeration of a boundary lattice per message type (about 9.5 million bit patterns, complete for the lattice) plus random 64-bit patterns, each judged in both directions against an independent predicate written from the property text in u128 arithmetic. Validators are pure functions of a few integer fields whose rules only have boundaries at the lattice points, so lattice-exhaustive + random search is the right level; it is not a proof over all 2^k patterns.",
   note="Trusted: refpred.rs (hand-written from the property/spec), the verif-hooks accessors that expose the private header validators. A range whose exclusive end is exactly 2^64 counts as a 64-bit wrap. Bit patterns the rules leave open (padding word of the single-region body, inflight mmap_size==0) are accepted either way and counted as spec_silent.",
   technique="exhaustive boundary-lattice enumeration + proptest random patterns vs. independent reference predicate; thorough tier adds a coverage-guided libFuzzer campaign (fuzz/c20_valid)",
   ref="DESIGN.md section 3, C20"),
}

PENDING_REASON = "(none pending) check not built yet in this revision of /verif (work in progress, see DESIGN.md section 3); not claimed until its check exists"

def main():
    props = [json.loads(l) for l in open('/verif/properties.jsonl')]
    checks = []
    na = []
    for p in props:
        pid = p['id']
        c = CLAIMED.get(pid)
        if not c:
            na.append({"property_id": pid, "reason": PENDING_REASON})
            continue
        checks.append({
            "property_id": pid,
            "quick_cmd": f"./check {pid} quick",
            "thorough_cmd": f"./check {pid} thorough",
            "evidence_file": f"/verif/evidence/{pid}.json",
            "replay_cmd_template": f"./check {pid} --replay {{path}}",
            "engine": "vverif",
            "level_claimed": {"category": c['level'], "text": c['text'], "design_ref": c['ref']},
            "level_note": c['note'],
            "technique": c['technique'],
        })
    hooks = subprocess.run(['git','-C','/repo','log','--format=%h %s'],capture_output=True,text=True).stdout.splitlines()
    hook_commits = [l.split()[0] for l in hooks if 'verif-hooks' in l or 'hold point' in l or 'verif hook' in l.lower()]
    m = {
        "version": 1,
        "setup_cmd": "./check --setup",
        "hooks": {
            "guard": "cargo feature verif-hooks (vhost/verif-hooks, vhost-user-backend/verif-hooks)",
            "enable": "the harness crate /verif/harness depends on /repo/vhost and /repo/vhost-user-backend by path with features=[\"verif-hooks\"]; every ./check rebuilds it from /repo's working tree",
            "baseline_off_cmd": "cd /repo && cargo test --workspace --no-fail-fast --offline",
            "source_commits": hook_commits,
            "add_only": True,
        },
        "engines": [
            {"name": "vverif", "path": "/verif/harness", "serves_properties": sorted(CLAIMED.keys()),
             "kind_free_text": "Rust binary: proptest TestRunner (fixed seed from VERIF_SEED, shrinking, replay files) + exhaustive enumerators + reference models/oracles; one subcommand per property"},
            {"name": "libfuzzer-targets", "path": "/verif/fuzz", "serves_properties": ["C04", "C05", "C06", "C20"],
             "kind_free_text": "cargo-fuzz crate (libFuzzer, ASan, debug assertions): targets c04_hist, c05_stream, c06_reply, c06_bereq, c20_valid call the harness library's oracles (harness/src/fuzzing.rs); driven by tools/fuzz_campaign.py from ./check <Cxx> thorough; crash artifacts are re-executed strictly by vverif before anything is reported"},
        ],
        "checks": checks,
        "not_applicable": na,
        "notes": "Exit codes: 0 held (KNOWN-FINDING lines allowed), 1 VIOLATION, 2 inconclusive. Known findings: /verif/known-findings.json. Seeded breaking changes used to test sensitivity: /verif/seeded/. VERIF_SEED seeds every generator.",
    }
    json.dump(m, open('/verif/MANIFEST.json','w'), indent=1)
    print("claimed", len(checks), "not_applicable", len(na))

main()
