#![no_main]
// libFuzzer target: the bytes are decoded and judged by vverif::fuzzing::one("c04_hist") — same oracle as the
// proptest checks (see harness/src/fuzzing.rs for the input layout).  A violation saves a replay file and aborts.
use libfuzzer_sys::fuzz_target;

fuzz_target!(|data: &[u8]| {
    vverif::fuzzing::entry("c04_hist", data);
});
