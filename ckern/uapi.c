/* Oracle for C19: ioctl numbers, sizes and field offsets of the Linux vhost UAPI, taken from the
 * system headers at check time and printed as JSON. */
#include <stdio.h>
#include <stddef.h>
#include <sys/ioctl.h>
#include <linux/vhost.h>
#include <linux/vhost_types.h>

#define REQ(name) printf("%s  \"%s\": %lu", first ? "" : ",\n", #name, (unsigned long)(name)), first = 0
#define SZ(t) printf("%s  \"sizeof_%s\": %zu", first ? "" : ",\n", #t, sizeof(struct t)), first = 0
#define OFF(t, f) printf("%s  \"offsetof_%s_%s\": %zu", first ? "" : ",\n", #t, #f, offsetof(struct t, f)), first = 0

int main(void) {
    int first = 1;
    printf("{\n");
    REQ(VHOST_GET_FEATURES); REQ(VHOST_SET_FEATURES); REQ(VHOST_SET_OWNER); REQ(VHOST_RESET_OWNER);
    REQ(VHOST_SET_MEM_TABLE); REQ(VHOST_SET_LOG_BASE); REQ(VHOST_SET_LOG_FD);
    REQ(VHOST_SET_VRING_NUM); REQ(VHOST_SET_VRING_ADDR); REQ(VHOST_SET_VRING_BASE); REQ(VHOST_GET_VRING_BASE);
    REQ(VHOST_SET_VRING_KICK); REQ(VHOST_SET_VRING_CALL); REQ(VHOST_SET_VRING_ERR);
    REQ(VHOST_SET_BACKEND_FEATURES); REQ(VHOST_GET_BACKEND_FEATURES);
    REQ(VHOST_NET_SET_BACKEND); REQ(VHOST_VSOCK_SET_GUEST_CID); REQ(VHOST_VSOCK_SET_RUNNING);
    REQ(VHOST_VDPA_GET_DEVICE_ID); REQ(VHOST_VDPA_GET_STATUS); REQ(VHOST_VDPA_SET_STATUS);
    REQ(VHOST_VDPA_GET_CONFIG); REQ(VHOST_VDPA_SET_CONFIG); REQ(VHOST_VDPA_SET_VRING_ENABLE);
    REQ(VHOST_VDPA_GET_VRING_NUM); REQ(VHOST_VDPA_SET_CONFIG_CALL); REQ(VHOST_VDPA_GET_IOVA_RANGE);
    REQ(VHOST_VDPA_GET_CONFIG_SIZE); REQ(VHOST_VDPA_GET_VQS_COUNT); REQ(VHOST_VDPA_GET_GROUP_NUM);
    REQ(VHOST_VDPA_GET_AS_NUM); REQ(VHOST_VDPA_GET_VRING_GROUP); REQ(VHOST_VDPA_SET_GROUP_ASID);
    REQ(VHOST_VDPA_SUSPEND);
    SZ(vhost_vring_state); OFF(vhost_vring_state, index); OFF(vhost_vring_state, num);
    SZ(vhost_vring_file); OFF(vhost_vring_file, index); OFF(vhost_vring_file, fd);
    SZ(vhost_vring_addr); OFF(vhost_vring_addr, index); OFF(vhost_vring_addr, flags);
    OFF(vhost_vring_addr, desc_user_addr); OFF(vhost_vring_addr, used_user_addr);
    OFF(vhost_vring_addr, avail_user_addr); OFF(vhost_vring_addr, log_guest_addr);
    SZ(vhost_memory_region); OFF(vhost_memory_region, guest_phys_addr); OFF(vhost_memory_region, memory_size);
    OFF(vhost_memory_region, userspace_addr); OFF(vhost_memory_region, flags_padding);
    SZ(vhost_memory); OFF(vhost_memory, nregions); OFF(vhost_memory, padding); OFF(vhost_memory, regions);
    SZ(vhost_iotlb_msg); OFF(vhost_iotlb_msg, iova); OFF(vhost_iotlb_msg, size); OFF(vhost_iotlb_msg, uaddr);
    OFF(vhost_iotlb_msg, perm); OFF(vhost_iotlb_msg, type);
    SZ(vhost_msg); OFF(vhost_msg, type); OFF(vhost_msg, iotlb);
    SZ(vhost_msg_v2); OFF(vhost_msg_v2, type); OFF(vhost_msg_v2, asid); OFF(vhost_msg_v2, iotlb);
    SZ(vhost_vdpa_config); OFF(vhost_vdpa_config, off); OFF(vhost_vdpa_config, len); OFF(vhost_vdpa_config, buf);
    SZ(vhost_vdpa_iova_range); OFF(vhost_vdpa_iova_range, first); OFF(vhost_vdpa_iova_range, last);
    printf("%s  \"VHOST_IOTLB_MSG\": %d", ",\n", VHOST_IOTLB_MSG);
    printf("%s  \"VHOST_IOTLB_MSG_V2\": %d", ",\n", VHOST_IOTLB_MSG_V2);
    printf("%s  \"VHOST_BACKEND_F_IOTLB_MSG_V2\": %d", ",\n", VHOST_BACKEND_F_IOTLB_MSG_V2);
    printf("%s  \"VHOST_VRING_F_LOG\": %d", ",\n", VHOST_VRING_F_LOG);
    printf("\n}\n");
    return 0;
}
