//! Engine shared by all property checks: proptest runner wrapper, exhaustive enumeration,
//! counters, evidence, replay files and known-finding matching.
//!
//! Conventions (DESIGN.md 1.1): every random choice comes from a proptest strategy driven by a
//! `TestRunner` seeded from VERIF_SEED; a failing case is shrunk by proptest and serialised to
//! `/verif/replays/<prop>-<hash>.json`; `--replay` re-executes such a file without the library.

use std::cell::RefCell;
use std::collections::hash_map::DefaultHasher;
use std::collections::{BTreeMap, BTreeSet, HashSet};
use std::fmt::Debug;
use std::hash::{Hash, Hasher};
use std::path::{Path, PathBuf};
use std::time::Instant;

use proptest::strategy::{Strategy, ValueTree};
use proptest::test_runner::{Config, RngAlgorithm, TestCaseError, TestError, TestRng, TestRunner};
use serde::de::DeserializeOwned;
use serde::Serialize;
use serde_json::{json, Value};

/// root of the verification tree (the directory of `check`); /verif unless VERIF_DIR says otherwise
pub fn verif_dir() -> String {
    std::env::var("VERIF_DIR").unwrap_or_else(|_| "/verif".to_string())
}

#[derive(Clone, Copy, PartialEq, Eq, Debug)]
pub enum Tier {
    Quick,
    Thorough,
}

impl Tier {
    pub fn name(self) -> &'static str {
        match self {
            Tier::Quick => "quick",
            Tier::Thorough => "thorough",
        }
    }
    /// pick a budget by tier
    pub fn pick<T>(self, quick: T, thorough: T) -> T {
        match self {
            Tier::Quick => quick,
            Tier::Thorough => thorough,
        }
    }
}

#[derive(Clone, Debug, serde::Deserialize)]
pub struct KnownFinding {
    pub property: String,
    pub signature: String,
    pub what: String,
    pub status: String, // "known" | "fixed"
    #[serde(default)]
    pub commit: Option<String>,
}

#[derive(Clone, Debug, Serialize)]
pub struct Violation {
    pub check: String,
    pub what: String,
    pub replay: String,
}

pub struct Ctx {
    pub prop: &'static str,
    pub tier: Tier,
    pub seed: u64,
    pub level: &'static str,
    /// shard index / count for thorough workers (0/1 otherwise)
    pub shard: (u32, u32),
    pub evaluations: u64,
    nontrivial: HashSet<u64>,
    classes: BTreeMap<String, u64>,
    samples: Vec<Value>,
    sample_seen: u64,
    pub violations: Vec<Violation>,
    known: Vec<KnownFinding>,
    known_hits: BTreeMap<String, u64>,
    known_printed: BTreeSet<String>,
    pub rule: String,
    pub assumptions: Vec<String>,
    pub exhaustive: Option<bool>,
    pub extra: BTreeMap<String, Value>,
    start: Instant,
    /// replay mode: only the named sub-check runs, once, on the given case
    pub replay: Option<(String, Value)>,
    replay_ran: bool,
    /// counting is suspended while proptest shrinks a failure
    frozen: bool,
    /// inconclusive events (harness trouble): reported with exit 2
    pub inconclusive: Vec<String>,
    /// shared-memory record of the case being executed (crash isolation, see main.rs)
    inflight: Option<Inflight>,
    /// name of the sub-check being executed
    pub current_check: String,
}

pub fn hash_of<K: Hash>(k: &K) -> u64 {
    let mut h = DefaultHasher::new();
    k.hash(&mut h);
    h.finish()
}

fn fnv(s: &str) -> u64 {
    let mut h: u64 = 0xcbf29ce484222325;
    for b in s.bytes() {
        h ^= b as u64;
        h = h.wrapping_mul(0x100000001b3);
    }
    h
}

impl Ctx {
    pub fn new(prop: &'static str, tier: Tier, seed: u64, level: &'static str) -> Self {
        let known = load_known(prop);
        Ctx {
            prop,
            tier,
            seed,
            level,
            shard: (0, 1),
            evaluations: 0,
            nontrivial: HashSet::new(),
            classes: BTreeMap::new(),
            samples: Vec::new(),
            sample_seen: 0,
            violations: Vec::new(),
            known,
            known_hits: BTreeMap::new(),
            known_printed: BTreeSet::new(),
            rule: String::new(),
            assumptions: Vec::new(),
            exhaustive: None,
            extra: BTreeMap::new(),
            start: Instant::now(),
            replay: None,
            replay_ran: false,
            frozen: false,
            inconclusive: Vec::new(),
            inflight: Inflight::from_env(),
            current_check: String::new(),
        }
    }

    /// long-running fuzz processes: keep the bookkeeping bounded
    pub fn reset_counters_if_large(&mut self) {
        if self.nontrivial.len() > 200_000 {
            self.nontrivial.clear();
        }
    }
    pub fn eval(&mut self) {
        if !self.frozen {
            self.evaluations += 1;
        }
    }
    pub fn evals(&mut self, n: u64) {
        if !self.frozen {
            self.evaluations += n;
        }
    }
    /// record a distinct non-trivial case by canonical key
    pub fn nontrivial<K: Hash>(&mut self, key: &K) {
        if !self.frozen {
            self.nontrivial.insert(hash_of(key));
        }
    }
    pub fn class(&mut self, name: &str) {
        if !self.frozen {
            *self.classes.entry(name.to_string()).or_insert(0) += 1;
        }
    }
    pub fn class_n(&mut self, name: &str, n: u64) {
        if !self.frozen {
            *self.classes.entry(name.to_string()).or_insert(0) += n;
        }
    }
    /// keep a handful of representative samples (first few, then sparse)
    pub fn sample(&mut self, v: impl FnOnce() -> Value) {
        if self.frozen {
            return;
        }
        self.sample_seen += 1;
        let n = self.sample_seen;
        if self.samples.len() < 4 || (n.is_power_of_two() && self.samples.len() < 12) {
            self.samples.push(v());
        }
    }
    pub fn is_frozen(&self) -> bool {
        self.frozen
    }

    /// Is `signature` listed as a *known* (not fixed) finding for this property?  Counts the hit
    /// and prints the KNOWN-FINDING line once.  Returns false for fixed/unlisted signatures: then
    /// the caller must report a violation.
    pub fn known(&mut self, signature: &str) -> bool {
        if self.replay.is_some() {
            // strict replay: a replayed case always reports what it sees
            if let Some(k) = self.known.iter().find(|k| k.signature == signature && k.status == "known") {
                println!("KNOWN-FINDING: property={} {} [{}]", self.prop, k.what, k.signature);
                return true;
            }
            return false;
        }
        let hit = self
            .known
            .iter()
            .find(|k| k.signature == signature && k.status == "known")
            .cloned();
        match hit {
            Some(k) => {
                if !self.frozen {
                    *self.known_hits.entry(signature.to_string()).or_insert(0) += 1;
                }
                if self.known_printed.insert(signature.to_string()) {
                    println!("KNOWN-FINDING: property={} {} [{}]", self.prop, k.what, k.signature);
                }
                true
            }
            None => false,
        }
    }

    fn mark_inflight<C: Serialize>(&mut self, check: &str, case: &C) {
        if let Some(inf) = self.inflight.as_mut() {
            let body = json!({"property": self.prop, "check": check, "what": "process crashed (signal) while executing this case",
                              "case": serde_json::to_value(case).unwrap_or(Value::Null), "evaluations": self.evaluations});
            inf.store(&serde_json::to_vec(&body).unwrap_or_default());
        }
    }

    /// A violation after which the process cannot sensibly continue (leaked spinning threads, a hung
    /// teardown): record it, write the evidence and leave with the violation exit code at once.
    pub fn fatal_violation<C: Serialize>(&mut self, what: String, case: &C) -> ! {
        self.frozen = false;
        let check = self.current_check.clone();
        self.violation(&check, what, case);
        let rc = self.finish();
        std::process::exit(rc.max(1));
    }

    pub fn note_inconclusive(&mut self, what: String) {
        eprintln!("INCONCLUSIVE: {}", what);
        self.inconclusive.push(what);
    }

    /// record a violation with its (already minimal) case
    pub fn violation<C: Serialize>(&mut self, check: &str, what: String, case: &C) {
        // the harness process running out of descriptors is harness trouble (the library keeps one descriptor per worker
        // of every daemon ever created in this process open), not an observation about the property
        if what.contains("(os error 24)") {
            self.note_inconclusive(format!("{check}: harness ran out of file descriptors: {what}"));
            return;
        }
        let case_v = serde_json::to_value(case).unwrap_or(Value::Null);
        let body = json!({"property": self.prop, "check": check, "what": what, "case": case_v});
        let text = serde_json::to_string_pretty(&body).unwrap();
        let dir = PathBuf::from(verif_dir()).join("replays");
        let _ = std::fs::create_dir_all(&dir);
        let path = dir.join(format!("{}-{:016x}.json", self.prop, fnv(&text)));
        let _ = std::fs::write(&path, &text);
        println!("VIOLATION property={} replay={}", self.prop, path.display());
        println!("  check={} what={}", check, what);
        self.violations.push(Violation {
            check: check.to_string(),
            what,
            replay: path.display().to_string(),
        });
    }

    fn derived_seed(&self, name: &str) -> [u8; 32] {
        let mut out = [0u8; 32];
        let mut x = self.seed ^ fnv(self.prop).rotate_left(17) ^ fnv(name) ^ ((self.shard.0 as u64) << 48);
        for chunk in out.chunks_mut(8) {
            // splitmix64
            x = x.wrapping_add(0x9e3779b97f4a7c15);
            let mut z = x;
            z = (z ^ (z >> 30)).wrapping_mul(0xbf58476d1ce4e5b9);
            z = (z ^ (z >> 27)).wrapping_mul(0x94d049bb133111eb);
            z ^= z >> 31;
            chunk.copy_from_slice(&z.to_le_bytes());
        }
        out
    }

    fn wants(&mut self, name: &str) -> Option<Option<Value>> {
        self.current_check = name.to_string();
        match &self.replay {
            None => Some(None),
            Some((n, v)) if n == name => {
                self.replay_ran = true;
                Some(Some(v.clone()))
            }
            Some(_) => None,
        }
    }

    /// Random sub-check: `cases` values drawn from `strat`; `f` returns Err(description) on a
    /// violation.  The failing value is shrunk by proptest and saved as replay file.
    pub fn prop_check<S, F>(&mut self, name: &str, cases: u32, strat: S, f: F)
    where
        S: Strategy,
        S::Value: Serialize + DeserializeOwned + Debug + Clone,
        F: Fn(&mut Ctx, &S::Value) -> Result<(), String>,
    {
        let replay = match self.wants(name) {
            None => return,
            Some(r) => r,
        };
        if let Some(v) = replay {
            let case: S::Value = match serde_json::from_value(v) {
                Ok(c) => c,
                Err(e) => {
                    self.note_inconclusive(format!("replay case does not deserialize: {e}"));
                    return;
                }
            };
            self.eval();
            self.mark_inflight(name, &case);
            if let Err(what) = f(self, &case) {
                self.violation(name, what, &case);
            }
            return;
        }
        // thorough shards split the case budget
        let cases = if self.shard.1 > 1 { (cases / self.shard.1).max(1) } else { cases };
        let config = Config {
            cases,
            failure_persistence: None,
            max_shrink_iters: 4096,
            // failures that show as a bounded wait (a call that never returns) cost seconds per shrink step: the shrunk
            // case may then be less than minimal, but the violation is reported instead of running into the watchdog
            max_shrink_time: 90_000,
            max_global_rejects: 1 << 20,
            ..Config::default()
        };
        let rng = TestRng::from_seed(RngAlgorithm::ChaCha, &self.derived_seed(name));
        let mut runner = TestRunner::new_with_rng(config, rng);
        let cell = RefCell::new(&mut *self);
        let failed = RefCell::new(false);
        let res = runner.run(&strat, |v| {
            let mut g = cell.borrow_mut();
            let ctx: &mut Ctx = &mut g;
            if !*failed.borrow() {
                ctx.eval();
            }
            ctx.mark_inflight(name, &v);
            match f(ctx, &v) {
                Ok(()) => Ok(()),
                Err(what) => {
                    *failed.borrow_mut() = true;
                    ctx.frozen = true;
                    Err(TestCaseError::fail(what))
                }
            }
        });
        drop(cell);
        self.frozen = false;
        match res {
            Ok(()) => {}
            Err(TestError::Fail(reason, value)) => {
                self.violation(name, reason.message().to_string(), &value);
            }
            Err(TestError::Abort(reason)) => {
                self.note_inconclusive(format!("{name}: proptest aborted: {}", reason.message()));
            }
        }
    }

    /// Draw `n` values from a strategy without running a property (used to build inputs for
    /// plain loops that still must be a pure function of the seed).
    pub fn draw<S: Strategy>(&self, name: &str, strat: &S, n: usize) -> Vec<S::Value> {
        let rng = TestRng::from_seed(RngAlgorithm::ChaCha, &self.derived_seed(name));
        let mut runner = TestRunner::new_with_rng(Config::default(), rng);
        (0..n)
            .map(|_| strat.new_tree(&mut runner).expect("strategy").current())
            .collect()
    }

    /// Exhaustive sub-check over an explicit finite space.  Stops at the first violation of this
    /// sub-check (the case is already minimal by construction or small).
    pub fn enumerate<C, I, F>(&mut self, name: &str, space: I, mut f: F)
    where
        C: Serialize + DeserializeOwned + Debug + Clone,
        I: IntoIterator<Item = C>,
        F: FnMut(&mut Ctx, &C) -> Result<(), String>,
    {
        let replay = match self.wants(name) {
            None => return,
            Some(r) => r,
        };
        if let Some(v) = replay {
            let case: C = match serde_json::from_value(v) {
                Ok(c) => c,
                Err(e) => {
                    self.note_inconclusive(format!("replay case does not deserialize: {e}"));
                    return;
                }
            };
            self.eval();
            if let Err(what) = f(self, &case) {
                self.violation(name, what, &case);
            }
            return;
        }
        let (si, sn) = self.shard;
        let mut reported = 0;
        for (i, case) in space.into_iter().enumerate() {
            if sn > 1 && (i as u32 % sn) != si {
                continue;
            }
            self.eval();
            self.mark_inflight(name, &case);
            if let Err(what) = f(self, &case) {
                self.violation(name, what, &case);
                reported += 1;
                if reported >= 3 {
                    break;
                }
            }
        }
    }

    /// Replay the saved regression cases of this property (strictly) before the generated ones.
    pub fn regress_files(&self) -> Vec<PathBuf> {
        let dir = Path::new(&verif_dir()).join("regress");
        let mut v: Vec<PathBuf> = std::fs::read_dir(&dir)
            .map(|rd| {
                rd.filter_map(|e| e.ok())
                    .map(|e| e.path())
                    .filter(|p| {
                        p.file_name()
                            .and_then(|n| n.to_str())
                            .is_some_and(|n| n.starts_with(self.prop) && n.ends_with(".json"))
                    })
                    .collect()
            })
            .unwrap_or_default();
        v.sort();
        v
    }

    pub fn nontrivial_hashes(&self) -> Vec<u64> {
        self.nontrivial.iter().copied().collect()
    }

    pub fn partial_json(&self) -> Value {
        json!({
            "evaluations": self.evaluations,
            "nontrivial": self.nontrivial_hashes(),
            "classes": self.classes,
            "samples": self.samples,
            "violations": self.violations,
            "known_hits": self.known_hits,
            "inconclusive": self.inconclusive,
            "extra": self.extra,
        })
    }

    pub fn merge_partial(&mut self, v: &Value) {
        self.evaluations += v["evaluations"].as_u64().unwrap_or(0);
        if let Some(a) = v["nontrivial"].as_array() {
            for h in a {
                if let Some(h) = h.as_u64() {
                    self.nontrivial.insert(h);
                }
            }
        }
        if let Some(m) = v["classes"].as_object() {
            for (k, n) in m {
                *self.classes.entry(k.clone()).or_insert(0) += n.as_u64().unwrap_or(0);
            }
        }
        if let Some(a) = v["samples"].as_array() {
            for s in a.iter().take(2) {
                if self.samples.len() < 16 {
                    self.samples.push(s.clone());
                }
            }
        }
        if let Some(a) = v["violations"].as_array() {
            for x in a {
                self.violations.push(Violation {
                    check: x["check"].as_str().unwrap_or("").to_string(),
                    what: x["what"].as_str().unwrap_or("").to_string(),
                    replay: x["replay"].as_str().unwrap_or("").to_string(),
                });
            }
        }
        if let Some(m) = v["known_hits"].as_object() {
            for (k, n) in m {
                *self.known_hits.entry(k.clone()).or_insert(0) += n.as_u64().unwrap_or(0);
                self.known_printed.insert(k.clone());
            }
        }
        if let Some(a) = v["inconclusive"].as_array() {
            for x in a {
                self.inconclusive.push(x.as_str().unwrap_or("").to_string());
            }
        }
        if let Some(m) = v["extra"].as_object() {
            for (k, x) in m {
                match (self.extra.get(k).and_then(|o| o.as_u64()), x.as_u64()) {
                    (Some(a), Some(b)) => {
                        self.extra.insert(k.clone(), json!(a + b));
                    }
                    _ => {
                        self.extra.entry(k.clone()).or_insert(x.clone());
                    }
                }
            }
        }
    }

    /// Write the evidence file and return the process exit code.
    pub fn finish(&mut self) -> i32 {
        if let Some((name, _)) = &self.replay {
            if !self.replay_ran {
                self.inconclusive
                    .push(format!("replay: no sub-check named {name} in {}", self.prop));
            }
            println!(
                "replay {}: violations={} inconclusive={}",
                self.prop,
                self.violations.len(),
                self.inconclusive.len()
            );
            return if !self.violations.is_empty() {
                1
            } else if !self.inconclusive.is_empty() {
                2
            } else {
                0
            };
        }
        let wall = self.start.elapsed().as_secs_f64();
        let excluded: u64 = self.known_hits.values().sum();
        let mut coverage = serde_json::Map::new();
        coverage.insert("evaluations".into(), json!(self.evaluations));
        coverage.insert("distinct_nontrivial".into(), json!(self.nontrivial.len()));
        coverage.insert("rule".into(), json!(self.rule));
        coverage.insert("samples".into(), json!(self.samples));
        coverage.insert("classes".into(), json!(self.classes));
        coverage.insert("excluded_known".into(), json!(excluded));
        coverage.insert("known_finding_hits".into(), json!(self.known_hits));
        if let Some(e) = self.exhaustive {
            coverage.insert("exhaustive".into(), json!(e));
        }
        for (k, v) in &self.extra {
            coverage.insert(k.clone(), v.clone());
        }
        let ev = json!({
            "property_id": self.prop,
            "tier": self.tier.name(),
            "seed": self.seed,
            "level": self.level,
            "coverage": Value::Object(coverage),
            "assumptions": self.assumptions,
            "wall_s": (wall * 1000.0).round() / 1000.0,
            "violations": self.violations.len(),
            "violation_list": self.violations,
            "inconclusive": self.inconclusive,
        });
        let dir = Path::new(&verif_dir()).join("evidence");
        let _ = std::fs::create_dir_all(&dir);
        // a secondary run (second build of the library, see ./check) writes elsewhere and is merged by the driver
        let path = match std::env::var("VVERIF_EVIDENCE_PATH") {
            Ok(p) if !p.is_empty() => PathBuf::from(p),
            _ => dir.join(format!("{}.json", self.prop)),
        };
        if let Err(e) = std::fs::write(&path, serde_json::to_string_pretty(&ev).unwrap()) {
            eprintln!("cannot write evidence {}: {e}", path.display());
            return 2;
        }
        println!(
            "{} {}: evaluations={} distinct_nontrivial={} excluded_known={} violations={} wall={:.1}s",
            self.prop,
            self.tier.name(),
            self.evaluations,
            self.nontrivial.len(),
            excluded,
            self.violations.len(),
            wall
        );
        if !self.violations.is_empty() {
            1
        } else if !self.inconclusive.is_empty() {
            2
        } else {
            0
        }
    }
}

fn load_known(prop: &str) -> Vec<KnownFinding> {
    let path = Path::new(&verif_dir()).join("known-findings.json");
    let text = match std::fs::read_to_string(&path) {
        Ok(t) => t,
        Err(_) => return Vec::new(),
    };
    let v: Value = match serde_json::from_str(&text) {
        Ok(v) => v,
        Err(e) => {
            eprintln!("known-findings.json does not parse: {e}");
            return Vec::new();
        }
    };
    let mut out = Vec::new();
    if let Some(a) = v["findings"].as_array() {
        for x in a {
            if let Ok(k) = serde_json::from_value::<KnownFinding>(x.clone()) {
                if k.property == prop {
                    out.push(k);
                }
            }
        }
    }
    out
}

/// Monotone index mapping (shrinks towards 0): maps a u16 onto 0..len.
pub fn idx(i: u16, len: usize) -> usize {
    if len == 0 {
        0
    } else {
        ((i as usize) * len) >> 16
    }
}

/// Boundary lattice for 64-bit fields.
pub const LATTICE64: &[u64] = &[
    0,
    1,
    2,
    3,
    4,
    8,
    15,
    16,
    17,
    255,
    256,
    0xfff,
    0x1000,
    0x1001,
    0x7fff_ffff,
    0x8000_0000,
    0xffff_ffff,
    0x1_0000_0000,
    0x7fff_ffff_ffff_ffff,
    0x8000_0000_0000_0000,
    0xffff_ffff_ffff_fffe,
    0xffff_ffff_ffff_ffff,
];

/// Strategy: lattice value (60 %) or random u64 (40 %).
pub fn lat64() -> impl Strategy<Value = u64> {
    use proptest::prelude::*;
    prop_oneof![
        3 => (0..LATTICE64.len()).prop_map(|i| LATTICE64[i]),
        2 => any::<u64>(),
    ]
}
pub fn lat32() -> impl Strategy<Value = u32> {
    use proptest::prelude::*;
    prop_oneof![
        3 => (0..LATTICE64.len()).prop_map(|i| LATTICE64[i] as u32),
        2 => any::<u32>(),
    ]
}
pub fn lat16() -> impl Strategy<Value = u16> {
    use proptest::prelude::*;
    prop_oneof![
        3 => (0..LATTICE64.len()).prop_map(|i| LATTICE64[i] as u16),
        2 => any::<u16>(),
    ]
}

/// Shared-memory slot holding the case currently being executed, so that the supervising parent
/// process can turn a crash (SIGSEGV, abort) of the library into a replayable violation.
pub struct Inflight {
    ptr: *mut u8,
    len: usize,
}
unsafe impl Send for Inflight {}

pub const INFLIGHT_SIZE: usize = 1 << 20;

impl Inflight {
    pub fn from_env() -> Option<Inflight> {
        let path = std::env::var("VVERIF_INFLIGHT").ok()?;
        let f = std::fs::OpenOptions::new().read(true).write(true).create(true).open(&path).ok()?;
        f.set_len(INFLIGHT_SIZE as u64).ok()?;
        use std::os::unix::io::AsRawFd;
        let p = unsafe {
            libc::mmap(std::ptr::null_mut(), INFLIGHT_SIZE, libc::PROT_READ | libc::PROT_WRITE, libc::MAP_SHARED, f.as_raw_fd(), 0)
        };
        if p == libc::MAP_FAILED {
            return None;
        }
        Some(Inflight { ptr: p as *mut u8, len: INFLIGHT_SIZE })
    }
    pub fn store(&mut self, bytes: &[u8]) {
        let n = bytes.len().min(self.len - 8);
        unsafe {
            std::ptr::copy_nonoverlapping(bytes.as_ptr(), self.ptr.add(8), n);
            std::ptr::write_volatile(self.ptr as *mut u64, n as u64);
        }
    }
    /// read back a record from the file (parent side)
    pub fn read_file(path: &str) -> Option<Vec<u8>> {
        let b = std::fs::read(path).ok()?;
        if b.len() < 8 {
            return None;
        }
        let mut a = [0u8; 8];
        a.copy_from_slice(&b[..8]);
        let n = u64::from_ne_bytes(a) as usize;
        if n == 0 || 8 + n > b.len() {
            return None;
        }
        Some(b[8..8 + n].to_vec())
    }
}
