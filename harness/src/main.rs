//! vverif — property-based checks for rust-vmm/vhost (see /verif/DESIGN.md).
//!
//! usage: vverif <Cxx> quick|thorough [--replay FILE] [--shard i/n --out FILE]


use std::process::Command;

use vverif::engine::{Ctx, Tier};
use vverif::{engine, engine_panic, props};

fn usage() -> ! {
    eprintln!("usage: vverif <Cxx> quick|thorough [--replay FILE]");
    std::process::exit(2);
}

fn main() {
    // many scenarios pass descriptors around; a leaking library must not make the harness run out of them
    unsafe {
        let mut rl: libc::rlimit = std::mem::zeroed();
        if libc::getrlimit(libc::RLIMIT_NOFILE, &mut rl) == 0 {
            // the library keeps one descriptor per worker of every daemon ever created in the process (the exit-event
            // consumer handed to epoll is never closed): long runs need a high limit.  Try to raise the hard limit as
            // well (works as root), fall back to the existing hard limit.
            let mut hi = rl;
            hi.rlim_cur = 1 << 20;
            hi.rlim_max = 1 << 20;
            if libc::setrlimit(libc::RLIMIT_NOFILE, &hi) != 0 {
                rl.rlim_cur = rl.rlim_max.min(1 << 20);
                libc::setrlimit(libc::RLIMIT_NOFILE, &rl);
            }
        }
    }
    let args: Vec<String> = std::env::args().collect();
    if args.len() < 2 {
        usage();
    }
    if args[1] == "--emit-seeds" && args.len() == 4 {
        // starting corpus of a libFuzzer target (small valid inputs)
        let dir = std::path::Path::new(&args[3]);
        let _ = std::fs::create_dir_all(dir);
        for (i, b) in vverif::fuzzing::seeds(&args[2]).iter().enumerate() {
            let _ = std::fs::write(dir.join(format!("seed-{i:03}")), b);
        }
        return;
    }
    if args[1] == "--list" {
        for p in props::PROPS {
            println!("{}", p.id);
        }
        return;
    }
    let id = args[1].as_str();
    let def = match props::PROPS.iter().find(|p| p.id == id) {
        Some(d) => d,
        None => {
            eprintln!("unknown property {id}");
            std::process::exit(2);
        }
    };
    let mut tier = match std::env::var("VERIF_TIER").ok().as_deref() {
        Some("thorough") => Tier::Thorough,
        _ => Tier::Quick,
    };
    let mut replay: Option<String> = None;
    let mut shard: Option<(u32, u32)> = None;
    let mut out: Option<String> = None;
    let mut i = 2;
    while i < args.len() {
        match args[i].as_str() {
            "quick" => tier = Tier::Quick,
            "thorough" => tier = Tier::Thorough,
            "--replay" => {
                i += 1;
                replay = args.get(i).cloned();
            }
            "--shard" => {
                i += 1;
                let s = args.get(i).cloned().unwrap_or_default();
                let mut it = s.split('/');
                let a = it.next().and_then(|x| x.parse().ok());
                let b = it.next().and_then(|x| x.parse().ok());
                match (a, b) {
                    (Some(a), Some(b)) => shard = Some((a, b)),
                    _ => usage(),
                }
            }
            "--out" => {
                i += 1;
                out = args.get(i).cloned();
            }
            _ => usage(),
        }
        i += 1;
    }
    let seed: u64 = std::env::var("VERIF_SEED")
        .ok()
        .and_then(|s| s.parse::<i128>().ok())
        .map(|v| v as u64)
        .unwrap_or(0);

    if def.isolate && std::env::var("VVERIF_CHILD").is_err() && shard.is_none() {
        std::process::exit(supervise(def, &args[1..], tier, seed, replay.is_some()));
    }

    install_panic_hook();
    let mut ctx = Ctx::new(def.id, tier, seed, def.level);

    if let Some(path) = replay {
        let text = std::fs::read_to_string(&path).unwrap_or_else(|e| {
            eprintln!("cannot read {path}: {e}");
            std::process::exit(2)
        });
        let v: serde_json::Value = serde_json::from_str(&text).unwrap_or_else(|e| {
            eprintln!("cannot parse {path}: {e}");
            std::process::exit(2)
        });
        let check = v["check"].as_str().unwrap_or("").to_string();
        ctx.replay = Some((check, v["case"].clone()));
        (def.run)(&mut ctx);
        std::process::exit(ctx.finish());
    }

    if let Some((si, sn)) = shard {
        // worker of a sharded thorough run
        ctx.shard = (si, sn);
        (def.run)(&mut ctx);
        let outp = out.unwrap_or_else(|| usage());
        std::fs::write(&outp, serde_json::to_string(&ctx.partial_json()).unwrap()).unwrap();
        std::process::exit(0);
    }

    // saved regression cases first (strict replay, each in this process)
    for f in ctx.regress_files() {
        let text = std::fs::read_to_string(&f).unwrap_or_default();
        if let Ok(v) = serde_json::from_str::<serde_json::Value>(&text) {
            let mut rctx = Ctx::new(def.id, tier, seed, def.level);
            rctx.replay = Some((v["check"].as_str().unwrap_or("").to_string(), v["case"].clone()));
            (def.run)(&mut rctx);
            ctx.class("regress_replayed");
            ctx.evals(rctx.evaluations);
            for viol in rctx.violations {
                ctx.violations.push(viol);
            }
        }
    }

    if tier == Tier::Thorough && def.shards > 1 {
        let n = def.shards.min(std::thread::available_parallelism().map(|n| n.get() as u32).unwrap_or(4));
        let exe = std::env::current_exe().unwrap();
        let dir = std::path::Path::new(&engine::verif_dir()).join("target").join("shards");
        let _ = std::fs::create_dir_all(&dir);
        let mut kids = Vec::new();
        for si in 0..n {
            let outp = dir.join(format!("{}-{}.json", def.id, si));
            let _ = std::fs::remove_file(&outp);
            let infl = inflight_path(def.id, &format!("shard{si}"));
            let _ = std::fs::remove_file(&infl);
            let child = Command::new(&exe)
                .arg(def.id)
                .arg("thorough")
                .arg("--shard")
                .arg(format!("{si}/{n}"))
                .arg("--out")
                .arg(&outp)
                .env("VERIF_SEED", seed.to_string())
                .env("VVERIF_CHILD", "1")
                .env("VVERIF_INFLIGHT", &infl)
                .spawn()
                .expect("spawn shard");
            kids.push((child, outp, infl));
        }
        // the engine-level metadata (rule, assumptions) come from a zero-work description pass
        describe_only(def, &mut ctx);
        for (mut child, outp, infl) in kids {
            let st = child.wait().expect("wait shard");
            match std::fs::read_to_string(&outp).ok().and_then(|t| serde_json::from_str::<serde_json::Value>(&t).ok()) {
                Some(v) => ctx.merge_partial(&v),
                None => {
                    if def.isolate && st.code().is_none() {
                        report_crash(def.id, &infl, &format!("{st}"), &mut ctx);
                    } else {
                        ctx.note_inconclusive(format!("shard {} produced no result (status {st})", outp.display()));
                    }
                }
            }
            let _ = std::fs::remove_file(&outp);
            let _ = std::fs::remove_file(&infl);
        }
        ctx.extra.insert("shards".into(), serde_json::json!(n));
    } else {
        (def.run)(&mut ctx);
    }
    std::process::exit(ctx.finish());
}

fn inflight_path(id: &str, tag: &str) -> String {
    let dir = std::path::Path::new(&engine::verif_dir()).join("target").join("inflight");
    let _ = std::fs::create_dir_all(&dir);
    dir.join(format!("{id}-{}-{tag}.bin", std::process::id())).display().to_string()
}

/// turn the in-flight record of a crashed worker into a violation with a replay file
fn report_crash(id: &str, infl: &str, status: &str, ctx: &mut Ctx) {
    match engine::Inflight::read_file(infl).and_then(|b| serde_json::from_slice::<serde_json::Value>(&b).ok()) {
        Some(v) => {
            let check = v["check"].as_str().unwrap_or("?").to_string();
            ctx.evals(v["evaluations"].as_u64().unwrap_or(0));
            ctx.violation(&check, format!("process crashed ({status}) while executing this case"), &v["case"]);
        }
        None => ctx.note_inconclusive(format!("{id}: worker died ({status}) before recording a case")),
    }
}

/// Supervising parent for crash-isolated properties: a crash (signal) of the worker is a violation.
fn supervise(def: &props::PropDef, args: &[String], tier: Tier, seed: u64, is_replay: bool) -> i32 {
    let infl = inflight_path(def.id, "main");
    let _ = std::fs::remove_file(&infl);
    let exe = std::env::current_exe().unwrap();
    let st = Command::new(&exe)
        .args(args)
        .env("VVERIF_CHILD", "1")
        .env("VVERIF_INFLIGHT", &infl)
        .status()
        .expect("spawn worker");
    let rc = match st.code() {
        Some(c @ 0..=2) => c,
        Some(c) => {
            // e.g. 101: a panic on the harness's own main thread -- a harness defect, not a finding
            eprintln!("INCONCLUSIVE: worker exited with status {c} (harness error; rerun with VERIF_PANIC_VERBOSE=1 VVERIF_CHILD=1)");
            2
        }
        None => {
            let mut ctx = Ctx::new(def.id, tier, seed, def.level);
            describe_only(def, &mut ctx);
            report_crash(def.id, &infl, &format!("{st}"), &mut ctx);
            if is_replay {
                if ctx.violations.is_empty() { 2 } else { 1 }
            } else {
                ctx.finish()
            }
        }
    };
    let _ = std::fs::remove_file(&infl);
    rc
}

/// run the property with a replay filter that matches nothing: fills rule/assumptions only
fn describe_only(def: &props::PropDef, ctx: &mut Ctx) {
    let mut d = Ctx::new(def.id, ctx.tier, ctx.seed, def.level);
    d.replay = Some(("\u{0}describe".into(), serde_json::Value::Null));
    (def.run)(&mut d);
    ctx.rule = d.rule;
    ctx.assumptions = d.assumptions;
    ctx.exhaustive = d.exhaustive;
    for (k, v) in d.extra {
        ctx.extra.entry(k).or_insert(v);
    }
}

fn install_panic_hook() {
    let default = std::panic::take_hook();
    std::panic::set_hook(Box::new(move |info| {
        engine_panic::record(info);
        if std::env::var("VERIF_PANIC_VERBOSE").is_ok() {
            default(info);
        }
    }));
}

