//! Hold-point controller: the harness owns the schedule at the instrumented points.
//!
//! The library (feature verif-hooks) calls `verif::hold(name)` at named points; the controller
//! registered here parks the arriving thread when the point is armed for it and resumes it when
//! the scenario releases it.  Every arrival and every harness mark is stamped on one logical clock.

use std::collections::HashMap;
use std::sync::{Arc, Condvar, Mutex};
use std::time::{Duration, Instant};

#[derive(Clone, Debug)]
pub struct Parked {
    pub id: u64,
    pub name: &'static str,
    pub thread: String,
    pub tid: i32,
}

#[derive(Default)]
struct State {
    /// point name -> thread-name prefix that parks there ("" = any thread)
    armed: HashMap<&'static str, String>,
    parked: Vec<Parked>,
    released: Vec<u64>,
    next_id: u64,
    clock: u64,
    history: Vec<(u64, String, String)>,
    release_everything: bool,
}

pub struct Sched {
    st: Mutex<State>,
    cv: Condvar,
}

impl Sched {
    /// create a controller and register it with the library
    pub fn install() -> Arc<Sched> {
        let s = Arc::new(Sched { st: Mutex::new(State::default()), cv: Condvar::new() });
        let s2 = s.clone();
        vhost::vhost_user::verif::set_controller(Some(Arc::new(move |name| s2.arrive(name))));
        s
    }

    pub fn uninstall(&self) {
        vhost::vhost_user::verif::set_controller(None);
        let mut st = self.st.lock().unwrap();
        st.armed.clear();
        st.release_everything = true;
        self.cv.notify_all();
    }

    fn arrive(&self, name: &'static str) {
        let thread = std::thread::current().name().unwrap_or("").to_string();
        let tid = unsafe { libc::gettid() };
        let mut st = self.st.lock().unwrap();
        st.clock += 1;
        let c = st.clock;
        st.history.push((c, name.to_string(), thread.clone()));
        let parks = match st.armed.get(name) {
            Some(prefix) => thread.starts_with(prefix.as_str()),
            None => false,
        };
        if !parks || st.release_everything {
            return;
        }
        st.next_id += 1;
        let id = st.next_id;
        st.parked.push(Parked { id, name, thread, tid });
        self.cv.notify_all();
        while !st.released.contains(&id) && !st.release_everything {
            st = self.cv.wait(st).unwrap();
        }
        st.parked.retain(|p| p.id != id);
        st.released.retain(|r| *r != id);
        st.clock += 1;
        let c = st.clock;
        st.history.push((c, format!("resume:{name}"), std::thread::current().name().unwrap_or("").to_string()));
        self.cv.notify_all();
    }

    /// arrivals at `name` by threads whose name starts with `thread_prefix` park from now on
    pub fn arm(&self, name: &'static str, thread_prefix: &str) {
        self.st.lock().unwrap().armed.insert(name, thread_prefix.to_string());
    }
    pub fn disarm(&self, name: &'static str) {
        self.st.lock().unwrap().armed.remove(name);
    }
    pub fn disarm_all(&self) {
        self.st.lock().unwrap().armed.clear();
    }

    /// wait until a thread satisfying `pred` is parked
    pub fn wait_parked(&self, pred: impl Fn(&Parked) -> bool, timeout: Duration) -> Option<Parked> {
        let deadline = Instant::now() + timeout;
        let mut st = self.st.lock().unwrap();
        loop {
            if let Some(p) = st.parked.iter().find(|p| pred(p)) {
                return Some(p.clone());
            }
            let now = Instant::now();
            if now >= deadline {
                return None;
            }
            let (g, _) = self.cv.wait_timeout(st, (deadline - now).min(Duration::from_millis(20))).unwrap();
            st = g;
        }
    }

    pub fn parked(&self) -> Vec<Parked> {
        self.st.lock().unwrap().parked.clone()
    }

    /// resume one parked thread and wait until it has left the hold point
    pub fn release(&self, id: u64) {
        let mut st = self.st.lock().unwrap();
        st.released.push(id);
        self.cv.notify_all();
        let deadline = Instant::now() + Duration::from_secs(5);
        while st.parked.iter().any(|p| p.id == id) && Instant::now() < deadline {
            let (g, _) = self.cv.wait_timeout(st, Duration::from_millis(20)).unwrap();
            st = g;
        }
    }

    pub fn release_all(&self) {
        let ids: Vec<u64> = self.parked().iter().map(|p| p.id).collect();
        for id in ids {
            self.release(id);
        }
    }

    /// stamp a harness-side event on the logical clock
    pub fn mark(&self, label: &str) -> u64 {
        let mut st = self.st.lock().unwrap();
        st.clock += 1;
        let c = st.clock;
        st.history.push((c, label.to_string(), "harness".into()));
        c
    }

    pub fn history(&self) -> Vec<(u64, String, String)> {
        self.st.lock().unwrap().history.clone()
    }
}

/// state letter of a thread of this process ('S' sleeping, 'R' running, ...)
pub fn thread_state(tid: i32) -> Option<char> {
    let stat = std::fs::read_to_string(format!("/proc/self/task/{tid}/stat")).ok()?;
    let b = stat.rfind(')')?;
    stat[b + 1..].trim_start().chars().next()
}

/// Is the thread asleep over `samples` consecutive looks?  (quiescence probe, not a deadline)
pub fn asleep(tid: i32, samples: u32) -> bool {
    for _ in 0..samples {
        match thread_state(tid) {
            Some('S') | Some('D') => {}
            _ => return false,
        }
        std::thread::sleep(Duration::from_micros(300));
    }
    true
}
