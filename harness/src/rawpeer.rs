//! Raw socket peer: sendmsg/recvmsg with SCM_RIGHTS written against libc directly (independent of
//! vmm-sys-util's ScmSocket used by the library), segmenting writes, draining reads.

use std::io;
use std::os::unix::io::{AsRawFd, FromRawFd, OwnedFd, RawFd};
use std::os::unix::net::UnixStream;

/// send `data` in one sendmsg with `fds` attached as SCM_RIGHTS; returns bytes sent
pub fn send_with_fds(sock: RawFd, data: &[u8], fds: &[RawFd]) -> io::Result<usize> {
    let mut iov = libc::iovec { iov_base: data.as_ptr() as *mut libc::c_void, iov_len: data.len() };
    let mut msg: libc::msghdr = unsafe { std::mem::zeroed() };
    msg.msg_iov = &mut iov;
    msg.msg_iovlen = 1;
    let space = unsafe { libc::CMSG_SPACE((fds.len() * 4) as u32) } as usize;
    let mut cbuf = vec![0u64; (space + 7) / 8 + 1];
    if !fds.is_empty() {
        msg.msg_control = cbuf.as_mut_ptr() as *mut libc::c_void;
        msg.msg_controllen = space;
        unsafe {
            let c = libc::CMSG_FIRSTHDR(&msg);
            (*c).cmsg_level = libc::SOL_SOCKET;
            (*c).cmsg_type = libc::SCM_RIGHTS;
            (*c).cmsg_len = libc::CMSG_LEN((fds.len() * 4) as u32) as usize;
            std::ptr::copy_nonoverlapping(fds.as_ptr() as *const u8, libc::CMSG_DATA(c), fds.len() * 4);
        }
    }
    loop {
        let n = unsafe { libc::sendmsg(sock, &msg, libc::MSG_NOSIGNAL) };
        if n < 0 {
            let e = io::Error::last_os_error();
            if e.kind() == io::ErrorKind::Interrupted {
                continue;
            }
            return Err(e);
        }
        return Ok(n as usize);
    }
}

/// write all of `data`; `fds` ride on the first byte
pub fn send_all(sock: RawFd, data: &[u8], fds: &[RawFd]) -> io::Result<()> {
    let mut off = 0;
    let mut first = true;
    if data.is_empty() {
        return Ok(());
    }
    while off < data.len() {
        let n = send_with_fds(sock, &data[off..], if first { fds } else { &[] })?;
        first = false;
        if n == 0 {
            return Err(io::Error::new(io::ErrorKind::WriteZero, "sendmsg wrote 0"));
        }
        off += n;
    }
    Ok(())
}

/// one recvmsg of at most `max` bytes with room for `maxfds` descriptors.
/// returns (bytes, received fds, MSG_CTRUNC seen)
pub fn recv_once(sock: RawFd, max: usize, maxfds: usize, flags: i32) -> io::Result<(Vec<u8>, Vec<OwnedFd>, bool)> {
    let mut buf = vec![0u8; max];
    let mut iov = libc::iovec { iov_base: buf.as_mut_ptr() as *mut libc::c_void, iov_len: max };
    let mut msg: libc::msghdr = unsafe { std::mem::zeroed() };
    msg.msg_iov = &mut iov;
    msg.msg_iovlen = 1;
    let space = unsafe { libc::CMSG_SPACE((maxfds * 4) as u32) } as usize;
    let mut cbuf = vec![0u64; (space + 7) / 8 + 1];
    if maxfds > 0 {
        msg.msg_control = cbuf.as_mut_ptr() as *mut libc::c_void;
        msg.msg_controllen = space;
    }
    let n = loop {
        let n = unsafe { libc::recvmsg(sock, &mut msg, flags | libc::MSG_CMSG_CLOEXEC) };
        if n < 0 {
            let e = io::Error::last_os_error();
            if e.kind() == io::ErrorKind::Interrupted {
                continue;
            }
            return Err(e);
        }
        break n as usize;
    };
    buf.truncate(n);
    let mut fds = Vec::new();
    unsafe {
        let mut c = libc::CMSG_FIRSTHDR(&msg);
        while !c.is_null() {
            if (*c).cmsg_level == libc::SOL_SOCKET && (*c).cmsg_type == libc::SCM_RIGHTS {
                let len = (*c).cmsg_len as usize - libc::CMSG_LEN(0) as usize;
                let cnt = len / 4;
                let p = libc::CMSG_DATA(c) as *const RawFd;
                for i in 0..cnt {
                    fds.push(OwnedFd::from_raw_fd(std::ptr::read_unaligned(p.add(i))));
                }
            }
            c = libc::CMSG_NXTHDR(&msg, c);
        }
    }
    Ok((buf, fds, msg.msg_flags & libc::MSG_CTRUNC != 0))
}

/// One received piece of the stream
pub struct Piece {
    pub bytes: Vec<u8>,
    pub fds: Vec<OwnedFd>,
}

/// Non-blocking drain of everything currently queued: reads the first byte alone (with room for
/// 64 descriptors), then up to `chunk` bytes at a time.  Every piece records the descriptors that
/// arrived with it, so "descriptors ride on byte 0 of a message only" can be judged.
pub fn drain(sock: RawFd, chunk: usize) -> io::Result<Vec<Piece>> {
    let mut out = Vec::new();
    let mut first = true;
    loop {
        let want = if first { 1 } else { chunk };
        match recv_once(sock, want, 64, libc::MSG_DONTWAIT) {
            Ok((b, fds, _)) => {
                if b.is_empty() {
                    return Ok(out); // EOF
                }
                first = false;
                out.push(Piece { bytes: b, fds });
            }
            Err(e) if e.kind() == io::ErrorKind::WouldBlock => return Ok(out),
            Err(e) => return Err(e),
        }
    }
}

/// drain, reading byte 0 of each *message* alone: uses the header's size field to find message
/// boundaries (12-byte header, size at offset 8).  Returns per message (bytes, fds on byte 0,
/// fds that arrived on any later byte).
pub struct RawMsg {
    pub bytes: Vec<u8>,
    pub fds_first: Vec<OwnedFd>,
    pub fds_later: usize,
}

pub fn drain_messages(sock: RawFd) -> io::Result<(Vec<RawMsg>, Vec<u8>)> {
    let mut msgs = Vec::new();
    loop {
        // byte 0
        let (b0, fds0, _) = match recv_once(sock, 1, 64, libc::MSG_DONTWAIT) {
            Ok(x) => x,
            Err(e) if e.kind() == io::ErrorKind::WouldBlock => return Ok((msgs, Vec::new())),
            Err(e) => return Err(e),
        };
        if b0.is_empty() {
            return Ok((msgs, Vec::new()));
        }
        let mut bytes = b0;
        let mut later = 0usize;
        let mut need = 12usize;
        let mut have_hdr = false;
        while bytes.len() < need {
            match recv_once(sock, need - bytes.len(), 64, libc::MSG_DONTWAIT) {
                Ok((b, fds, _)) => {
                    if b.is_empty() {
                        return Ok((msgs, bytes));
                    }
                    later += fds.len();
                    bytes.extend_from_slice(&b);
                }
                Err(e) if e.kind() == io::ErrorKind::WouldBlock => return Ok((msgs, bytes)),
                Err(e) => return Err(e),
            }
            if !have_hdr && bytes.len() >= 12 {
                have_hdr = true;
                let size = u32::from_le_bytes([bytes[8], bytes[9], bytes[10], bytes[11]]) as usize;
                need = 12 + size.min(1 << 20);
            }
        }
        msgs.push(RawMsg { bytes, fds_first: fds0, fds_later: later });
    }
}

pub fn pair() -> (UnixStream, UnixStream) {
    UnixStream::pair().expect("socketpair")
}

/// bytes queued for reading on `sock`
pub fn fionread(sock: RawFd) -> usize {
    let mut n: libc::c_int = 0;
    unsafe { libc::ioctl(sock, libc::FIONREAD, &mut n) };
    n.max(0) as usize
}

pub fn shutdown_wr(s: &UnixStream) {
    let _ = s.shutdown(std::net::Shutdown::Write);
}

pub fn raw(s: &impl AsRawFd) -> RawFd {
    s.as_raw_fd()
}
