//! Minimal raw vhost-user front end built on spec.rs (independent of the crate's Frontend):
//! sends spec-encoded requests, reads replies/acks with blocking reads bounded by SO_RCVTIMEO.

use std::io;
use std::os::unix::io::{AsRawFd, OwnedFd, RawFd};
use std::os::unix::net::UnixStream;
use std::time::Duration;

use crate::rawpeer;
use crate::spec::{self, Frame};

pub struct RawClient {
    pub sock: UnixStream,
}

#[derive(Debug)]
pub enum RcErr {
    Closed,
    Timeout,
    Io(String),
    Proto(String),
}

impl std::fmt::Display for RcErr {
    fn fmt(&self, f: &mut std::fmt::Formatter<'_>) -> std::fmt::Result {
        write!(f, "{self:?}")
    }
}

impl RawClient {
    pub fn new(sock: UnixStream) -> Self {
        // short slices: read_exact() adds them up to 20 s, but gives up at once when a library thread has panicked
        // (a daemon thread that died in a panic leaves the connection open and would never answer)
        let _ = sock.set_read_timeout(Some(Duration::from_millis(100)));
        RawClient { sock }
    }

    pub fn send(&self, code: u32, need_reply: bool, body: &[u8], fds: &[RawFd]) -> Result<(), RcErr> {
        let m = spec::request(code, need_reply, body);
        rawpeer::send_all(self.sock.as_raw_fd(), &m, fds).map_err(|e| match e.kind() {
            io::ErrorKind::BrokenPipe | io::ErrorKind::ConnectionReset => RcErr::Closed,
            _ => RcErr::Io(e.to_string()),
        })
    }

    fn read_exact(&self, n: usize, first: bool, fds: &mut Vec<OwnedFd>) -> Result<Vec<u8>, RcErr> {
        let mut out = Vec::with_capacity(n);
        let t0 = std::time::Instant::now();
        while out.len() < n {
            match rawpeer::recv_once(self.sock.as_raw_fd(), n - out.len(), if first && out.is_empty() { 64 } else { 8 }, 0) {
                Ok((b, f, _)) => {
                    if b.is_empty() {
                        return Err(RcErr::Closed);
                    }
                    fds.extend(f);
                    out.extend_from_slice(&b);
                }
                Err(e) if e.kind() == io::ErrorKind::WouldBlock || e.kind() == io::ErrorKind::TimedOut => {
                    // only a panic of a library thread (daemon request thread, vring worker) explains a missing answer
                    let panicked = crate::engine_panic::PANICS
                        .lock()
                        .map(|g| g.iter().any(|p| p.contains("[thread vverif-daemon") || p.contains("[thread vring_worker")))
                        .unwrap_or(false);
                    if panicked || t0.elapsed() > Duration::from_secs(20) {
                        return Err(RcErr::Timeout);
                    }
                }
                Err(e) if e.kind() == io::ErrorKind::ConnectionReset => return Err(RcErr::Closed),
                Err(e) => return Err(RcErr::Io(e.to_string())),
            }
        }
        Ok(out)
    }

    pub fn recv_frame(&self) -> Result<(Frame, Vec<OwnedFd>), RcErr> {
        let mut fds = Vec::new();
        let h = self.read_exact(12, true, &mut fds)?;
        let (code, flags, size) = spec::parse_hdr(&h);
        if size > (1 << 20) {
            return Err(RcErr::Proto(format!("reply declares {size} bytes")));
        }
        let body = if size > 0 { self.read_exact(size as usize, false, &mut fds)? } else { Vec::new() };
        Ok((Frame { code, flags, body }, fds))
    }

    /// request with NEED_REPLY, returns the acknowledgement value
    pub fn ack(&self, code: u32, body: &[u8], fds: &[RawFd]) -> Result<u64, RcErr> {
        self.send(code, true, body, fds)?;
        let (f, rf) = self.recv_frame()?;
        if f.code != code || f.flags != 5 || f.body.len() != 8 || !rf.is_empty() {
            return Err(RcErr::Proto(format!("expected ack for code {code}, got code {} flags {:#x} len {} fds {}", f.code, f.flags, f.body.len(), rf.len())));
        }
        Ok(spec::rd_u64(&f.body, 0))
    }

    /// reply-bearing request
    pub fn get(&self, code: u32, body: &[u8], fds: &[RawFd]) -> Result<(Vec<u8>, Vec<OwnedFd>), RcErr> {
        self.send(code, false, body, fds)?;
        let (f, rf) = self.recv_frame()?;
        if f.code != code || f.flags != 5 {
            return Err(RcErr::Proto(format!("expected reply for code {code}, got code {} flags {:#x}", f.code, f.flags)));
        }
        Ok((f.body, rf))
    }

    /// standard negotiation: returns (offered features, offered protocol features)
    pub fn negotiate(&self, ack_features: impl Fn(u64) -> u64, ack_pf: impl Fn(u64) -> u64) -> Result<(u64, u64), RcErr> {
        let (b, _) = self.get(spec::fe::GET_FEATURES, &[], &[])?;
        let feats = spec::rd_u64(&b, 0);
        let (b, _) = self.get(spec::fe::GET_PROTOCOL_FEATURES, &[], &[])?;
        let pf = spec::rd_u64(&b, 0);
        self.send(spec::fe::SET_PROTOCOL_FEATURES, false, &spec::b_u64(ack_pf(pf)), &[])?;
        self.send(spec::fe::SET_FEATURES, false, &spec::b_u64(ack_features(feats)), &[])?;
        Ok((feats, pf))
    }
}
