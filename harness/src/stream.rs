//! Grammar-aware byte-stream generator for the request servers (C05, C06, C09) and the
//! "message present in the stream" oracle: every handler invocation must correspond to a
//! well-formed message that literally occurs in the bytes the peer sent, at increasing offsets.

use proptest::prelude::*;
use serde::{Deserialize, Serialize};

use crate::engine::LATTICE64;
use crate::gen::wellformed_body;
use crate::rec_backend::Call;
use crate::refpred;
use crate::spec::{self, fe};

#[derive(Serialize, Deserialize, Debug, Clone, Hash, PartialEq, Eq)]
pub enum Mutation {
    None,
    /// size field := body length + delta (body bytes unchanged)
    SizeDelta(i32),
    SizeSet(u32),
    FlagsXor(u32),
    CodeSet(u32),
    /// overwrite `width` bytes of the body at `off` (clipped) with a lattice value
    BodyField { off: u16, width: u8, val: u64 },
    /// keep only the first n body bytes, size field adjusted
    TruncateFramed(u16),
    /// keep only the first n body bytes, size field NOT adjusted
    TruncateRaw(u16),
    /// append bytes to the body, size field adjusted
    ExtendFramed(Vec<u8>),
    /// relational boundary: word[b + k] := limit - word[b] + delta (words of `width` bytes; limit 2^(8*width) or 0x1000),
    /// i.e. a base placed so that base + length ends exactly at / one off the wrap point or the config-space end
    SumEdge { b: u16, k: i8, width: u8, limit: u8, delta: i8 },
    /// add a small delta to one aligned word of the body (alignment / off-by-few rules: ring addresses 16/2/4, sizes, indexes)
    WordAdd { idx: u16, width: u8, delta: i8 },
}

#[derive(Serialize, Deserialize, Debug, Clone, Hash, PartialEq, Eq)]
pub struct ChunkSpec {
    pub code: u32,
    pub need_reply: bool,
    pub body: Vec<u8>,
    /// descriptors the well-formed message would carry
    pub nfds: usize,
    pub mutation: Mutation,
    /// Some(n): attach n descriptors instead of the prescribed number
    pub nfds_override: Option<u8>,
    /// byte offset (index into the chunk, monotone-mapped) at which the descriptors ride; 0 = first byte
    pub fd_at: u16,
    /// random bytes after the message
    pub tail: Vec<u8>,
}

impl ChunkSpec {
    pub fn pristine(&self) -> bool {
        self.mutation == Mutation::None && self.nfds_override.is_none() && self.fd_at == 0 && self.tail.is_empty()
    }
    pub fn bytes(&self) -> Vec<u8> {
        let mut code = self.code;
        let mut flags = spec::F_VERSION | if self.need_reply { spec::F_NEED_REPLY } else { 0 };
        let mut body = self.body.clone();
        let mut size: Option<u32> = None;
        match &self.mutation {
            Mutation::None => {}
            Mutation::SizeDelta(d) => size = Some((body.len() as i64 + *d as i64).max(0) as u32),
            Mutation::SizeSet(s) => size = Some(*s),
            Mutation::FlagsXor(x) => flags ^= *x,
            Mutation::CodeSet(c) => code = *c,
            Mutation::BodyField { off, width, val } => {
                if !body.is_empty() {
                    let off = (*off as usize * body.len()) >> 16;
                    let w = (*width as usize).min(body.len() - off);
                    body[off..off + w].copy_from_slice(&val.to_ne_bytes()[..w]);
                }
            }
            Mutation::TruncateFramed(n) => {
                let n = (*n as usize * (body.len() + 1)) >> 16;
                body.truncate(n);
            }
            Mutation::TruncateRaw(n) => {
                let n = (*n as usize * (body.len() + 1)) >> 16;
                size = Some(body.len() as u32);
                body.truncate(n);
            }
            Mutation::ExtendFramed(x) => body.extend_from_slice(x),
            Mutation::WordAdd { idx, width, delta } => {
                let w = if *width == 4 { 4usize } else { 8 };
                let n = body.len() / w;
                if n >= 1 {
                    let i = (*idx as usize * n) >> 16;
                    let mut x = [0u8; 8];
                    x[..w].copy_from_slice(&body[i * w..i * w + w]);
                    let v = u64::from_ne_bytes(x).wrapping_add(*delta as i64 as u64);
                    body[i * w..i * w + w].copy_from_slice(&v.to_ne_bytes()[..w]);
                }
            }
            Mutation::SumEdge { b, k, width, limit, delta } => {
                let w = if *width == 4 { 4usize } else { 8 };
                let n = body.len() / w;
                if n >= 2 {
                    let bi = (*b as usize * n) >> 16;
                    let ai = bi as i64 + *k as i64;
                    if ai >= 0 && (ai as usize) < n && ai as usize != bi {
                        let rd = |i: usize| -> u64 {
                            let mut x = [0u8; 8];
                            x[..w].copy_from_slice(&body[i * w..i * w + w]);
                            u64::from_ne_bytes(x)
                        };
                        let len = rd(bi);
                        let lim: u64 = if *limit == 1 { 0x1000 } else if w == 4 { 1 << 32 } else { 0 };
                        let v = lim.wrapping_sub(len).wrapping_add(*delta as i64 as u64);
                        let ai = ai as usize;
                        body[ai * w..ai * w + w].copy_from_slice(&v.to_ne_bytes()[..w]);
                    }
                }
            }
        }
        let size = size.unwrap_or(body.len() as u32);
        let mut v = spec::hdr(code, flags, size).to_vec();
        v.extend_from_slice(&body);
        v.extend_from_slice(&self.tail);
        v
    }
    pub fn nfds_sent(&self) -> usize {
        self.nfds_override.map(|n| n as usize).unwrap_or(self.nfds)
    }
}

pub fn mutation_strategy() -> impl Strategy<Value = Mutation> {
    let lat = (0..LATTICE64.len()).prop_map(|i| LATTICE64[i]);
    prop_oneof![
        6 => Just(Mutation::None),
        2 => prop_oneof![Just(-1i32), Just(1), Just(-8), Just(8), -64i32..64].prop_map(Mutation::SizeDelta),
        2 => prop_oneof![Just(0u32), Just(1), Just(4095), Just(4096), Just(4097), Just(u32::MAX), Just(0x8000_0000), any::<u32>()].prop_map(Mutation::SizeSet),
        2 => prop_oneof![(0u32..32).prop_map(|b| 1 << b), any::<u32>(), Just(1u32), Just(3), Just(4), Just(8)].prop_map(Mutation::FlagsXor),
        2 => prop_oneof![0u32..=48, any::<u32>()].prop_map(Mutation::CodeSet),
        4 => (any::<u16>(), prop_oneof![Just(1u8), Just(2), Just(4), Just(8)], prop_oneof![lat, any::<u64>()])
            .prop_map(|(off, width, val)| Mutation::BodyField { off, width, val }),
        1 => any::<u16>().prop_map(Mutation::TruncateFramed),
        1 => any::<u16>().prop_map(Mutation::TruncateRaw),
        1 => proptest::collection::vec(any::<u8>(), 1..40).prop_map(Mutation::ExtendFramed),
        3 => (any::<u16>(), prop_oneof![3 => Just(8u8), 1 => Just(4u8)], prop_oneof![Just(1i8), Just(2), Just(3), Just(4), Just(6), Just(8), Just(10), Just(12), Just(14), Just(-1), Just(-2), Just(-4)])
            .prop_map(|(idx, width, delta)| Mutation::WordAdd { idx, width, delta }),
        3 => (any::<u16>(), prop_oneof![Just(-1i8), Just(1), Just(2)], prop_oneof![3 => Just(8u8), 1 => Just(4u8)], prop_oneof![3 => Just(0u8), 1 => Just(1u8)], -1i8..=1)
            .prop_map(|(b, k, width, limit, delta)| Mutation::SumEdge { b, k, width, limit, delta }),
    ]
}

pub fn chunk_strategy() -> BoxedStrategy<ChunkSpec> {
    (1u32..=44)
        .prop_flat_map(|code| {
            (
                Just(code),
                any::<bool>(),
                wellformed_body(code),
                mutation_strategy(),
                prop_oneof![6 => Just(None), 1 => (0u8..=3).prop_map(Some), 1 => (30u8..=40).prop_map(Some), 1 => (0u8..=40).prop_map(Some)],
                prop_oneof![4 => Just(0u16), 1 => any::<u16>()],
                prop_oneof![5 => Just(Vec::new()), 1 => proptest::collection::vec(any::<u8>(), 1..30)],
            )
        })
        .prop_map(|(code, need_reply, (body, nfds), mutation, nfds_override, fd_at, tail)| ChunkSpec {
            code,
            need_reply,
            body,
            nfds,
            mutation,
            nfds_override,
            fd_at,
            tail,
        })
        .boxed()
}

/// a negotiation prefix that opens gates: (acked virtio features, acked protocol features)
#[derive(Serialize, Deserialize, Debug, Clone, Hash, PartialEq, Eq)]
pub struct Negotiation {
    pub dev_features: u64,
    pub dev_pf: u64,
    pub ack_vf: Option<u64>,
    pub ack_pf: Option<u64>,
}

pub fn negotiation_strategy() -> impl Strategy<Value = Negotiation> {
    (
        prop_oneof![2 => Just(spec::VIRTIO_F_PROTOCOL_FEATURES | 0x1_2000_0003), 1 => Just(0x1_2000_0003u64)],
        prop_oneof![3 => Just(0x3f_ffffu64), 1 => any::<u64>().prop_map(|v| v & 0x3f_ffff)],
        prop_oneof![3 => Just(Some(spec::VIRTIO_F_PROTOCOL_FEATURES | 3)), 1 => Just(Some(3u64)), 1 => Just(None)],
        prop_oneof![3 => Just(Some(0x3f_ffffu64)), 1 => Just(Some(0x3f_ffffu64 & !8)), 1 => any::<u64>().prop_map(|v| Some(v & 0x3f_ffff)), 1 => Just(None)],
    )
        .prop_map(|(dev_features, dev_pf, ack_vf, ack_pf)| Negotiation { dev_features, dev_pf, ack_vf, ack_pf })
}

impl Negotiation {
    /// the well-formed prefix messages (GET_FEATURES, SET_FEATURES, GET/SET_PROTOCOL_FEATURES)
    pub fn prefix_bytes(&self) -> Vec<Vec<u8>> {
        let mut v = vec![spec::request(fe::GET_FEATURES, false, &[])];
        if let Some(f) = self.ack_vf {
            v.push(spec::request(fe::SET_FEATURES, false, &spec::b_u64(f)));
        }
        if let Some(p) = self.ack_pf {
            v.push(spec::request(fe::GET_PROTOCOL_FEATURES, false, &[]));
            v.push(spec::request(fe::SET_PROTOCOL_FEATURES, false, &spec::b_u64(p)));
        }
        v
    }
}

// ------------------------------------------------------------------ the oracle

fn hdr_ok_request(b: &[u8], p: usize, code: u32) -> Option<usize> {
    if p + 12 > b.len() {
        return None;
    }
    let (c, flags, size) = spec::parse_hdr(&b[p..]);
    // (a set REPLY bit on a request is not among the rules C05 lists: not judged here)
    if c != code || flags & 3 != 1 || flags & !0xf != 0 || size > 4096 {
        return None;
    }
    if p + 12 + size as usize > b.len() {
        return None;
    }
    Some(size as usize)
}

fn ok(v: refpred::Verdict) -> bool {
    v != Some(false)
}

/// Does a protocol-valid message encoding exactly this handler invocation start at offset `p`?
pub fn call_matches_at(b: &[u8], p: usize, call: &Call) -> bool {
    let exact = |code: u32, body: &[u8]| -> bool {
        matches!(hdr_ok_request(b, p, code), Some(sz) if sz == body.len() && &b[p + 12..p + 12 + sz] == body)
    };
    let any_body = |code: u32| -> bool { hdr_ok_request(b, p, code).is_some() };
    match call {
        Call::SetOwner => exact(3, &[]),
        Call::ResetOwner => exact(4, &[]),
        Call::ResetDevice => exact(34, &[]),
        Call::GetFeatures => exact(1, &[]),
        Call::SetFeatures(v) => exact(2, &spec::b_u64(*v)),
        Call::SetMemTable(regions, files) => {
            !regions.is_empty()
                && regions.len() <= 32
                && files.len() == regions.len()
                && regions.iter().all(|r| ok(refpred::region(r[0], r[1], r[2], r[3])))
                && exact(5, &spec::b_mem_table(regions))
        }
        Call::SetVringNum(i, n) => exact(8, &spec::b_vring_state(*i, *n)),
        Call::SetVringAddr { index, flags, desc, used, avail, log } => {
            ok(refpred::vring_addr(*flags, *desc, *used, *avail))
                && exact(9, &spec::b_vring_addr(*index, *flags, *desc, *used, *avail, *log))
        }
        Call::SetVringBase(i, n) => exact(10, &spec::b_vring_state(*i, *n)),
        Call::GetVringBase(i) => match hdr_ok_request(b, p, 11) {
            Some(8) => spec::rd_u32(b, p + 12) == *i,
            _ => false,
        },
        Call::SetVringKick(i, f) | Call::SetVringCall(i, f) | Call::SetVringErr(i, f) => {
            let code = match call {
                Call::SetVringKick(..) => 12,
                Call::SetVringCall(..) => 13,
                _ => 14,
            };
            match hdr_ok_request(b, p, code) {
                Some(8) => {
                    let v = spec::rd_u64(b, p + 12);
                    (v & 0xff) as u8 == *i && ((v & 0x100) != 0) == f.is_none()
                }
                _ => false,
            }
        }
        Call::GetProtocolFeatures => exact(15, &[]),
        Call::SetProtocolFeatures(v) => exact(16, &spec::b_u64(*v)),
        Call::GetQueueNum => exact(17, &[]),
        Call::SetVringEnable(i, en) => exact(18, &spec::b_vring_state(*i, *en as u32)),
        Call::GetConfig(off, size, flags) => {
            ok(refpred::config(*off, *size, *flags))
                && matches!(hdr_ok_request(b, p, 24), Some(sz) if sz == 12 + *size as usize
                    && b[p + 12..p + 24] == spec::b_config(*off, *size, *flags, &[])[..])
        }
        Call::SetConfig(off, buf, flags) => {
            ok(refpred::config(*off, buf.len() as u32, *flags)) && exact(25, &spec::b_config(*off, buf.len() as u32, *flags, buf))
        }
        Call::SetBackendReqFd(_) => any_body(21),
        Call::SetGpuSocket(_) => any_body(33),
        Call::GetSharedObject(u) => ok(refpred::shared_msg(u)) && exact(41, u),
        Call::GetInflightFd(i) | Call::SetInflightFd(i, _) => {
            let code = if matches!(call, Call::GetInflightFd(_)) { 31 } else { 32 };
            ok(refpred::inflight(i[0], i[1], i[2] as u16, i[3] as u16))
                && matches!(hdr_ok_request(b, p, code), Some(24)
                    if b[p + 12..p + 32] == spec::b_inflight(i[0], i[1], i[2] as u16, i[3] as u16)[..20])
        }
        Call::GetMaxMemSlots => exact(36, &[]),
        Call::AddMemRegion(r, _) | Call::RemoveMemRegion(r) => {
            let code = if matches!(call, Call::AddMemRegion(..)) { 37 } else { 38 };
            ok(refpred::region(r[0], r[1], r[2], r[3]))
                && matches!(hdr_ok_request(b, p, code), Some(40) if b[p + 20..p + 52] == spec::b_region(r)[..])
        }
        Call::SetDeviceStateFd(d, ph, _) => ok(refpred::transfer_state(*d, *ph)) && exact(42, &spec::b_xfer(*d, *ph)),
        Call::CheckDeviceState => any_body(43),
        Call::GetShmemConfig => any_body(44),
        Call::PostcopyAdvise => any_body(28),
        Call::PostcopyListen => any_body(29),
        Call::PostcopyEnd => any_body(30),
        Call::SetLogBase(size, off, _) => ok(refpred::log(*size, *off)) && exact(6, &spec::b_log(*size, *off)),
    }
}

/// Check that the handler log is explained by valid messages at increasing offsets of `stream`.
/// Returns Err(index of the first unexplained call).
pub fn explain_calls(stream: &[u8], log: &[Call]) -> Result<Vec<usize>, usize> {
    explain_calls_fds(stream, log, &[])
}

/// Descriptors a message whose header occupies [p, p+12) receives: those attached to a byte of the header (a read of
/// the header that starts in a descriptor-less segment continues into the next one and gets its descriptors).
/// None = ambiguous (two groups inside one header, or more than the 32 the receiver can take): not judged.
pub fn carried_fds(fd_groups: &[(usize, usize)], p: usize) -> Option<usize> {
    let inside: Vec<usize> = fd_groups.iter().filter(|(q, n)| *q >= p && *q < p + 12 && *n > 0).map(|(_, n)| *n).collect();
    match inside.len() {
        0 => Some(0),
        1 if inside[0] <= 32 => Some(inside[0]),
        _ => None,
    }
}

/// number of descriptors the request behind a handler invocation prescribes
pub fn prescribed_fds(call: &Call) -> usize {
    match call {
        Call::SetMemTable(r, _) => r.len(),
        Call::SetVringKick(_, f) | Call::SetVringCall(_, f) | Call::SetVringErr(_, f) => f.is_some() as usize,
        Call::SetBackendReqFd(_) | Call::SetGpuSocket(_) | Call::SetInflightFd(..) | Call::AddMemRegion(..) | Call::SetDeviceStateFd(..) | Call::SetLogBase(..) => 1,
        _ => 0,
    }
}

/// Every handler invocation must be explained, at increasing offsets, by a protocol-valid message literally present in
/// the stream that carries exactly the descriptors its request prescribes (`fd_groups`: (absolute offset, count) of
/// every descriptor group sent; empty = descriptor counts are not judged).
pub fn explain_calls_fds(stream: &[u8], log: &[Call], fd_groups: &[(usize, usize)]) -> Result<Vec<usize>, usize> {
    let mut from = 0usize;
    let mut pos = Vec::new();
    for (i, c) in log.iter().enumerate() {
        let mut found = None;
        let mut p = from;
        while p + 12 <= stream.len() {
            if call_matches_at(stream, p, c) && (fd_groups.is_empty() || carried_fds(fd_groups, p).map(|n| n == prescribed_fds(c)).unwrap_or(true)) {
                found = Some(p);
                break;
            }
            p += 1;
        }
        match found {
            Some(p) => {
                pos.push(p);
                from = p + 12;
            }
            None => return Err(i),
        }
    }
    Ok(pos)
}
pub fn prescribed_files(call: &Call) -> Option<usize> {
    match call {
        Call::SetMemTable(r, _) => Some(r.len()),
        _ => None,
    }
}
