//! Descriptor identity and /proc/self/fd snapshots.

use std::collections::BTreeMap;
use std::fs::File;
use std::os::unix::io::{AsRawFd, FromRawFd, OwnedFd, RawFd};

/// Identity of the open file behind a descriptor: (st_dev, st_ino, eventfd-id).  memfds, pipes and
/// sockets have one inode per object; eventfds share the anon inode and are told apart by the
/// `eventfd-id` line of fdinfo.  (kcmp(2) is not available in this sandbox.)
#[derive(Clone, Copy, Debug, PartialEq, Eq, Hash, PartialOrd, Ord, serde::Serialize, serde::Deserialize)]
pub struct FileId {
    pub dev: u64,
    pub ino: u64,
    pub evid: i64,
}

pub fn file_id(fd: RawFd) -> Option<FileId> {
    let mut st: libc::stat = unsafe { std::mem::zeroed() };
    if unsafe { libc::fstat(fd, &mut st) } != 0 {
        return None;
    }
    let mut evid = -1;
    if let Ok(info) = std::fs::read_to_string(format!("/proc/self/fdinfo/{fd}")) {
        for l in info.lines() {
            if let Some(v) = l.strip_prefix("eventfd-id:") {
                evid = v.trim().parse().unwrap_or(-1);
            }
        }
    }
    Some(FileId { dev: st.st_dev, ino: st.st_ino, evid })
}

/// snapshot fd number -> identity of every open descriptor of the process
pub fn snapshot() -> BTreeMap<RawFd, FileId> {
    let mut m = BTreeMap::new();
    let dir = match std::fs::read_dir("/proc/self/fd") {
        Ok(d) => d,
        Err(_) => return m,
    };
    let mut nums = Vec::new();
    for e in dir.flatten() {
        if let Some(n) = e.file_name().to_str().and_then(|s| s.parse::<RawFd>().ok()) {
            nums.push(n);
        }
    }
    for n in nums {
        if let Some(id) = file_id(n) {
            m.insert(n, id);
        }
    }
    m
}

/// number of open descriptors (cheap: no fstat)
pub fn count_open() -> usize {
    std::fs::read_dir("/proc/self/fd").map(|d| d.count().saturating_sub(1)).unwrap_or(0)
}

/// how many open descriptors of the process refer to `id`
pub fn count_id(id: &FileId) -> usize {
    snapshot().values().filter(|v| *v == id).count()
}

#[derive(Clone, Copy, Debug, PartialEq, Eq, Hash, serde::Serialize, serde::Deserialize)]
pub enum FdKind {
    Memfd,
    Eventfd,
    Pipe,
    Socket,
    DevNull,
}

pub const FD_KINDS: &[FdKind] = &[FdKind::Memfd, FdKind::Eventfd, FdKind::Pipe, FdKind::Socket, FdKind::DevNull];

/// create a fresh descriptor of the given kind (extra ends are closed)
pub fn make_fd(kind: FdKind) -> OwnedFd {
    unsafe {
        match kind {
            FdKind::Memfd => {
                let fd = libc::memfd_create(b"vverif\0".as_ptr() as *const libc::c_char, libc::MFD_CLOEXEC);
                assert!(fd >= 0, "memfd_create");
                OwnedFd::from_raw_fd(fd)
            }
            FdKind::Eventfd => {
                let fd = libc::eventfd(0, libc::EFD_CLOEXEC | libc::EFD_NONBLOCK);
                assert!(fd >= 0, "eventfd");
                OwnedFd::from_raw_fd(fd)
            }
            FdKind::Pipe => {
                let mut p = [0 as RawFd; 2];
                assert!(libc::pipe2(p.as_mut_ptr(), libc::O_CLOEXEC) == 0, "pipe2");
                libc::close(p[1]);
                OwnedFd::from_raw_fd(p[0])
            }
            FdKind::Socket => {
                let mut p = [0 as RawFd; 2];
                assert!(
                    libc::socketpair(libc::AF_UNIX, libc::SOCK_STREAM | libc::SOCK_CLOEXEC, 0, p.as_mut_ptr()) == 0,
                    "socketpair"
                );
                libc::close(p[1]);
                OwnedFd::from_raw_fd(p[0])
            }
            FdKind::DevNull => {
                let f = File::open("/dev/null").expect("open /dev/null");
                let fd = libc::dup(f.as_raw_fd());
                assert!(fd >= 0);
                libc::fcntl(fd, libc::F_SETFD, libc::FD_CLOEXEC);
                OwnedFd::from_raw_fd(fd)
            }
        }
    }
}

/// memfd of `len` bytes
pub fn memfd(len: u64) -> File {
    let fd = make_fd(FdKind::Memfd);
    let f = File::from(fd);
    f.set_len(len).expect("ftruncate memfd");
    f
}

pub fn is_open(fd: RawFd) -> bool {
    unsafe { libc::fcntl(fd, libc::F_GETFD) >= 0 }
}
