//! The front-end API as data: every public `Frontend` operation with generated arguments, how to
//! perform it, its specification encoding on the wire, the reply a conforming back end sends, and
//! which calls the API must reject locally.  Shared by C01, C02, C03, C06, C07 and C09.

use std::fs::File;
use std::os::unix::io::{AsRawFd, FromRawFd, OwnedFd, RawFd};

use proptest::prelude::*;
use proptest::strategy::BoxedStrategy;
use serde::{Deserialize, Serialize};
use vhost::vhost_user::message::*;
use vhost::vhost_user::{Frontend, VhostUserFrontend};
use vhost::{VhostBackend, VhostUserDirtyLogRegion, VhostUserMemoryRegionInfo, VringConfigData};
use vmm_sys_util::eventfd::EventFd;

use crate::engine::{lat16, lat32, lat64};
use crate::fdtrack::{file_id, make_fd, FdKind, FileId};
use crate::gen::{config_window, valid_region, valid_uuid};
use crate::spec::{self, fe, pf};

#[derive(Serialize, Deserialize, Debug, Clone, Hash, PartialEq, Eq)]
pub struct Reg {
    pub f: [u64; 4], // gpa, size, ua, off
    pub kind: FdKind,
    /// in a memory table: backed by the same descriptor as the previous region (one file split into several regions)
    #[serde(default)]
    pub share: bool,
}

#[derive(Serialize, Deserialize, Debug, Clone, Hash, PartialEq, Eq)]
pub enum FeOp {
    GetFeatures,
    SetFeatures(u64),
    SetOwner,
    ResetOwner,
    SetMemTable(Vec<Reg>),
    SetLogBase { base: u64, region: Option<(u64, u64)> },
    SetLogFd,
    SetVringNum(u32, u16),
    SetVringAddr { q: u32, flags: u32, desc: u64, used: u64, avail: u64, log: Option<u64> },
    SetVringBase(u32, u16),
    GetVringBase(u32),
    SetVringCall(u32),
    SetVringKick(u32),
    SetVringErr(u32),
    GetProtocolFeatures,
    SetProtocolFeatures(u64),
    GetQueueNum,
    ResetDevice,
    SetVringEnable(u32, bool),
    /// buf length = size + delta (delta != 0 is a caller mistake the API does not reject: payload goes out as given)
    GetConfig { off: u32, size: u32, flags: u32 },
    SetConfig { off: u32, flags: u32, buf: Vec<u8> },
    SetBackendReqFd,
    GetSharedObject([u8; 16]),
    GetInflightFd([u64; 2], u16, u16),
    SetInflightFd([u64; 2], u16, u16),
    GetMaxMemSlots,
    AddMemRegion(Reg),
    RemoveMemRegion(Reg),
    GetShmemConfig,
    SetDeviceStateFd(u32),
    CheckDeviceState,
    PostcopyAdvise,
    PostcopyListen,
    PostcopyEnd,
}

impl FeOp {
    pub fn name(&self) -> &'static str {
        match self {
            FeOp::GetFeatures => "get_features",
            FeOp::SetFeatures(_) => "set_features",
            FeOp::SetOwner => "set_owner",
            FeOp::ResetOwner => "reset_owner",
            FeOp::SetMemTable(_) => "set_mem_table",
            FeOp::SetLogBase { .. } => "set_log_base",
            FeOp::SetLogFd => "set_log_fd",
            FeOp::SetVringNum(..) => "set_vring_num",
            FeOp::SetVringAddr { .. } => "set_vring_addr",
            FeOp::SetVringBase(..) => "set_vring_base",
            FeOp::GetVringBase(_) => "get_vring_base",
            FeOp::SetVringCall(_) => "set_vring_call",
            FeOp::SetVringKick(_) => "set_vring_kick",
            FeOp::SetVringErr(_) => "set_vring_err",
            FeOp::GetProtocolFeatures => "get_protocol_features",
            FeOp::SetProtocolFeatures(_) => "set_protocol_features",
            FeOp::GetQueueNum => "get_queue_num",
            FeOp::ResetDevice => "reset_device",
            FeOp::SetVringEnable(..) => "set_vring_enable",
            FeOp::GetConfig { .. } => "get_config",
            FeOp::SetConfig { .. } => "set_config",
            FeOp::SetBackendReqFd => "set_backend_req_fd",
            FeOp::GetSharedObject(_) => "get_shared_object",
            FeOp::GetInflightFd(..) => "get_inflight_fd",
            FeOp::SetInflightFd(..) => "set_inflight_fd",
            FeOp::GetMaxMemSlots => "get_max_mem_slots",
            FeOp::AddMemRegion(_) => "add_mem_region",
            FeOp::RemoveMemRegion(_) => "remove_mem_region",
            FeOp::GetShmemConfig => "get_shmem_config",
            FeOp::SetDeviceStateFd(_) => "set_device_state_fd",
            FeOp::CheckDeviceState => "check_device_state",
            FeOp::PostcopyAdvise => "postcopy_advise",
            FeOp::PostcopyListen => "postcopy_listen",
            FeOp::PostcopyEnd => "postcopy_end",
        }
    }
    pub fn code(&self) -> u32 {
        match self {
            FeOp::GetFeatures => 1,
            FeOp::SetFeatures(_) => 2,
            FeOp::SetOwner => 3,
            FeOp::ResetOwner => 4,
            FeOp::SetMemTable(_) => 5,
            FeOp::SetLogBase { .. } => 6,
            FeOp::SetLogFd => 7,
            FeOp::SetVringNum(..) => 8,
            FeOp::SetVringAddr { .. } => 9,
            FeOp::SetVringBase(..) => 10,
            FeOp::GetVringBase(_) => 11,
            FeOp::SetVringKick(_) => 12,
            FeOp::SetVringCall(_) => 13,
            FeOp::SetVringErr(_) => 14,
            FeOp::GetProtocolFeatures => 15,
            FeOp::SetProtocolFeatures(_) => 16,
            FeOp::GetQueueNum => 17,
            FeOp::SetVringEnable(..) => 18,
            FeOp::SetBackendReqFd => 21,
            FeOp::GetConfig { .. } => 24,
            FeOp::SetConfig { .. } => 25,
            FeOp::PostcopyAdvise => 28,
            FeOp::PostcopyListen => 29,
            FeOp::PostcopyEnd => 30,
            FeOp::GetInflightFd(..) => 31,
            FeOp::SetInflightFd(..) => 32,
            FeOp::ResetDevice => 34,
            FeOp::GetMaxMemSlots => 36,
            FeOp::AddMemRegion(_) => 37,
            FeOp::RemoveMemRegion(_) => 38,
            FeOp::GetSharedObject(_) => 41,
            FeOp::SetDeviceStateFd(_) => 42,
            FeOp::CheckDeviceState => 43,
            FeOp::GetShmemConfig => 44,
        }
    }
    /// protocol feature bit the front end must have acknowledged (None: no protocol-feature gate)
    pub fn pf_gate(&self) -> Option<u32> {
        match self {
            FeOp::GetQueueNum => Some(pf::MQ),
            FeOp::ResetDevice => Some(pf::RESET_DEVICE),
            FeOp::GetConfig { .. } | FeOp::SetConfig { .. } => Some(pf::CONFIG),
            FeOp::SetBackendReqFd => Some(pf::BACKEND_REQ),
            FeOp::GetSharedObject(_) => Some(pf::SHARED_OBJECT),
            FeOp::GetInflightFd(..) | FeOp::SetInflightFd(..) => Some(pf::INFLIGHT_SHMFD),
            FeOp::GetMaxMemSlots | FeOp::AddMemRegion(_) | FeOp::RemoveMemRegion(_) => Some(pf::CONFIGURE_MEM_SLOTS),
            FeOp::GetShmemConfig => Some(pf::SHMEM),
            FeOp::SetDeviceStateFd(_) | FeOp::CheckDeviceState => Some(pf::DEVICE_STATE),
            FeOp::PostcopyAdvise | FeOp::PostcopyListen | FeOp::PostcopyEnd => Some(pf::PAGEFAULT),
            _ => None,
        }
    }
    /// does the call read a reply (not an ack) from the back end?
    pub fn has_reply(&self, st: &FeState) -> bool {
        match self {
            FeOp::GetFeatures
            | FeOp::GetVringBase(_)
            | FeOp::GetProtocolFeatures
            | FeOp::GetQueueNum
            | FeOp::GetConfig { .. }
            | FeOp::GetSharedObject(_)
            | FeOp::GetInflightFd(..)
            | FeOp::GetMaxMemSlots
            | FeOp::GetShmemConfig
            | FeOp::SetDeviceStateFd(_)
            | FeOp::CheckDeviceState
            | FeOp::PostcopyAdvise => true,
            FeOp::SetLogBase { region, .. } => region.is_some() && st.acked_pf & pf::mask(pf::LOG_SHMFD) != 0,
            _ => false,
        }
    }
    /// does the call wait for an acknowledgement in the given state?
    pub fn awaits_ack(&self, st: &FeState) -> bool {
        if self.has_reply(st) || matches!(self, FeOp::SetLogBase { .. }) {
            return false;
        }
        st.need_reply && st.acked_pf_for_ack(self) & pf::mask(pf::REPLY_ACK) != 0
    }
}

/// what the front-end endpoint knows (the model of its negotiation state)
#[derive(Clone, Debug, Default, Serialize, Deserialize, PartialEq, Eq, Hash)]
pub struct FeState {
    pub max_queue: u64,
    /// virtio features offered by the back end in the last GET_FEATURES reply
    pub offered_vf: u64,
    pub acked_vf: u64,
    pub acked_pf: u64,
    pub need_reply: bool,
}

impl FeState {
    /// the protocol features in force when the ack of `op` is awaited (SET_PROTOCOL_FEATURES stores first)
    fn acked_pf_for_ack(&self, op: &FeOp) -> u64 {
        match op {
            FeOp::SetProtocolFeatures(v) => *v & 0x3f_ffff,
            _ => self.acked_pf,
        }
    }
    /// update after a call that was put on the wire and (if it has one) answered
    pub fn apply(&mut self, op: &FeOp, reply_u64: Option<u64>) {
        match op {
            FeOp::GetFeatures => {
                if let Some(v) = reply_u64 {
                    self.offered_vf = v;
                }
            }
            FeOp::SetFeatures(v) => self.acked_vf = *v & self.offered_vf,
            FeOp::SetProtocolFeatures(v) => self.acked_pf = *v & 0x3f_ffff,
            FeOp::GetQueueNum => {
                if let Some(v) = reply_u64 {
                    if v <= 0x8000 {
                        self.max_queue = v;
                    }
                }
            }
            _ => {}
        }
    }
}

fn region_invalid_local(r: &Reg) -> bool {
    r.f[1] == 0
}

/// Must the API reject the call locally (nothing on the wire)?  From the property text of C02/C07.
pub fn locally_rejected(op: &FeOp, st: &FeState) -> bool {
    // feature gates
    if let Some(bit) = op.pf_gate() {
        if st.acked_pf & pf::mask(bit) == 0 {
            return true;
        }
    }
    match op {
        FeOp::GetProtocolFeatures | FeOp::SetProtocolFeatures(_) => st.offered_vf & spec::VIRTIO_F_PROTOCOL_FEATURES == 0,
        FeOp::SetVringEnable(q, _) => st.acked_vf & spec::VIRTIO_F_PROTOCOL_FEATURES == 0 || *q as u64 >= st.max_queue,
        FeOp::SetVringNum(q, _) | FeOp::SetVringBase(q, _) | FeOp::GetVringBase(q) => *q as u64 >= st.max_queue,
        // the descriptor messages carry the ring index in 8 bits: an index that cannot arrive unchanged must be refused
        FeOp::SetVringCall(q) | FeOp::SetVringKick(q) | FeOp::SetVringErr(q) => *q as u64 >= st.max_queue || *q > 255,
        FeOp::SetVringAddr { q, flags, .. } => *q as u64 >= st.max_queue || flags & !1 != 0,
        FeOp::SetMemTable(rs) => rs.is_empty() || rs.len() > 32 || rs.iter().any(region_invalid_local),
        FeOp::AddMemRegion(r) | FeOp::RemoveMemRegion(r) => region_invalid_local(r),
        FeOp::GetConfig { off, size, flags } => crate::refpred::config(*off, *size, *flags) != Some(true),
        FeOp::SetConfig { off, flags, buf } => buf.len() > 4096 || crate::refpred::config(*off, buf.len() as u32, *flags) != Some(true),
        FeOp::GetSharedObject(u) => crate::refpred::shared_msg(u) != Some(true),
        FeOp::SetInflightFd(ms, nq, qs) => ms[0] == 0 || *nq == 0 || *qs == 0,
        FeOp::SetDeviceStateFd(d) => *d > 1,
        _ => false,
    }
}

/// calls whose message would exceed the 4096-byte bound (the API may reject or the send fails): not judged
pub fn oversized(op: &FeOp) -> bool {
    match op {
        FeOp::GetConfig { size, .. } => 12 + *size as usize > 4096,
        FeOp::SetConfig { buf, .. } => 12 + buf.len() > 4096,
        _ => false,
    }
}

/// descriptors the harness creates and lends / gives to a call
pub struct Lent {
    pub owned: Vec<OwnedFd>,
    pub eventfd: Option<EventFd>,
    pub ids: Vec<FileId>,
    /// memory table: region i is passed the descriptor owned[alias[i]] (regions may share one descriptor)
    pub alias: Vec<usize>,
}

impl Lent {
    /// identities of the descriptors as they must appear on the wire / at the handler, in order (regions of a memory
    /// table may share a descriptor; `ids` stays the identity of each owned descriptor)
    pub fn wire_ids(&self) -> Vec<FileId> {
        let mut v = self.ids.clone();
        for i in 0..self.alias.len().min(v.len()) {
            v[i] = self.ids[self.alias[i]];
        }
        v
    }
}

pub fn make_lent(op: &FeOp) -> Lent {
    let mut alias: Vec<usize> = Vec::new();
    let mut owned = Vec::new();
    let mut eventfd = None;
    match op {
        FeOp::SetMemTable(rs) => {
            for (i, r) in rs.iter().enumerate() {
                owned.push(make_fd(r.kind));
                alias.push(if r.share && i > 0 { alias[i - 1] } else { i });
            }
        }
        FeOp::AddMemRegion(r) => owned.push(make_fd(r.kind)),
        FeOp::SetLogBase { region: Some(_), .. } => owned.push(make_fd(FdKind::Memfd)),
        FeOp::SetLogFd => owned.push(make_fd(FdKind::Eventfd)),
        FeOp::SetVringCall(_) | FeOp::SetVringKick(_) | FeOp::SetVringErr(_) => {
            eventfd = Some(EventFd::new(libc::EFD_NONBLOCK).expect("eventfd"));
        }
        FeOp::SetBackendReqFd => owned.push(make_fd(FdKind::Socket)),
        FeOp::SetInflightFd(..) => owned.push(make_fd(FdKind::Memfd)),
        FeOp::SetDeviceStateFd(_) => owned.push(make_fd(FdKind::Pipe)),
        _ => {}
    }
    let mut ids: Vec<FileId> = owned.iter().filter_map(|f| file_id(f.as_raw_fd())).collect();
    if let Some(e) = &eventfd {
        ids.extend(file_id(e.as_raw_fd()));
    }
    Lent { owned, eventfd, ids, alias }
}

/// canonical rendering of a call's successful result
#[derive(Debug, Clone, PartialEq, Eq, Serialize, Deserialize)]
pub enum Ret {
    Unit,
    U64(u64),
    Config { off: u32, size: u32, flags: u32, payload: Vec<u8> },
    Inflight([u64; 2], u16, u16, Option<FileId>),
    File(Option<FileId>),
    OptFile(Option<Option<FileId>>),
    Shmem(u32, Vec<u64>),
}

fn fid(f: &File) -> Option<FileId> {
    file_id(f.as_raw_fd())
}

/// perform the call; `lent` supplies descriptors (SetDeviceStateFd consumes its OwnedFd)
pub fn perform(f: &mut Frontend, op: &FeOp, lent: &mut Lent) -> Result<Ret, String> {
    let e = |e: vhost::Error| format!("{e:?}");
    let raw = |i: usize, l: &Lent| -> RawFd { l.owned.get(l.alias.get(i).copied().unwrap_or(i)).map(|f| f.as_raw_fd()).unwrap_or(-1) };
    let info = |r: &Reg, fd: RawFd| VhostUserMemoryRegionInfo::new(r.f[0], r.f[1], r.f[2], r.f[3], fd);
    match op {
        FeOp::GetFeatures => f.get_features().map(Ret::U64).map_err(e),
        FeOp::SetFeatures(v) => f.set_features(*v).map(|_| Ret::Unit).map_err(e),
        FeOp::SetOwner => f.set_owner().map(|_| Ret::Unit).map_err(e),
        FeOp::ResetOwner => f.reset_owner().map(|_| Ret::Unit).map_err(e),
        FeOp::SetMemTable(rs) => {
            let infos: Vec<_> = rs.iter().enumerate().map(|(i, r)| info(r, raw(i, lent))).collect();
            f.set_mem_table(&infos).map(|_| Ret::Unit).map_err(e)
        }
        FeOp::SetLogBase { base, region } => {
            let reg = region.map(|(size, off)| VhostUserDirtyLogRegion { mmap_size: size, mmap_offset: off, mmap_handle: raw(0, lent) });
            f.set_log_base(*base, reg).map(|_| Ret::Unit).map_err(e)
        }
        FeOp::SetLogFd => f.set_log_fd(raw(0, lent)).map(|_| Ret::Unit).map_err(e),
        FeOp::SetVringNum(q, n) => f.set_vring_num(*q as usize, *n).map(|_| Ret::Unit).map_err(e),
        FeOp::SetVringAddr { q, flags, desc, used, avail, log } => {
            let c = VringConfigData { queue_max_size: 256, queue_size: 128, flags: *flags, desc_table_addr: *desc, used_ring_addr: *used, avail_ring_addr: *avail, log_addr: *log };
            f.set_vring_addr(*q as usize, &c).map(|_| Ret::Unit).map_err(e)
        }
        FeOp::SetVringBase(q, b) => f.set_vring_base(*q as usize, *b).map(|_| Ret::Unit).map_err(e),
        FeOp::GetVringBase(q) => f.get_vring_base(*q as usize).map(|v| Ret::U64(v as u64)).map_err(e),
        FeOp::SetVringCall(q) => f.set_vring_call(*q as usize, lent.eventfd.as_ref().unwrap()).map(|_| Ret::Unit).map_err(e),
        FeOp::SetVringKick(q) => f.set_vring_kick(*q as usize, lent.eventfd.as_ref().unwrap()).map(|_| Ret::Unit).map_err(e),
        FeOp::SetVringErr(q) => f.set_vring_err(*q as usize, lent.eventfd.as_ref().unwrap()).map(|_| Ret::Unit).map_err(e),
        FeOp::GetProtocolFeatures => f.get_protocol_features().map(|v| Ret::U64(v.bits())).map_err(e),
        FeOp::SetProtocolFeatures(v) => f.set_protocol_features(VhostUserProtocolFeatures::from_bits_truncate(*v)).map(|_| Ret::Unit).map_err(e),
        FeOp::GetQueueNum => f.get_queue_num().map(Ret::U64).map_err(e),
        FeOp::ResetDevice => f.reset_device().map(|_| Ret::Unit).map_err(e),
        FeOp::SetVringEnable(q, en) => f.set_vring_enable(*q as usize, *en).map(|_| Ret::Unit).map_err(e),
        FeOp::GetConfig { off, size, flags } => {
            let buf = vec![0x5au8; *size as usize];
            f.get_config(*off, *size, VhostUserConfigFlags::from_bits_retain(*flags), &buf)
                .map(|(c, p)| Ret::Config { off: c.offset, size: c.size, flags: c.flags, payload: p })
                .map_err(e)
        }
        FeOp::SetConfig { off, flags, buf } => f.set_config(*off, VhostUserConfigFlags::from_bits_retain(*flags), buf).map(|_| Ret::Unit).map_err(e),
        FeOp::SetBackendReqFd => {
            let fd = lent.owned.first().map(|f| f.as_raw_fd()).unwrap_or(-1);
            struct R(RawFd);
            impl AsRawFd for R {
                fn as_raw_fd(&self) -> RawFd {
                    self.0
                }
            }
            f.set_backend_request_fd(&R(fd)).map(|_| Ret::Unit).map_err(e)
        }
        FeOp::GetSharedObject(u) => {
            let mut m = VhostUserSharedMsg::default();
            m.uuid = uuid::Uuid::from_bytes(*u);
            f.get_shared_object(&m).map(|file| Ret::File(fid(&file))).map_err(e)
        }
        FeOp::GetInflightFd(ms, nq, qs) => f
            .get_inflight_fd(&VhostUserInflight::new(ms[0], ms[1], *nq, *qs))
            .map(|(i, file)| Ret::Inflight([i.mmap_size, i.mmap_offset], i.num_queues, i.queue_size, fid(&file)))
            .map_err(e),
        FeOp::SetInflightFd(ms, nq, qs) => f.set_inflight_fd(&VhostUserInflight::new(ms[0], ms[1], *nq, *qs), raw(0, lent)).map(|_| Ret::Unit).map_err(e),
        FeOp::GetMaxMemSlots => f.get_max_mem_slots().map(Ret::U64).map_err(e),
        FeOp::AddMemRegion(r) => f.add_mem_region(&info(r, raw(0, lent))).map(|_| Ret::Unit).map_err(e),
        FeOp::RemoveMemRegion(r) => f.remove_mem_region(&info(r, -1)).map(|_| Ret::Unit).map_err(e),
        FeOp::GetShmemConfig => f.get_shmem_config().map(|c| Ret::Shmem(c.nregions, c.memory_sizes.to_vec())).map_err(e),
        FeOp::SetDeviceStateFd(d) => {
            let dir = if *d == 0 { VhostTransferStateDirection::SAVE } else { VhostTransferStateDirection::LOAD };
            let fd = if lent.owned.is_empty() { make_fd(FdKind::Pipe) } else { lent.owned.remove(0) };
            // keep a duplicate so that identity stays checkable after the call consumed the OwnedFd
            let dup = unsafe { OwnedFd::from_raw_fd(libc::fcntl(fd.as_raw_fd(), libc::F_DUPFD_CLOEXEC, 3)) };
            lent.owned.insert(0, dup);
            f.set_device_state_fd(dir, VhostTransferStatePhase::STOPPED, fd).map(|o| Ret::OptFile(o.as_ref().map(fid))).map_err(e)
        }
        FeOp::CheckDeviceState => f.check_device_state().map(|_| Ret::Unit).map_err(e),
        #[cfg(feature = "postcopy")]
        FeOp::PostcopyAdvise => f.postcopy_advise().map(|file| Ret::File(fid(&file))).map_err(e),
        #[cfg(feature = "postcopy")]
        FeOp::PostcopyListen => f.postcopy_listen().map(|_| Ret::Unit).map_err(e),
        #[cfg(feature = "postcopy")]
        FeOp::PostcopyEnd => f.postcopy_end().map(|_| Ret::Unit).map_err(e),
        #[cfg(not(feature = "postcopy"))]
        FeOp::PostcopyAdvise | FeOp::PostcopyListen | FeOp::PostcopyEnd => Err("postcopy not built".into()),
    }
}

/// specification encoding of the request body and the number of descriptors on it
pub fn wire_body(op: &FeOp, st: &FeState) -> (Vec<u8>, usize) {
    match op {
        FeOp::GetFeatures | FeOp::SetOwner | FeOp::ResetOwner | FeOp::GetProtocolFeatures | FeOp::GetQueueNum | FeOp::ResetDevice => (vec![], 0),
        FeOp::GetMaxMemSlots | FeOp::GetShmemConfig | FeOp::CheckDeviceState | FeOp::PostcopyAdvise | FeOp::PostcopyListen | FeOp::PostcopyEnd => (vec![], 0),
        FeOp::SetFeatures(v) => (spec::b_u64(*v), 0),
        FeOp::SetProtocolFeatures(v) => (spec::b_u64(*v & 0x3f_ffff), 0),
        FeOp::SetMemTable(rs) => (spec::b_mem_table(&rs.iter().map(|r| r.f).collect::<Vec<_>>()), rs.len()),
        FeOp::SetLogBase { base, region } => match region {
            Some((size, off)) if st.acked_pf & pf::mask(pf::LOG_SHMFD) != 0 => (spec::b_log(*size, *off), 1),
            _ => (spec::b_u64(*base), 0),
        },
        FeOp::SetLogFd => (vec![], 1),
        FeOp::SetVringNum(q, n) => (spec::b_vring_state(*q, *n as u32), 0),
        FeOp::SetVringAddr { q, flags, desc, used, avail, log } => (spec::b_vring_addr(*q, *flags, *desc, *used, *avail, log.unwrap_or(0)), 0),
        FeOp::SetVringBase(q, b) => (spec::b_vring_state(*q, *b as u32), 0),
        FeOp::GetVringBase(q) => (spec::b_vring_state(*q, 0), 0),
        FeOp::SetVringCall(q) | FeOp::SetVringKick(q) | FeOp::SetVringErr(q) => (spec::b_u64(*q as u64), 1),
        FeOp::SetVringEnable(q, en) => (spec::b_vring_state(*q, *en as u32), 0),
        FeOp::GetConfig { off, size, flags } => (spec::b_config(*off, *size, *flags, &vec![0x5au8; *size as usize]), 0),
        FeOp::SetConfig { off, flags, buf } => (spec::b_config(*off, buf.len() as u32, *flags, buf), 0),
        FeOp::SetBackendReqFd => (vec![], 1),
        FeOp::GetSharedObject(u) => (u.to_vec(), 0),
        FeOp::GetInflightFd(ms, nq, qs) => (spec::b_inflight(ms[0], ms[1], *nq, *qs), 0),
        FeOp::SetInflightFd(ms, nq, qs) => (spec::b_inflight(ms[0], ms[1], *nq, *qs), 1),
        FeOp::AddMemRegion(r) => (spec::b_single_region(&r.f), 1),
        FeOp::RemoveMemRegion(r) => (spec::b_single_region(&r.f), 0),
        FeOp::SetDeviceStateFd(d) => (spec::b_xfer(*d, 0), 1),
    }
}

/// values a conforming back end answers with
#[derive(Serialize, Deserialize, Debug, Clone, Hash, PartialEq, Eq, Default)]
pub struct ReplyVals {
    pub v: u64,
    pub v2: u64,
    pub bytes_seed: u8,
    pub with_file: bool,
    /// != 0: the conforming peer writes the reply in two pieces (descriptors with the first), split at a monotone-mapped offset
    #[serde(default)]
    pub split: u16,
}

/// the reply a conforming back end sends (bytes, descriptor kinds) and the value the call must return
pub fn reply_for(op: &FeOp, st: &FeState, rv: &ReplyVals) -> Option<(Vec<u8>, usize, Ret)> {
    let code = op.code();
    let r = |body: Vec<u8>, nfds: usize, ret: Ret| Some((spec::reply(code, &body), nfds, ret));
    match op {
        FeOp::GetFeatures | FeOp::GetMaxMemSlots => r(spec::b_u64(rv.v), 0, Ret::U64(rv.v)),
        FeOp::GetProtocolFeatures => r(spec::b_u64(rv.v), 0, Ret::U64(rv.v & 0x3f_ffff)),
        FeOp::GetQueueNum => {
            let v = rv.v % 0x8001;
            r(spec::b_u64(v), 0, Ret::U64(v))
        }
        FeOp::GetVringBase(q) => r(spec::b_vring_state(*q, rv.v as u32), 0, Ret::U64(rv.v as u32 as u64)),
        FeOp::GetConfig { off, size, flags } => {
            let payload: Vec<u8> = (0..*size).map(|i| rv.bytes_seed.wrapping_add(i as u8)).collect();
            r(spec::b_config(*off, *size, *flags, &payload), 0, Ret::Config { off: *off, size: *size, flags: *flags, payload })
        }
        FeOp::GetSharedObject(_) | FeOp::PostcopyAdvise => r(vec![], 1, Ret::File(None)),
        FeOp::GetInflightFd(ms, nq, qs) => r(spec::b_inflight(rv.v.max(1), rv.v2, (*nq).max(1), (*qs).max(1)), 1, Ret::Inflight([rv.v.max(1), rv.v2], (*nq).max(1), (*qs).max(1), None)).map(|x| {
            let _ = ms;
            x
        }),
        FeOp::GetShmemConfig => {
            let n = (rv.v % 257) as u32;
            let sizes: Vec<u64> = (0..256u64).map(|i| rv.v2.wrapping_mul(i + 1)).collect();
            r(spec::b_shmem_config(n, &sizes), 0, Ret::Shmem(n, sizes))
        }
        FeOp::SetDeviceStateFd(_) => {
            if rv.with_file {
                r(spec::b_u64(0), 1, Ret::OptFile(Some(None)))
            } else {
                r(spec::b_u64(0x100), 0, Ret::OptFile(None))
            }
        }
        FeOp::CheckDeviceState => r(spec::b_u64(0), 0, Ret::Unit),
        FeOp::SetLogBase { region: Some((size, off)), .. } if st.acked_pf & pf::mask(pf::LOG_SHMFD) != 0 => r(spec::b_log(*size, *off), 0, Ret::Unit),
        _ => None,
    }
}

// ------------------------------------------------------------------ strategies

pub fn reg_strategy() -> impl Strategy<Value = Reg> {
    (valid_region(), prop_oneof![4 => Just(FdKind::Memfd), 1 => Just(FdKind::Eventfd), 1 => Just(FdKind::Pipe), 1 => Just(FdKind::Socket), 1 => Just(FdKind::DevNull)])
        .prop_map(|(f, kind)| Reg { f, kind, share: false })
}

/// regions including zero-sized ones (must be rejected locally)
pub fn reg_any() -> impl Strategy<Value = Reg> {
    prop_oneof![
        6 => reg_strategy(),
        1 => reg_strategy().prop_map(|mut r| { r.f[1] = 0; r }),
    ]
}

pub fn queue_index() -> impl Strategy<Value = u32> {
    prop_oneof![4 => 0u32..4, 2 => Just(255u32), 1 => Just(256u32), 1 => Just(257u32), 1 => Just(0x7fffu32), 1 => Just(0x8000u32), 1 => 0u32..0x9000]
}

pub fn reply_vals() -> impl Strategy<Value = ReplyVals> {
    (lat64(), lat64(), any::<u8>(), any::<bool>(), prop_oneof![2 => Just(0u16), 1 => Just(1u16), 1 => any::<u16>()]).prop_map(|(v, v2, bytes_seed, with_file, split)| ReplyVals { v, v2, bytes_seed, with_file, split })
}

pub fn op_strategy() -> BoxedStrategy<FeOp> {
    let cfgwin = prop_oneof![
        6 => config_window(),
        1 => (lat32(), lat32()),
        1 => Just((0u32, 0u32)),
        1 => Just((0x1000u32, 1u32)),
        1 => Just((0xfffu32, 2u32)),
    ];
    let cfgwin2 = prop_oneof![6 => config_window(), 1 => (0u32..0x1100, 0u32..64), 1 => Just((0x1000u32, 1u32))];
    let mut v: Vec<BoxedStrategy<FeOp>> = vec![
        Just(FeOp::GetFeatures).boxed(),
        lat64().prop_map(FeOp::SetFeatures).boxed(),
        prop_oneof![Just(spec::VIRTIO_F_PROTOCOL_FEATURES | 0x1_0000_0000u64), Just(0x1_0000_0000u64)].prop_map(FeOp::SetFeatures).boxed(),
        Just(FeOp::SetOwner).boxed(),
        Just(FeOp::ResetOwner).boxed(),
        (prop_oneof![4 => proptest::collection::vec(reg_any(), 1..=4), 1 => proptest::collection::vec(reg_strategy(), 30..=33), 1 => Just(vec![])], any::<u32>())
            .prop_map(|(mut v, m)| {
                // in a third of the tables neighbouring regions share one descriptor (one file split into several regions)
                if m % 3 == 0 {
                    for (i, r) in v.iter_mut().enumerate() {
                        r.share = i > 0 && (m >> (8 + i % 24)) & 1 == 1;
                    }
                }
                FeOp::SetMemTable(v)
            })
            .boxed(),
        (lat64(), prop_oneof![1 => Just(None), 2 => (lat64(), lat64()).prop_map(|(s, o)| {
            let s = s.max(1);
            Some((s, if (o as u128 + s as u128) < (1u128 << 64) { o } else { u64::MAX - s }))
        })])
            .prop_map(|(base, region)| FeOp::SetLogBase { base, region })
            .boxed(),
        Just(FeOp::SetLogFd).boxed(),
        (queue_index(), lat16()).prop_map(|(q, n)| FeOp::SetVringNum(q, n)).boxed(),
        (queue_index(), prop_oneof![4 => 0u32..2, 1 => lat32()], lat64(), lat64(), lat64(), prop_oneof![Just(None), lat64().prop_map(Some)])
            .prop_map(|(q, flags, desc, used, avail, log)| FeOp::SetVringAddr { q, flags, desc: desc & !0xf, used: used & !0x3, avail: avail & !0x1, log })
            .boxed(),
        (queue_index(), lat16()).prop_map(|(q, n)| FeOp::SetVringBase(q, n)).boxed(),
        queue_index().prop_map(FeOp::GetVringBase).boxed(),
        queue_index().prop_map(FeOp::SetVringCall).boxed(),
        queue_index().prop_map(FeOp::SetVringKick).boxed(),
        queue_index().prop_map(FeOp::SetVringErr).boxed(),
        Just(FeOp::GetProtocolFeatures).boxed(),
        prop_oneof![Just(0x3f_ffffu64), any::<u64>(), any::<u64>().prop_map(|v| v | 8)].prop_map(FeOp::SetProtocolFeatures).boxed(),
        Just(FeOp::GetQueueNum).boxed(),
        Just(FeOp::ResetDevice).boxed(),
        (queue_index(), any::<bool>()).prop_map(|(q, e)| FeOp::SetVringEnable(q, e)).boxed(),
        (cfgwin, prop_oneof![4 => 0u32..4, 1 => lat32()]).prop_map(|((off, size), flags)| FeOp::GetConfig { off, size, flags }).boxed(),
        (cfgwin2, prop_oneof![4 => 0u32..4, 1 => lat32()], any::<u8>())
            .prop_map(|((off, size), flags, fill)| FeOp::SetConfig { off, flags, buf: (0..size).map(|i| fill.wrapping_add(i as u8)).collect() })
            .boxed(),
        Just(FeOp::SetBackendReqFd).boxed(),
        prop_oneof![6 => valid_uuid(), 1 => Just([0u8; 16]), 1 => Just([0xffu8; 16])].prop_map(FeOp::GetSharedObject).boxed(),
        (lat64(), lat64(), lat16(), lat16()).prop_map(|(a, b, c, d)| FeOp::GetInflightFd([a, b], c, d)).boxed(),
        (lat64(), lat64(), lat16(), lat16()).prop_map(|(a, b, c, d)| FeOp::SetInflightFd([a, b], c, d)).boxed(),
        Just(FeOp::GetMaxMemSlots).boxed(),
        reg_any().prop_map(FeOp::AddMemRegion).boxed(),
        reg_any().prop_map(FeOp::RemoveMemRegion).boxed(),
        Just(FeOp::GetShmemConfig).boxed(),
        (0u32..2).prop_map(FeOp::SetDeviceStateFd).boxed(),
        Just(FeOp::CheckDeviceState).boxed(),
    ];
    if cfg!(feature = "postcopy") {
        v.push(Just(FeOp::PostcopyAdvise).boxed());
        v.push(Just(FeOp::PostcopyListen).boxed());
        v.push(Just(FeOp::PostcopyEnd).boxed());
    }
    proptest::strategy::Union::new(v).boxed()
}

pub const N_OPS: usize = 31;
