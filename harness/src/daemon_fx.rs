//! Daemon fixture: a recording VhostUserBackend (Bitmap = BitmapMmapRegion, Vring generic), a
//! running VhostUserDaemon connected to a real Frontend (or a raw peer), and the double barrier
//! that makes "no dispatch happened" observable without sleeping.

use std::os::unix::io::{AsRawFd, FromRawFd, OwnedFd, RawFd};
use std::os::unix::net::UnixStream;
use std::path::PathBuf;
use std::sync::atomic::{AtomicU64, AtomicUsize, Ordering};
use std::sync::{Arc, Condvar, Mutex, RwLock};
use std::time::{Duration, Instant};

use vhost::vhost_user::message::{VhostUserProtocolFeatures, VhostUserShMemConfig, VhostUserSharedMsg};
use vhost::vhost_user::{Backend, Frontend, Listener};
use vhost_user_backend::bitmap::BitmapMmapRegion;
use vhost_user_backend::{VhostUserBackend, VhostUserBackendMut, VhostUserDaemon, VringMutex, VringRwLock, VringT};
use virtio_queue::QueueT;
use vm_memory::{GuestMemoryAtomic, GuestMemoryMmap};
use vmm_sys_util::epoll::EventSet;
use vmm_sys_util::event::{new_event_consumer_and_notifier, EventConsumer, EventFlag, EventNotifier};

pub type B = BitmapMmapRegion;
pub type GM = GuestMemoryAtomic<GuestMemoryMmap<B>>;
pub type VMutex = VringMutex<GM>;
pub type VRw = VringRwLock<GM>;

#[derive(Clone, Debug)]
pub struct BeCfg {
    pub num_queues: usize,
    pub max_queue_size: usize,
    pub features: u64,
    pub pfeatures: u64,
    pub queues_per_thread: Vec<u64>,
    pub exit_events: bool,
    /// id of the barrier listener (default num_queues + 1)
    pub barrier_id: Option<u64>,
}

impl Default for BeCfg {
    fn default() -> Self {
        BeCfg {
            num_queues: 2,
            max_queue_size: 256,
            features: 0x1_7000_0000 | (1 << 29), // VERSION_1 | PROTOCOL_FEATURES | NOTIFY_ON_EMPTY-ish bits | EVENT_IDX
            pfeatures: 0x3f_ffff & !(1 << 8) & !(1 << 12), // everything but PAGEFAULT, INFLIGHT_SHMFD
            queues_per_thread: vec![0xffff_ffff],
            exit_events: true,
            barrier_id: None,
        }
    }
}

#[derive(Clone, Debug, PartialEq, Eq, serde::Serialize)]
pub struct Event {
    pub seq: u64,
    pub device_event: u16,
    pub thread_id: usize,
    pub nvrings: usize,
    /// queue size of vrings[device_event] at the time of the call (identity of the ring), if in range
    pub ring_size: Option<u16>,
}

/// state of one ring as sampled inside the worker at barrier time
#[derive(Clone, Debug, Default, PartialEq, Eq, serde::Serialize)]
pub struct QueueSnap {
    pub size: u16,
    pub max_size: u16,
    pub ready: bool,
    pub enabled: bool,
    pub next_avail: u16,
    pub next_used: u16,
    pub desc: u64,
    pub avail: u64,
    pub used: u64,
    pub event_idx: bool,
}

pub fn snap_of<V: VringT<GM>>(v: &V) -> QueueSnap {
    let g = v.get_ref();
    let q = g.get_queue();
    QueueSnap {
        size: q.size(),
        max_size: q.max_size(),
        ready: q.ready(),
        enabled: g.is_enabled(),
        next_avail: q.next_avail(),
        next_used: q.next_used(),
        desc: q.desc_table(),
        avail: q.avail_ring(),
        used: q.used_ring(),
        event_idx: q.event_idx_enabled(),
    }
}

pub type EventHook<V> = Arc<dyn Fn(&Be<V>, u16, &[V], usize) + Send + Sync>;

pub struct BeState<V> {
    pub events: Vec<Event>,
    pub acked_features: Vec<u64>,
    pub event_idx: Vec<bool>,
    pub mem: Option<GM>,
    pub update_memory_calls: usize,
    /// (start, len) of every region of the memory handed over, sampled inside the latest notification
    pub mem_at_notification: Vec<(u64, u64)>,
    pub update_memory_fail: bool,
    pub backends: Vec<Backend>,
    pub reset_calls: usize,
    pub config_sets: Vec<(u32, Vec<u8>)>,
    pub hook: Option<EventHook<V>>,
    pub barrier_fds: Vec<Option<EventConsumer>>,
    pub custom: Vec<(u16, usize)>,
    /// per worker thread: ring states sampled at the latest barrier (thread's own ring slice)
    pub snaps: Vec<Vec<QueueSnap>>,
    /// hook run inside the worker at barrier time (C14: ring operations issued by the backend)
    pub barrier_hook: Option<EventHook<V>>,
}

pub struct Be<V> {
    pub cfg: BeCfg,
    pub st: Mutex<BeState<V>>,
    pub cv: Condvar,
    pub seq: AtomicU64,
    pub barrier_done: Vec<AtomicU64>,
    pub exit_notifiers: Mutex<Vec<Option<EventNotifier>>>,
    /// (descriptor number, identity) of the exit-event consumers handed to the library: the library registers them with
    /// epoll through into_raw_fd() and never closes them, not even when the daemon is dropped.  The fixture closes them
    /// itself afterwards (only if the number still refers to the same eventfd), or long runs exhaust the descriptor limit.
    pub exit_consumers: Mutex<Vec<(RawFd, crate::fdtrack::FileId)>>,
    pub handle_event_calls: AtomicUsize,
    /// while true, the set_config callback does not return (C16: shutdown while inside the handler)
    pub block_set_config: std::sync::atomic::AtomicBool,
    pub in_set_config: std::sync::atomic::AtomicBool,
    /// while true, the device-level callbacks that can fail do fail (C03: failures reported by the device itself)
    pub fail_device_calls: std::sync::atomic::AtomicBool,
    /// get_config returns size + delta bytes (C03: wrong-length configuration data)
    pub config_len_delta: std::sync::atomic::AtomicI32,
    /// handle_event() fails for this event id, without consuming the event (C16: a source that keeps failing)
    pub fail_event_id: AtomicU64,
}

impl<V> Be<V> {
    pub fn new(cfg: BeCfg) -> Arc<Self> {
        let nthreads = cfg.queues_per_thread.len();
        Arc::new(Be {
            st: Mutex::new(BeState {
                events: Vec::new(),
                acked_features: Vec::new(),
                event_idx: Vec::new(),
                mem: None,
                update_memory_calls: 0,
                mem_at_notification: Vec::new(),
                update_memory_fail: false,
                backends: Vec::new(),
                reset_calls: 0,
                config_sets: Vec::new(),
                hook: None,
                barrier_fds: (0..nthreads).map(|_| None).collect(),
                custom: Vec::new(),
                snaps: (0..nthreads).map(|_| Vec::new()).collect(),
                barrier_hook: None,
            }),
            cv: Condvar::new(),
            seq: AtomicU64::new(0),
            barrier_done: (0..nthreads).map(|_| AtomicU64::new(0)).collect(),
            exit_notifiers: Mutex::new((0..nthreads).map(|_| None).collect()),
            exit_consumers: Mutex::new(Vec::new()),
            handle_event_calls: AtomicUsize::new(0),
            block_set_config: std::sync::atomic::AtomicBool::new(false),
            in_set_config: std::sync::atomic::AtomicBool::new(false),
            fail_device_calls: std::sync::atomic::AtomicBool::new(false),
            config_len_delta: std::sync::atomic::AtomicI32::new(0),
            fail_event_id: AtomicU64::new(u64::MAX),
            cfg,
        })
    }
    pub fn barrier_id(&self) -> u64 {
        self.cfg.barrier_id.unwrap_or(self.cfg.num_queues as u64 + 1)
    }
    pub fn events(&self) -> Vec<Event> {
        self.st.lock().unwrap().events.clone()
    }
    pub fn event_count(&self) -> usize {
        self.st.lock().unwrap().events.len()
    }
}

impl<V: VringT<GM> + Send + Sync + 'static> VhostUserBackend for Be<V> {
    type Bitmap = B;
    type Vring = V;

    fn num_queues(&self) -> usize {
        self.cfg.num_queues
    }
    fn max_queue_size(&self) -> usize {
        self.cfg.max_queue_size
    }
    fn features(&self) -> u64 {
        self.cfg.features
    }
    fn acked_features(&self, features: u64) {
        self.st.lock().unwrap().acked_features.push(features);
    }
    fn protocol_features(&self) -> VhostUserProtocolFeatures {
        VhostUserProtocolFeatures::from_bits_retain(self.cfg.pfeatures)
    }
    fn reset_device(&self) {
        self.st.lock().unwrap().reset_calls += 1;
    }
    fn set_event_idx(&self, enabled: bool) {
        self.st.lock().unwrap().event_idx.push(enabled);
    }
    fn get_config(&self, offset: u32, size: u32) -> Vec<u8> {
        let d = self.config_len_delta.load(Ordering::SeqCst);
        let n = (size as i64 + d as i64).clamp(0, 8192) as u32;
        let mut v = crate::rec_backend::config_pattern(offset, size.max(n));
        v.truncate(n as usize);
        v
    }
    fn set_config(&self, offset: u32, buf: &[u8]) -> std::io::Result<()> {
        if self.fail_device_calls.load(Ordering::SeqCst) {
            return Err(std::io::Error::other("scripted device failure"));
        }
        self.st.lock().unwrap().config_sets.push((offset, buf.to_vec()));
        self.in_set_config.store(true, Ordering::SeqCst);
        while self.block_set_config.load(Ordering::SeqCst) {
            std::thread::sleep(Duration::from_micros(200));
        }
        self.in_set_config.store(false, Ordering::SeqCst);
        Ok(())
    }
    fn update_memory(&self, mem: GM) -> std::io::Result<()> {
        let mut st = self.st.lock().unwrap();
        if st.update_memory_fail {
            return Err(std::io::Error::other("scripted update_memory failure"));
        }
        st.update_memory_calls += 1;
        {
            use vm_memory::{GuestAddressSpace, GuestMemory, GuestMemoryRegion};
            st.mem_at_notification = mem.memory().iter().map(|r| (r.start_addr().0, r.len())).collect();
        }
        st.mem = Some(mem);
        Ok(())
    }
    fn set_backend_req_fd(&self, backend: Backend) {
        self.st.lock().unwrap().backends.push(backend);
    }
    fn get_shared_object(&self, _uuid: VhostUserSharedMsg) -> std::io::Result<std::fs::File> {
        if self.fail_device_calls.load(Ordering::SeqCst) {
            return Err(std::io::Error::other("scripted device failure"));
        }
        Ok(std::fs::File::from(crate::fdtrack::make_fd(crate::fdtrack::FdKind::Memfd)))
    }
    fn queues_per_thread(&self) -> Vec<u64> {
        self.cfg.queues_per_thread.clone()
    }
    fn exit_event(&self, thread_index: usize) -> Option<(EventConsumer, EventNotifier)> {
        if !self.cfg.exit_events {
            return None;
        }
        let (c, n) = new_event_consumer_and_notifier(EventFlag::NONBLOCK).ok()?;
        if let Some(id) = crate::fdtrack::file_id(c.as_raw_fd()) {
            self.exit_consumers.lock().unwrap().push((c.as_raw_fd(), id));
        }
        if let Ok(n2) = n.try_clone() {
            if let Some(slot) = self.exit_notifiers.lock().unwrap().get_mut(thread_index) {
                *slot = Some(n2);
            }
        }
        Some((c, n))
    }
    fn handle_event(&self, device_event: u16, _evset: EventSet, vrings: &[V], thread_id: usize) -> std::io::Result<()> {
        self.handle_event_calls.fetch_add(1, Ordering::SeqCst);
        if device_event as u64 == self.fail_event_id.load(Ordering::SeqCst) {
            return Err(std::io::Error::other("scripted event-handler failure"));
        }
        if device_event as u64 == self.barrier_id() {
            let hook = {
                let st = self.st.lock().unwrap();
                if let Some(Some(c)) = st.barrier_fds.get(thread_id) {
                    let _ = c.consume();
                }
                st.barrier_hook.clone()
            };
            if let Some(h) = hook {
                h(self, device_event, vrings, thread_id);
            }
            let snaps: Vec<QueueSnap> = vrings.iter().map(snap_of).collect();
            if let Some(slot) = self.st.lock().unwrap().snaps.get_mut(thread_id) {
                *slot = snaps;
            }
            if let Some(d) = self.barrier_done.get(thread_id) {
                d.fetch_add(1, Ordering::SeqCst);
            }
            let _g = self.st.lock().unwrap();
            self.cv.notify_all();
            return Ok(());
        }
        let ring_size = vrings.get(device_event as usize).map(|v| v.get_ref().get_queue().size());
        let hook = {
            let mut st = self.st.lock().unwrap();
            let seq = self.seq.fetch_add(1, Ordering::SeqCst);
            st.events.push(Event { seq, device_event, thread_id, nvrings: vrings.len(), ring_size });
            st.hook.clone()
        };
        if let Some(h) = hook {
            h(self, device_event, vrings, thread_id);
        }
        Ok(())
    }
    fn get_shmem_config(&self) -> std::io::Result<VhostUserShMemConfig> {
        if self.fail_device_calls.load(Ordering::SeqCst) {
            return Err(std::io::Error::other("scripted device failure"));
        }
        Ok(VhostUserShMemConfig::new(2, &[0x1000, 0x2000]))
    }
    fn set_device_state_fd(
        &self,
        _d: vhost::vhost_user::message::VhostTransferStateDirection,
        _p: vhost::vhost_user::message::VhostTransferStatePhase,
        _f: std::fs::File,
    ) -> std::io::Result<Option<std::fs::File>> {
        if self.fail_device_calls.load(Ordering::SeqCst) {
            return Err(std::io::Error::other("scripted device failure"));
        }
        Ok(None)
    }
    fn check_device_state(&self) -> std::io::Result<()> {
        if self.fail_device_calls.load(Ordering::SeqCst) {
            return Err(std::io::Error::other("scripted device failure"));
        }
        Ok(())
    }
}

/// The same recording back end through the non-interior-mutability trait, to be wrapped by the
/// library's `Mutex<T>` / `RwLock<T>` adapters.  State is shared with the inner `Be`.
pub struct BeMut<V>(pub Arc<Be<V>>);

impl<V: VringT<GM> + Send + Sync + 'static> VhostUserBackendMut for BeMut<V> {
    type Bitmap = B;
    type Vring = V;
    fn num_queues(&self) -> usize {
        VhostUserBackend::num_queues(&*self.0)
    }
    fn max_queue_size(&self) -> usize {
        VhostUserBackend::max_queue_size(&*self.0)
    }
    fn features(&self) -> u64 {
        VhostUserBackend::features(&*self.0)
    }
    fn acked_features(&mut self, features: u64) {
        VhostUserBackend::acked_features(&*self.0, features)
    }
    fn protocol_features(&self) -> VhostUserProtocolFeatures {
        VhostUserBackend::protocol_features(&*self.0)
    }
    fn reset_device(&mut self) {
        VhostUserBackend::reset_device(&*self.0)
    }
    fn set_event_idx(&mut self, enabled: bool) {
        VhostUserBackend::set_event_idx(&*self.0, enabled)
    }
    fn get_config(&self, offset: u32, size: u32) -> Vec<u8> {
        VhostUserBackend::get_config(&*self.0, offset, size)
    }
    fn set_config(&mut self, offset: u32, buf: &[u8]) -> std::io::Result<()> {
        VhostUserBackend::set_config(&*self.0, offset, buf)
    }
    fn update_memory(&mut self, mem: GM) -> std::io::Result<()> {
        VhostUserBackend::update_memory(&*self.0, mem)
    }
    fn set_backend_req_fd(&mut self, backend: Backend) {
        VhostUserBackend::set_backend_req_fd(&*self.0, backend)
    }
    fn get_shared_object(&mut self, uuid: VhostUserSharedMsg) -> std::io::Result<std::fs::File> {
        VhostUserBackend::get_shared_object(&*self.0, uuid)
    }
    fn queues_per_thread(&self) -> Vec<u64> {
        VhostUserBackend::queues_per_thread(&*self.0)
    }
    fn exit_event(&self, thread_index: usize) -> Option<(EventConsumer, EventNotifier)> {
        VhostUserBackend::exit_event(&*self.0, thread_index)
    }
    fn handle_event(&mut self, device_event: u16, evset: EventSet, vrings: &[V], thread_id: usize) -> std::io::Result<()> {
        VhostUserBackend::handle_event(&*self.0, device_event, evset, vrings, thread_id)
    }
    fn get_shmem_config(&self) -> std::io::Result<VhostUserShMemConfig> {
        VhostUserBackend::get_shmem_config(&*self.0)
    }
    fn check_device_state(&self) -> std::io::Result<()> {
        VhostUserBackend::check_device_state(&*self.0)
    }
    fn set_device_state_fd(
        &mut self,
        d: vhost::vhost_user::message::VhostTransferStateDirection,
        p: vhost::vhost_user::message::VhostTransferStatePhase,
        f: std::fs::File,
    ) -> std::io::Result<Option<std::fs::File>> {
        VhostUserBackend::set_device_state_fd(&*self.0, d, p, f)
    }
}

/// how the recording back end is handed to the daemon
#[derive(Clone, Copy, Debug, PartialEq, Eq, Hash, serde::Serialize, serde::Deserialize)]
pub enum Wrap {
    /// Arc<Be>: the back end implements the interior-mutability trait itself
    Direct,
    /// Arc<Mutex<BeMut>>: library's Mutex adapter
    Mutex,
    /// Arc<RwLock<BeMut>>: library's RwLock adapter
    RwLock,
}

pub enum DaemonAny<V: VringT<GM> + Clone + Send + Sync + 'static> {
    Direct(VhostUserDaemon<Arc<Be<V>>>),
    Mutex(VhostUserDaemon<Arc<Mutex<BeMut<V>>>>),
    RwLock(VhostUserDaemon<Arc<RwLock<BeMut<V>>>>),
}

macro_rules! each {
    ($self:expr, $d:ident => $e:expr) => {
        match $self {
            DaemonAny::Direct($d) => $e,
            DaemonAny::Mutex($d) => $e,
            DaemonAny::RwLock($d) => $e,
        }
    };
}

impl<V: VringT<GM> + Clone + Send + Sync + 'static> DaemonAny<V> {
    pub fn start(&mut self, l: &mut Listener) -> vhost_user_backend::Result<()> {
        each!(self, d => d.start(l))
    }
    pub fn wait(&mut self) -> vhost_user_backend::Result<()> {
        each!(self, d => d.wait())
    }
    pub fn request_shutdown(&self) {
        each!(self, d => d.request_shutdown())
    }
    pub fn shutdown_handle(&self) -> Option<vhost_user_backend::ShutdownHandle> {
        each!(self, d => d.shutdown_handle())
    }
    pub fn serve(&mut self, p: &std::path::Path) -> vhost_user_backend::Result<()> {
        each!(self, d => d.serve(p))
    }
    pub fn n_workers(&self) -> usize {
        each!(self, d => d.get_epoll_handlers().len())
    }
    pub fn register_listener(&self, t: usize, fd: RawFd, id: u64) -> std::io::Result<()> {
        each!(self, d => d.get_epoll_handlers()[t].register_listener(fd, EventSet::IN, id))
    }
    pub fn unregister_listener(&self, t: usize, fd: RawFd, id: u64) -> std::io::Result<()> {
        each!(self, d => d.get_epoll_handlers()[t].unregister_listener(fd, EventSet::IN, id))
    }
}

static SOCK_SEQ: AtomicU64 = AtomicU64::new(0);

pub fn sock_path() -> PathBuf {
    let dir = std::path::Path::new(&crate::engine::verif_dir()).join("target").join("tmp");
    let _ = std::fs::create_dir_all(&dir);
    dir.join(format!("s{}-{}", std::process::id(), SOCK_SEQ.fetch_add(1, Ordering::SeqCst)))
}

pub struct Fx<V: VringT<GM> + Clone + Send + Sync + 'static> {
    pub daemon: Option<DaemonAny<V>>,
    pub be: Arc<Be<V>>,
    /// harness end of the connection (raw); a Frontend can be built from a dup of it
    pub peer: Option<UnixStream>,
    pub barrier_notifiers: Vec<EventNotifier>,
    pub barrier_fired: Vec<u64>,
    pub path: PathBuf,
}

impl<V: VringT<GM> + Clone + Send + Sync + 'static> Fx<V> {
    /// create the daemon (workers start), register the barrier listeners
    pub fn new(cfg: BeCfg) -> Result<Self, String> {
        Self::new_wrapped(cfg, Wrap::Direct)
    }

    pub fn new_wrapped(cfg: BeCfg, wrap: Wrap) -> Result<Self, String> {
        let be: Arc<Be<V>> = Be::new(cfg);
        let mem: GM = GuestMemoryAtomic::new(GuestMemoryMmap::<B>::new());
        let name = "vverif-daemon".to_string();
        let daemon = match wrap {
            Wrap::Direct => DaemonAny::Direct(VhostUserDaemon::new(name, be.clone(), mem).map_err(|e| format!("daemon new: {e}"))?),
            Wrap::Mutex => DaemonAny::Mutex(
                VhostUserDaemon::new(name, Arc::new(Mutex::new(BeMut(be.clone()))), mem).map_err(|e| format!("daemon new: {e}"))?,
            ),
            Wrap::RwLock => DaemonAny::RwLock(
                VhostUserDaemon::new(name, Arc::new(RwLock::new(BeMut(be.clone()))), mem).map_err(|e| format!("daemon new: {e}"))?,
            ),
        };
        let mut notifiers = Vec::new();
        for t in 0..daemon.n_workers() {
            let (c, n) = new_event_consumer_and_notifier(EventFlag::NONBLOCK).map_err(|e| e.to_string())?;
            daemon.register_listener(t, c.as_raw_fd(), be.barrier_id()).map_err(|e| format!("register barrier: {e}"))?;
            be.st.lock().unwrap().barrier_fds[t] = Some(c);
            notifiers.push(n);
        }
        let n = notifiers.len();
        Ok(Fx { daemon: Some(daemon), be, peer: None, barrier_notifiers: notifiers, barrier_fired: vec![0; n], path: sock_path() })
    }

    /// bind a listener, connect the harness end, let the daemon accept and start serving
    pub fn connect(&mut self) -> Result<(), String> {
        self.path = sock_path();
        let _ = std::fs::remove_file(&self.path);
        let mut listener = Listener::new(&self.path, true).map_err(|e| format!("listener: {e}"))?;
        let peer = UnixStream::connect(&self.path).map_err(|e| format!("connect: {e}"))?;
        self.daemon.as_mut().unwrap().start(&mut listener).map_err(|e| format!("start: {e}"))?;
        self.peer = Some(peer);
        Ok(())
    }

    /// after the daemon thread ended (request error / disconnect): reap it and serve a new connection
    pub fn reconnect(&mut self) -> Result<(), String> {
        self.peer.take();
        let _ = self.daemon.as_mut().unwrap().wait();
        let _ = std::fs::remove_file(&self.path);
        self.connect()
    }

    pub fn frontend(&self, max_queues: u64) -> Frontend {
        let dup = self.peer.as_ref().expect("connected").try_clone().expect("dup");
        Frontend::from_stream(dup, max_queues)
    }

    /// one barrier round on every worker: fire and wait until the worker handled it
    pub fn barrier_once(&mut self) -> Result<(), String> {
        for (t, n) in self.barrier_notifiers.iter().enumerate() {
            n.notify().map_err(|e| format!("barrier notify: {e}"))?;
            self.barrier_fired[t] += 1;
        }
        let deadline = Instant::now() + Duration::from_secs(10);
        let mut g = self.be.st.lock().unwrap();
        loop {
            let done = self
                .be
                .barrier_done
                .iter()
                .zip(self.barrier_fired.iter())
                .all(|(d, f)| d.load(Ordering::SeqCst) >= *f);
            if done {
                return Ok(());
            }
            let now = Instant::now();
            if now >= deadline {
                return Err("worker thread does not answer the barrier (dead or stuck)".into());
            }
            let (g2, _) = self.be.cv.wait_timeout(g, Duration::from_millis(50)).unwrap();
            g = g2;
        }
    }

    /// double barrier: everything that was dispatchable before the call has been dispatched after it
    pub fn barrier(&mut self) -> Result<(), String> {
        self.barrier_once()?;
        self.barrier_once()
    }

    /// orderly teardown: close the harness end, wait for the daemon thread
    pub fn teardown(mut self) {
        self.peer.take();
        if let Some(mut d) = self.daemon.take() {
            let _ = d.wait();
            drop(d);
            reap_exit_consumers(&self.be);
        }
        let _ = std::fs::remove_file(&self.path);
    }
}

/// (state letter, name) of every thread of this process
pub fn thread_states() -> Vec<(char, String)> {
    let mut v = Vec::new();
    if let Ok(rd) = std::fs::read_dir("/proc/self/task") {
        for e in rd.flatten() {
            if let Ok(stat) = std::fs::read_to_string(e.path().join("stat")) {
                // pid (comm) S ...
                if let (Some(a), Some(b)) = (stat.find('('), stat.rfind(')')) {
                    let name = stat[a + 1..b].to_string();
                    let st = stat[b + 1..].trim_start().chars().next().unwrap_or('?');
                    v.push((st, name));
                }
            }
        }
    }
    v
}

impl<V: VringT<GM> + Clone + Send + Sync + 'static> Fx<V> {
    /// Teardown that cannot hang the harness: the drop runs in a helper thread.  Err(..) when the
    /// drop has not completed after `secs` seconds while every worker thread is asleep (a worker
    /// that does not take its exit event); the helper thread is leaked in that case.
    pub fn teardown_checked(self, secs: u64) -> Result<(), String> {
        let h = std::thread::Builder::new().name("fx_teardown".into()).spawn(move || self.teardown()).map_err(|e| e.to_string())?;
        let deadline = Instant::now() + Duration::from_secs(secs);
        while !h.is_finished() {
            if Instant::now() > deadline {
                let ts = thread_states();
                let workers: Vec<_> = ts.iter().filter(|(_, n)| n.starts_with("vring_worker")).collect();
                return Err(format!(
                    "dropping the daemon did not complete within {secs}s; worker threads still present: {:?}",
                    workers
                ));
            }
            std::thread::sleep(Duration::from_millis(1));
        }
        let _ = h.join();
        Ok(())
    }
}

/// close the exit-event consumers the (dropped) daemon left open (see `Be::exit_consumers`)
pub fn reap_exit_consumers<V>(be: &Be<V>) -> usize {
    let mut n = 0;
    for (fd, id) in be.exit_consumers.lock().unwrap().drain(..) {
        if crate::fdtrack::file_id(fd) == Some(id) {
            unsafe { libc::close(fd) };
            n += 1;
        }
    }
    n
}

impl<V: VringT<GM> + Clone + Send + Sync + 'static> Drop for Fx<V> {
    fn drop(&mut self) {
        self.peer.take();
        if let Some(mut d) = self.daemon.take() {
            // other duplicates of the harness end may still be open: make sure the daemon thread ends
            d.request_shutdown();
            // a daemon thread that is deadlocked (which the check that owns this fixture has already reported, or will
            // report as a request that is never answered) must not hang the harness as well: wait in a helper, give up
            // after a few seconds and leave the stuck threads behind
            let h = std::thread::Builder::new().name("fx_drop".into()).spawn(move || {
                let _ = d.wait();
                drop(d);
            });
            if let Ok(h) = h {
                let t0 = Instant::now();
                while !h.is_finished() && t0.elapsed() < Duration::from_secs(8) {
                    std::thread::sleep(Duration::from_millis(1));
                }
                if h.is_finished() {
                    let _ = h.join();
                    reap_exit_consumers(&self.be);
                }
            }
        }
        let _ = std::fs::remove_file(&self.path);
    }
}

/// a fresh non-blocking eventfd as (owned fd for the harness, EventFd view for the Frontend API)
pub fn new_eventfd() -> vmm_sys_util::eventfd::EventFd {
    vmm_sys_util::eventfd::EventFd::new(libc::EFD_NONBLOCK).expect("eventfd")
}

pub fn dup_fd(fd: RawFd) -> OwnedFd {
    let n = unsafe { libc::fcntl(fd, libc::F_DUPFD_CLOEXEC, 3) };
    assert!(n >= 0, "dup");
    unsafe { OwnedFd::from_raw_fd(n) }
}

// ------------------------------------------------------------------ reconnecting raw session

use crate::rawclient::{RawClient, RcErr};
use crate::spec;

/// A raw client session on a fixture that survives refused requests: the daemon ends a connection
/// on any request error, so after a refusal the harness reconnects to the same daemon (whose
/// device state persists) and re-negotiates.
pub struct Sess<V: VringT<GM> + Clone + Send + Sync + 'static> {
    pub fx: Fx<V>,
    pub cl: RawClient,
    /// protocol features to acknowledge on (re)connect (None: everything offered)
    pub ack_pf: Option<u64>,
    pub reconnects: usize,
}

impl<V: VringT<GM> + Clone + Send + Sync + 'static> Sess<V> {
    pub fn open(mut fx: Fx<V>, ack_pf: Option<u64>) -> Result<Self, String> {
        fx.connect()?;
        let cl = RawClient::new(fx.peer.as_ref().unwrap().try_clone().unwrap());
        let mut s = Sess { fx, cl, ack_pf, reconnects: 0 };
        s.negotiate_pf().map_err(|e| format!("negotiation: {e}"))?;
        Ok(s)
    }
    /// GET_FEATURES, GET_PROTOCOL_FEATURES, SET_PROTOCOL_FEATURES (no SET_FEATURES)
    pub fn negotiate_pf(&mut self) -> Result<(u64, u64), RcErr> {
        let (b, _) = self.cl.get(spec::fe::GET_FEATURES, &[], &[])?;
        let feats = spec::rd_u64(&b, 0);
        let (b, _) = self.cl.get(spec::fe::GET_PROTOCOL_FEATURES, &[], &[])?;
        let pf = spec::rd_u64(&b, 0);
        let ack = self.ack_pf.unwrap_or(pf) | (1 << spec::pf::REPLY_ACK);
        self.cl.send(spec::fe::SET_PROTOCOL_FEATURES, false, &spec::b_u64(ack), &[])?;
        Ok((feats, pf))
    }
    pub fn reconnect(&mut self) -> Result<(), String> {
        self.fx.reconnect()?;
        self.cl = RawClient::new(self.fx.peer.as_ref().unwrap().try_clone().unwrap());
        self.reconnects += 1;
        self.negotiate_pf().map(|_| ()).map_err(|e| format!("re-negotiation after reconnect: {e}"))
    }
    /// request with NEED_REPLY; Ok(true) accepted, Ok(false) refused (connection is renewed)
    pub fn acked(&mut self, code: u32, body: &[u8], fds: &[RawFd]) -> Result<bool, String> {
        match self.cl.ack(code, body, fds) {
            Ok(0) => Ok(true),
            Ok(_) | Err(RcErr::Closed) => {
                self.reconnect()?;
                Ok(false)
            }
            Err(e) => Err(format!("request {code}: {e}")),
        }
    }
    /// reply-bearing request; Ok(None) when the daemon refused (connection is renewed)
    pub fn get(&mut self, code: u32, body: &[u8], fds: &[RawFd]) -> Result<Option<(Vec<u8>, Vec<OwnedFd>)>, String> {
        match self.cl.get(code, body, fds) {
            Ok(r) => Ok(Some(r)),
            Err(RcErr::Closed) => {
                self.reconnect()?;
                Ok(None)
            }
            Err(e) => Err(format!("request {code}: {e}")),
        }
    }
    pub fn close(self) {
        let Sess { fx, cl, .. } = self;
        drop(cl);
        fx.teardown();
    }
}

// ------------------------------------------------------------------ a ring type with hold points at every lock acquisition

/// `VringRwLock` with a hold point ("vring.lock") right before every acquisition of the ring's lock: lets the harness
/// park the control thread (or the worker) between two lock acquisitions, e.g. while it still holds an earlier guard.
#[derive(Clone)]
pub struct HookVring(pub VRw);

impl<'a> vhost_user_backend::VringStateGuard<'a, GM> for HookVring {
    type G = std::sync::RwLockReadGuard<'a, vhost_user_backend::VringState<GM>>;
}
impl<'a> vhost_user_backend::VringStateMutGuard<'a, GM> for HookVring {
    type G = std::sync::RwLockWriteGuard<'a, vhost_user_backend::VringState<GM>>;
}

fn vl() {
    vhost::vhost_user::verif::hold("vring.lock");
}

impl VringT<GM> for HookVring {
    fn new(mem: GM, max_queue_size: u16) -> Result<Self, virtio_queue::Error> {
        Ok(HookVring(VRw::new(mem, max_queue_size)?))
    }
    fn get_ref(&self) -> std::sync::RwLockReadGuard<'_, vhost_user_backend::VringState<GM>> {
        vl();
        self.0.get_ref()
    }
    fn get_mut(&self) -> std::sync::RwLockWriteGuard<'_, vhost_user_backend::VringState<GM>> {
        vl();
        self.0.get_mut()
    }
    fn add_used(&self, desc_index: u16, len: u32) -> Result<(), virtio_queue::Error> {
        vl();
        self.0.add_used(desc_index, len)
    }
    fn signal_used_queue(&self) -> std::io::Result<()> {
        vl();
        self.0.signal_used_queue()
    }
    fn enable_notification(&self) -> Result<bool, virtio_queue::Error> {
        vl();
        self.0.enable_notification()
    }
    fn disable_notification(&self) -> Result<(), virtio_queue::Error> {
        vl();
        self.0.disable_notification()
    }
    fn needs_notification(&self) -> Result<bool, virtio_queue::Error> {
        vl();
        self.0.needs_notification()
    }
    fn set_enabled(&self, enabled: bool) {
        vl();
        self.0.set_enabled(enabled)
    }
    fn set_queue_info(&self, desc_table: u64, avail_ring: u64, used_ring: u64) -> Result<(), virtio_queue::Error> {
        vl();
        self.0.set_queue_info(desc_table, avail_ring, used_ring)
    }
    fn queue_next_avail(&self) -> u16 {
        vl();
        self.0.queue_next_avail()
    }
    fn set_queue_next_avail(&self, base: u16) {
        vl();
        self.0.set_queue_next_avail(base)
    }
    fn set_queue_next_used(&self, idx: u16) {
        vl();
        self.0.set_queue_next_used(idx)
    }
    fn queue_used_idx(&self) -> Result<u16, virtio_queue::Error> {
        vl();
        self.0.queue_used_idx()
    }
    fn set_queue_size(&self, num: u16) {
        vl();
        self.0.set_queue_size(num)
    }
    fn set_queue_event_idx(&self, enabled: bool) {
        vl();
        self.0.set_queue_event_idx(enabled)
    }
    fn set_queue_ready(&self, ready: bool) {
        vl();
        self.0.set_queue_ready(ready)
    }
    fn set_kick(&self, file: Option<std::fs::File>) {
        vl();
        self.0.set_kick(file)
    }
    fn read_kick(&self) -> std::io::Result<bool> {
        vl();
        self.0.read_kick()
    }
    fn set_call(&self, file: Option<std::fs::File>) {
        vl();
        self.0.set_call(file)
    }
    fn set_err(&self, file: Option<std::fs::File>) {
        vl();
        self.0.set_err(file)
    }
}
