//! Recording / scripted implementation of the back-end request handler (used through the
//! library's `Mutex<T: VhostUserBackendReqHandlerMut>` adapter) and of the front-end handler for
//! back-end initiated requests.

use std::collections::VecDeque;
use std::fs::File;
use std::os::unix::io::AsRawFd;

use serde::{Deserialize, Serialize};
use vhost::vhost_user::message::*;
use vhost::vhost_user::{
    Backend, Error, GpuBackend, HandlerResult, Result, VhostUserBackendReqHandlerMut, VhostUserFrontendReqHandlerMut,
};

use crate::fdtrack::{file_id, make_fd, FdKind, FileId};

/// what the handler was invoked with (scalars, bytes and descriptor identities)
#[derive(Clone, Debug, PartialEq, Eq, Serialize, Deserialize)]
pub enum Call {
    SetOwner,
    ResetOwner,
    ResetDevice,
    GetFeatures,
    SetFeatures(u64),
    SetMemTable(Vec<[u64; 4]>, Vec<FileId>),
    SetVringNum(u32, u32),
    SetVringAddr { index: u32, flags: u32, desc: u64, used: u64, avail: u64, log: u64 },
    SetVringBase(u32, u32),
    GetVringBase(u32),
    SetVringKick(u8, Option<FileId>),
    SetVringCall(u8, Option<FileId>),
    SetVringErr(u8, Option<FileId>),
    GetProtocolFeatures,
    SetProtocolFeatures(u64),
    GetQueueNum,
    SetVringEnable(u32, bool),
    GetConfig(u32, u32, u32),
    SetConfig(u32, Vec<u8>, u32),
    SetBackendReqFd(FileId),
    SetGpuSocket(FileId),
    GetSharedObject([u8; 16]),
    GetInflightFd([u64; 4]),
    SetInflightFd([u64; 4], FileId),
    GetMaxMemSlots,
    AddMemRegion([u64; 4], FileId),
    RemoveMemRegion([u64; 4]),
    SetDeviceStateFd(u32, u32, FileId),
    CheckDeviceState,
    GetShmemConfig,
    PostcopyAdvise,
    PostcopyListen,
    PostcopyEnd,
    SetLogBase(u64, u64, FileId),
}

impl Call {
    pub fn name(&self) -> &'static str {
        match self {
            Call::SetOwner => "set_owner",
            Call::ResetOwner => "reset_owner",
            Call::ResetDevice => "reset_device",
            Call::GetFeatures => "get_features",
            Call::SetFeatures(..) => "set_features",
            Call::SetMemTable(..) => "set_mem_table",
            Call::SetVringNum(..) => "set_vring_num",
            Call::SetVringAddr { .. } => "set_vring_addr",
            Call::SetVringBase(..) => "set_vring_base",
            Call::GetVringBase(..) => "get_vring_base",
            Call::SetVringKick(..) => "set_vring_kick",
            Call::SetVringCall(..) => "set_vring_call",
            Call::SetVringErr(..) => "set_vring_err",
            Call::GetProtocolFeatures => "get_protocol_features",
            Call::SetProtocolFeatures(..) => "set_protocol_features",
            Call::GetQueueNum => "get_queue_num",
            Call::SetVringEnable(..) => "set_vring_enable",
            Call::GetConfig(..) => "get_config",
            Call::SetConfig(..) => "set_config",
            Call::SetBackendReqFd(..) => "set_backend_req_fd",
            Call::SetGpuSocket(..) => "set_gpu_socket",
            Call::GetSharedObject(..) => "get_shared_object",
            Call::GetInflightFd(..) => "get_inflight_fd",
            Call::SetInflightFd(..) => "set_inflight_fd",
            Call::GetMaxMemSlots => "get_max_mem_slots",
            Call::AddMemRegion(..) => "add_mem_region",
            Call::RemoveMemRegion(..) => "remove_mem_region",
            Call::SetDeviceStateFd(..) => "set_device_state_fd",
            Call::CheckDeviceState => "check_device_state",
            Call::GetShmemConfig => "get_shmem_config",
            Call::PostcopyAdvise => "postcopy_advise",
            Call::PostcopyListen => "postcopy_listen",
            Call::PostcopyEnd => "postcopy_end",
            Call::SetLogBase(..) => "set_log_base",
        }
    }
}

/// scripted result of one handler invocation
#[derive(Clone, Debug, Default, PartialEq, Eq, Hash, Serialize, Deserialize)]
pub struct Outcome {
    /// Some(k): fail with error variant k (see `mk_err`)
    pub fail: Option<u8>,
    /// value for u64-returning operations (None: the handler's configured default)
    pub val: Option<u64>,
    /// second value (vring state num, inflight fields ...)
    pub val2: u64,
    /// config bytes to return (None: exactly the requested size, patterned)
    pub bytes: Option<Vec<u8>>,
    /// for operations returning an optional/required file: return one?
    pub file: bool,
}

pub const N_ERR_KINDS: u8 = 16;

pub fn mk_err(k: u8) -> Error {
    match k % N_ERR_KINDS {
        0 => Error::InvalidParam,
        1 => Error::InvalidOperation("scripted"),
        2 => Error::InactiveFeature(VhostUserVirtioFeatures::PROTOCOL_FEATURES),
        3 => Error::InactiveOperation(VhostUserProtocolFeatures::MQ),
        4 => Error::InvalidMessage,
        5 => Error::PartialMessage,
        6 => Error::Disconnected,
        7 => Error::OversizedMsg,
        8 => Error::IncorrectFds,
        9 => Error::SocketError(std::io::Error::from_raw_os_error(libc::EIO)),
        10 => Error::SocketBroken(std::io::Error::from_raw_os_error(libc::EPIPE)),
        11 => Error::SocketRetry(std::io::Error::from_raw_os_error(libc::EAGAIN)),
        12 => Error::BackendInternalError,
        13 => Error::FrontendInternalError,
        14 => Error::FeatureMismatch,
        _ => Error::ReqHandlerError(std::io::Error::other("scripted")),
    }
}

pub struct Rec {
    pub log: Vec<Call>,
    pub script: VecDeque<Outcome>,
    /// outcomes actually consumed, parallel to `log`
    pub used: Vec<Outcome>,
    /// identity of files returned to the library, parallel to `log` (None if none)
    pub returned: Vec<Option<FileId>>,
    pub features: u64,
    pub pfeatures: u64,
    pub queue_num: u64,
    /// files received by value (kept so that identities stay comparable; dropped by the harness)
    pub held: Vec<File>,
    pub backends: Vec<Backend>,
    pub gpu_backends: Vec<GpuBackend>,
    /// when false, received files are dropped at once instead of being held
    pub hold_files: bool,
    /// hook invoked on every handler entry (C10/C16 use it to block inside the handler)
    pub on_entry: Option<Box<dyn FnMut(&Call) + Send>>,
    pub fd_kind: FdKind,
}

impl Rec {
    pub fn new(features: u64, pfeatures: u64) -> Self {
        Rec {
            log: Vec::new(),
            script: VecDeque::new(),
            used: Vec::new(),
            returned: Vec::new(),
            features,
            pfeatures,
            queue_num: 2,
            held: Vec::new(),
            backends: Vec::new(),
            gpu_backends: Vec::new(),
            hold_files: true,
            on_entry: None,
            fd_kind: FdKind::Memfd,
        }
    }

    fn enter(&mut self, c: Call) -> Outcome {
        if let Some(f) = self.on_entry.as_mut() {
            f(&c);
        }
        self.log.push(c);
        let o = self.script.pop_front().unwrap_or_default();
        self.used.push(o.clone());
        self.returned.push(None);
        o
    }

    fn keep(&mut self, f: File) -> FileId {
        let id = file_id(f.as_raw_fd()).expect("fstat received file");
        if self.hold_files {
            self.held.push(f);
        }
        id
    }
    fn keep_opt(&mut self, f: Option<File>) -> Option<FileId> {
        f.map(|f| self.keep(f))
    }

    fn unit(o: &Outcome) -> Result<()> {
        match o.fail {
            Some(k) => Err(mk_err(k)),
            None => Ok(()),
        }
    }

    fn fresh_file(&mut self) -> File {
        let f = File::from(make_fd(self.fd_kind));
        let id = file_id(f.as_raw_fd());
        if let Some(last) = self.returned.last_mut() {
            *last = id;
        }
        f
    }
}

fn reg4(r: &VhostUserMemoryRegion) -> [u64; 4] {
    [r.guest_phys_addr, r.memory_size, r.user_addr, r.mmap_offset]
}
fn inf4(i: &VhostUserInflight) -> [u64; 4] {
    [i.mmap_size, i.mmap_offset, i.num_queues as u64, i.queue_size as u64]
}

/// the patterned config bytes returned by default for (offset, size)
pub fn config_pattern(offset: u32, size: u32) -> Vec<u8> {
    (0..size).map(|i| (offset.wrapping_add(i).wrapping_mul(31) ^ 0x5a) as u8).collect()
}

impl VhostUserBackendReqHandlerMut for Rec {
    fn set_owner(&mut self) -> Result<()> {
        let o = self.enter(Call::SetOwner);
        Self::unit(&o)
    }
    fn reset_owner(&mut self) -> Result<()> {
        let o = self.enter(Call::ResetOwner);
        Self::unit(&o)
    }
    fn reset_device(&mut self) -> Result<()> {
        let o = self.enter(Call::ResetDevice);
        Self::unit(&o)
    }
    fn get_features(&mut self) -> Result<u64> {
        let o = self.enter(Call::GetFeatures);
        Self::unit(&o)?;
        Ok(o.val.unwrap_or(self.features))
    }
    fn set_features(&mut self, features: u64) -> Result<()> {
        let o = self.enter(Call::SetFeatures(features));
        Self::unit(&o)
    }
    fn set_mem_table(&mut self, ctx: &[VhostUserMemoryRegion], files: Vec<File>) -> Result<()> {
        let ids: Vec<FileId> = files.into_iter().map(|f| self.keep(f)).collect();
        let o = self.enter(Call::SetMemTable(ctx.iter().map(reg4).collect(), ids));
        Self::unit(&o)
    }
    fn set_vring_num(&mut self, index: u32, num: u32) -> Result<()> {
        let o = self.enter(Call::SetVringNum(index, num));
        Self::unit(&o)
    }
    fn set_vring_addr(
        &mut self,
        index: u32,
        flags: VhostUserVringAddrFlags,
        descriptor: u64,
        used: u64,
        available: u64,
        log: u64,
    ) -> Result<()> {
        let o = self.enter(Call::SetVringAddr { index, flags: flags.bits(), desc: descriptor, used, avail: available, log });
        Self::unit(&o)
    }
    fn set_vring_base(&mut self, index: u32, base: u32) -> Result<()> {
        let o = self.enter(Call::SetVringBase(index, base));
        Self::unit(&o)
    }
    fn get_vring_base(&mut self, index: u32) -> Result<VhostUserVringState> {
        let o = self.enter(Call::GetVringBase(index));
        Self::unit(&o)?;
        Ok(VhostUserVringState::new(o.val.map(|v| v as u32).unwrap_or(index), o.val2 as u32))
    }
    fn set_vring_kick(&mut self, index: u8, fd: Option<File>) -> Result<()> {
        let id = self.keep_opt(fd);
        let o = self.enter(Call::SetVringKick(index, id));
        Self::unit(&o)
    }
    fn set_vring_call(&mut self, index: u8, fd: Option<File>) -> Result<()> {
        let id = self.keep_opt(fd);
        let o = self.enter(Call::SetVringCall(index, id));
        Self::unit(&o)
    }
    fn set_vring_err(&mut self, index: u8, fd: Option<File>) -> Result<()> {
        let id = self.keep_opt(fd);
        let o = self.enter(Call::SetVringErr(index, id));
        Self::unit(&o)
    }
    fn get_protocol_features(&mut self) -> Result<VhostUserProtocolFeatures> {
        let o = self.enter(Call::GetProtocolFeatures);
        Self::unit(&o)?;
        Ok(VhostUserProtocolFeatures::from_bits_retain(o.val.unwrap_or(self.pfeatures)))
    }
    fn set_protocol_features(&mut self, features: u64) -> Result<()> {
        let o = self.enter(Call::SetProtocolFeatures(features));
        Self::unit(&o)
    }
    fn get_queue_num(&mut self) -> Result<u64> {
        let o = self.enter(Call::GetQueueNum);
        Self::unit(&o)?;
        Ok(o.val.unwrap_or(self.queue_num))
    }
    fn set_vring_enable(&mut self, index: u32, enable: bool) -> Result<()> {
        let o = self.enter(Call::SetVringEnable(index, enable));
        Self::unit(&o)
    }
    fn get_config(&mut self, offset: u32, size: u32, flags: VhostUserConfigFlags) -> Result<Vec<u8>> {
        let o = self.enter(Call::GetConfig(offset, size, flags.bits()));
        Self::unit(&o)?;
        Ok(o.bytes.clone().unwrap_or_else(|| config_pattern(offset, size)))
    }
    fn set_config(&mut self, offset: u32, buf: &[u8], flags: VhostUserConfigFlags) -> Result<()> {
        let o = self.enter(Call::SetConfig(offset, buf.to_vec(), flags.bits()));
        Self::unit(&o)
    }
    fn set_backend_req_fd(&mut self, backend: Backend) {
        // the proxy does not expose its descriptor: identity is taken by the caller from /proc
        self.enter(Call::SetBackendReqFd(FileId { dev: 0, ino: 0, evid: -1 }));
        self.backends.push(backend);
    }
    fn set_gpu_socket(&mut self, gpu_backend: GpuBackend) -> Result<()> {
        let o = self.enter(Call::SetGpuSocket(FileId { dev: 0, ino: 0, evid: -1 }));
        self.gpu_backends.push(gpu_backend);
        Self::unit(&o)
    }
    fn get_shared_object(&mut self, uuid: VhostUserSharedMsg) -> Result<File> {
        let o = self.enter(Call::GetSharedObject(*uuid.uuid.as_bytes()));
        Self::unit(&o)?;
        Ok(self.fresh_file())
    }
    fn get_inflight_fd(&mut self, inflight: &VhostUserInflight) -> Result<(VhostUserInflight, File)> {
        let o = self.enter(Call::GetInflightFd(inf4(inflight)));
        Self::unit(&o)?;
        let reply = VhostUserInflight::new(
            o.val.unwrap_or(inflight.mmap_size),
            o.val2,
            inflight.num_queues,
            inflight.queue_size,
        );
        Ok((reply, self.fresh_file()))
    }
    fn set_inflight_fd(&mut self, inflight: &VhostUserInflight, file: File) -> Result<()> {
        let id = self.keep(file);
        let o = self.enter(Call::SetInflightFd(inf4(inflight), id));
        Self::unit(&o)
    }
    fn get_max_mem_slots(&mut self) -> Result<u64> {
        let o = self.enter(Call::GetMaxMemSlots);
        Self::unit(&o)?;
        Ok(o.val.unwrap_or(32))
    }
    fn add_mem_region(&mut self, region: &VhostUserSingleMemoryRegion, fd: File) -> Result<()> {
        let id = self.keep(fd);
        let o = self.enter(Call::AddMemRegion(reg4(region), id));
        Self::unit(&o)
    }
    fn remove_mem_region(&mut self, region: &VhostUserSingleMemoryRegion) -> Result<()> {
        let o = self.enter(Call::RemoveMemRegion(reg4(region)));
        Self::unit(&o)
    }
    fn set_device_state_fd(
        &mut self,
        direction: VhostTransferStateDirection,
        phase: VhostTransferStatePhase,
        fd: File,
    ) -> Result<Option<File>> {
        let id = self.keep(fd);
        let o = self.enter(Call::SetDeviceStateFd(direction as u32, phase as u32, id));
        Self::unit(&o)?;
        if o.file {
            Ok(Some(self.fresh_file()))
        } else {
            Ok(None)
        }
    }
    fn check_device_state(&mut self) -> Result<()> {
        let o = self.enter(Call::CheckDeviceState);
        Self::unit(&o)
    }
    fn get_shmem_config(&mut self) -> Result<VhostUserShMemConfig> {
        let o = self.enter(Call::GetShmemConfig);
        Self::unit(&o)?;
        let n = o.val.unwrap_or(3);
        let sizes: Vec<u64> = (0..256u64).map(|i| o.val2.wrapping_mul(i + 1)).collect();
        Ok(VhostUserShMemConfig::new(n as u32, &sizes))
    }
    #[cfg(feature = "postcopy")]
    fn postcopy_advice(&mut self) -> Result<File> {
        let o = self.enter(Call::PostcopyAdvise);
        Self::unit(&o)?;
        Ok(self.fresh_file())
    }
    #[cfg(feature = "postcopy")]
    fn postcopy_listen(&mut self) -> Result<()> {
        let o = self.enter(Call::PostcopyListen);
        Self::unit(&o)
    }
    #[cfg(feature = "postcopy")]
    fn postcopy_end(&mut self) -> Result<()> {
        let o = self.enter(Call::PostcopyEnd);
        Self::unit(&o)
    }
    fn set_log_base(&mut self, log: &VhostUserLog, file: File) -> Result<()> {
        let id = self.keep(file);
        let o = self.enter(Call::SetLogBase(log.mmap_size, log.mmap_offset, id));
        Self::unit(&o)
    }
}

// ------------------------------------------------------------------ front-end side handler

#[derive(Clone, Debug, PartialEq, Eq, Serialize, Deserialize)]
pub enum FeCall {
    ConfigChange,
    SharedObjectAdd([u8; 16]),
    SharedObjectRemove([u8; 16]),
    SharedObjectLookup([u8; 16], FileId),
    ShmemMap([u64; 5], FileId),
    ShmemUnmap([u64; 5]),
}

/// scripted result of the front-end handler
#[derive(Clone, Debug, PartialEq, Eq, Hash, Serialize, Deserialize)]
pub enum FeOutcome {
    Ok(u64),
    /// io::Error::from_raw_os_error(n)
    Errno(i32),
    /// io::Error without OS error code
    Other,
}

impl Default for FeOutcome {
    fn default() -> Self {
        FeOutcome::Ok(0)
    }
}

pub struct FeRec {
    pub log: Vec<FeCall>,
    pub script: VecDeque<FeOutcome>,
    /// raw fd numbers lent to the handler (to check they are closed after the call)
    pub lent: Vec<i32>,
}

impl FeRec {
    pub fn new() -> Self {
        FeRec { log: Vec::new(), script: VecDeque::new(), lent: Vec::new() }
    }
    fn result(&mut self) -> HandlerResult<u64> {
        match self.script.pop_front().unwrap_or_default() {
            FeOutcome::Ok(v) => Ok(v),
            FeOutcome::Errno(e) => Err(std::io::Error::from_raw_os_error(e)),
            FeOutcome::Other => Err(std::io::Error::other("scripted failure without errno")),
        }
    }
}

fn mmap5(m: &VhostUserMMap) -> [u64; 5] {
    [m.shmid as u64, m.fd_offset, m.shm_offset, m.len, m.flags]
}

impl VhostUserFrontendReqHandlerMut for FeRec {
    fn handle_config_change(&mut self) -> HandlerResult<u64> {
        self.log.push(FeCall::ConfigChange);
        self.result()
    }
    fn shared_object_add(&mut self, uuid: &VhostUserSharedMsg) -> HandlerResult<u64> {
        self.log.push(FeCall::SharedObjectAdd(*uuid.uuid.as_bytes()));
        self.result()
    }
    fn shared_object_remove(&mut self, uuid: &VhostUserSharedMsg) -> HandlerResult<u64> {
        self.log.push(FeCall::SharedObjectRemove(*uuid.uuid.as_bytes()));
        self.result()
    }
    fn shared_object_lookup(&mut self, uuid: &VhostUserSharedMsg, fd: &dyn AsRawFd) -> HandlerResult<u64> {
        let id = file_id(fd.as_raw_fd()).unwrap_or(FileId { dev: 0, ino: 0, evid: -2 });
        self.lent.push(fd.as_raw_fd());
        self.log.push(FeCall::SharedObjectLookup(*uuid.uuid.as_bytes(), id));
        self.result()
    }
    fn shmem_map(&mut self, req: &VhostUserMMap, fd: &dyn AsRawFd) -> HandlerResult<u64> {
        let id = file_id(fd.as_raw_fd()).unwrap_or(FileId { dev: 0, ino: 0, evid: -2 });
        self.lent.push(fd.as_raw_fd());
        self.log.push(FeCall::ShmemMap(mmap5(req), id));
        self.result()
    }
    fn shmem_unmap(&mut self, req: &VhostUserMMap) -> HandlerResult<u64> {
        self.log.push(FeCall::ShmemUnmap(mmap5(req)));
        self.result()
    }
}
