//! vverif library: shared machinery of the property checks (see /verif/DESIGN.md).
//! The binary (src/main.rs) is the check driver; /verif/fuzz uses the same oracles from libFuzzer targets.

pub mod daemon_fx;
pub mod engine;
pub mod fdtrack;
pub mod feops;
pub mod fuzzing;
pub mod gen;
pub mod props;
pub mod rawclient;
pub mod rawpeer;
pub mod rec_backend;
pub mod refpred;
pub mod sched;
pub mod spec;
pub mod srv;
pub mod stream;

pub mod engine_panic {
    use std::sync::Mutex;
    pub static PANICS: Mutex<Vec<String>> = Mutex::new(Vec::new());
    pub fn record(info: &std::panic::PanicHookInfo<'_>) {
        let loc = info.location().map(|l| format!("{}:{}", l.file(), l.line())).unwrap_or_default();
        let msg = if let Some(s) = info.payload().downcast_ref::<&str>() {
            s.to_string()
        } else if let Some(s) = info.payload().downcast_ref::<String>() {
            s.clone()
        } else {
            "<non-string panic>".to_string()
        };
        let thread = std::thread::current().name().unwrap_or("?").to_string();
        if let Ok(mut g) = PANICS.lock() {
            g.push(format!("{loc}: {msg} [thread {thread}]"));
        }
    }
    /// take the panics recorded since the last call
    pub fn take() -> Vec<String> {
        PANICS.lock().map(|mut g| std::mem::take(&mut *g)).unwrap_or_default()
    }
}
