//! Shared generators: spec-well-formed request bodies for every front-end request code.

use proptest::prelude::*;
use proptest::strategy::BoxedStrategy;

use crate::engine::{lat32, lat64};
use crate::spec::{self, Body, Fds};

/// a region that satisfies the region rules (non-zero size, no wrap in any of the three ranges)
pub fn valid_region() -> impl Strategy<Value = [u64; 4]> {
    (lat64(), lat64(), lat64(), lat64()).prop_map(|(gpa, size, ua, off)| {
        let size = size.max(1);
        // clamp so that base + size <= 2^64 - 1
        let fit = |base: u64| if (base as u128 + size as u128) < (1u128 << 64) { base } else { u64::MAX - size };
        [fit(gpa), size, fit(ua), fit(off)]
    })
}

pub fn valid_uuid() -> impl Strategy<Value = [u8; 16]> {
    any::<[u8; 16]>().prop_map(|mut u| {
        if u.iter().all(|b| *b == 0) || u.iter().all(|b| *b == 0xff) {
            u[7] = 0x42;
        }
        u
    })
}

/// (offset, size) inside the config window [0, 0x1000), size >= 1, and small enough that the
/// whole message (12-byte config header + payload) respects the 4096-byte message bound
pub const MAX_CONFIG_PAYLOAD: u32 = 4096 - 12;
pub fn config_window() -> impl Strategy<Value = (u32, u32)> {
    prop_oneof![
        (0u32..0x1000).prop_flat_map(|off| (Just(off), 1u32..=(0x1000 - off).min(MAX_CONFIG_PAYLOAD))),
        Just((0u32, MAX_CONFIG_PAYLOAD)),
        Just((12u32, MAX_CONFIG_PAYLOAD)),
        Just((0xfffu32, 1u32)),
        Just((0x100u32, 8u32)),
        (0u32..0x1000).prop_map(|off| (off, 1)),
    ]
}

/// Well-formed body + number of descriptors for a request code (per the spec table).
pub fn wellformed_body(code: u32) -> BoxedStrategy<(Vec<u8>, usize)> {
    let s = spec::fe_req(code).expect("code in table");
    let nfds_fixed = match s.fds {
        Fds::None => 0,
        Fds::One => 1,
        _ => 0,
    };
    match s.body {
        Body::Empty => Just((Vec::new(), nfds_fixed)).boxed(),
        Body::U64 => {
            if code == spec::fe::SET_FEATURES {
                (lat64(), any::<bool>())
                    .prop_map(|(v, pf)| {
                        let v = if pf { v | spec::VIRTIO_F_PROTOCOL_FEATURES } else { v & !spec::VIRTIO_F_PROTOCOL_FEATURES };
                        (spec::b_u64(v), 0)
                    })
                    .boxed()
            } else if code == spec::fe::SET_PROTOCOL_FEATURES {
                (any::<u64>(), any::<bool>(), 0u8..4)
                    .prop_map(|(v, ack, dens)| {
                        // dense / sparse masks, REPLY_ACK chosen independently
                        let v = match dens {
                            0 => 0,
                            1 => v & 0x3f_ffff,
                            2 => 0x3f_ffff,
                            _ => v,
                        };
                        let v = if ack { v | 8 } else { v & !8 };
                        (spec::b_u64(v), 0)
                    })
                    .boxed()
            } else {
                lat64().prop_map(|v| (spec::b_u64(v), 0)).boxed()
            }
        }
        Body::VringState => {
            if code == spec::fe::SET_VRING_ENABLE {
                (lat32(), 0u32..2).prop_map(|(i, n)| (spec::b_vring_state(i, n), 0)).boxed()
            } else {
                (lat32(), lat32()).prop_map(|(i, n)| (spec::b_vring_state(i, n), 0)).boxed()
            }
        }
        Body::VringAddr => (lat32(), 0u32..2, lat64(), lat64(), lat64(), lat64())
            .prop_map(|(i, f, d, u, a, l)| (spec::b_vring_addr(i, f, d & !0xf, u & !0x3, a & !0x1, l), 0))
            .boxed(),
        Body::MemTable => proptest::collection::vec(valid_region(), 1..=4)
            .prop_map(|rs| {
                let n = rs.len();
                (spec::b_mem_table(&rs), n)
            })
            .boxed(),
        Body::Log => (lat64(), lat64())
            .prop_map(|(size, off)| {
                let size = size.max(1);
                let off = if (off as u128 + size as u128) < (1u128 << 64) { off } else { u64::MAX - size };
                (spec::b_log(size, off), 1)
            })
            .boxed(),
        Body::Config => (config_window(), 0u32..4, any::<u8>())
            .prop_map(|((off, size), flags, fill)| {
                let payload: Vec<u8> = (0..size).map(|i| fill.wrapping_add(i as u8)).collect();
                (spec::b_config(off, size, flags, &payload), 0)
            })
            .boxed(),
        Body::Inflight => (lat64(), lat64(), 1u16..=u16::MAX, 1u16..=u16::MAX)
            .prop_map(move |(ms, mo, nq, qs)| (spec::b_inflight(ms.max(1), mo, nq, qs), nfds_fixed))
            .boxed(),
        Body::Single => valid_region().prop_map(move |r| (spec::b_single_region(&r), nfds_fixed)).boxed(),
        Body::Uuid => valid_uuid().prop_map(|u| (u.to_vec(), 0)).boxed(),
        Body::Xfer => (0u32..2).prop_map(|d| (spec::b_xfer(d, 0), 1)).boxed(),
        Body::VringFd => (any::<u8>(), any::<bool>())
            .prop_map(|(i, nofd)| (spec::b_u64(i as u64 | if nofd { 0x100 } else { 0 }), if nofd { 0 } else { 1 }))
            .boxed(),
        Body::Other => proptest::collection::vec(any::<u8>(), 0..64).prop_map(|b| (b, 0)).boxed(),
    }
}
