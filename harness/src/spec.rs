//! INDEPENDENT vhost-user / vhost-user-gpu codec: written from the specification
//! (docs/interop/vhost-user.rst, vhost-user-gpu.rst, libvhost-user) with explicit offsets and
//! literal numbers.  Nothing here imports from `vhost::vhost_user::message`.
//! The sandbox is offline; the table is transcribed from memory of the spec (trusted base).

pub const F_VERSION: u32 = 0x1;
pub const F_REPLY: u32 = 0x4;
pub const F_NEED_REPLY: u32 = 0x8;

/// VHOST_USER_F_PROTOCOL_FEATURES (virtio feature bit 30)
pub const VIRTIO_F_PROTOCOL_FEATURES: u64 = 1 << 30;

/// protocol feature bit numbers
pub mod pf {
    pub const MQ: u32 = 0;
    pub const LOG_SHMFD: u32 = 1;
    pub const RARP: u32 = 2;
    pub const REPLY_ACK: u32 = 3;
    pub const MTU: u32 = 4;
    pub const BACKEND_REQ: u32 = 5;
    pub const CROSS_ENDIAN: u32 = 6;
    pub const CRYPTO_SESSION: u32 = 7;
    pub const PAGEFAULT: u32 = 8;
    pub const CONFIG: u32 = 9;
    pub const BACKEND_SEND_FD: u32 = 10;
    pub const HOST_NOTIFIER: u32 = 11;
    pub const INFLIGHT_SHMFD: u32 = 12;
    pub const RESET_DEVICE: u32 = 13;
    pub const INBAND_NOTIFICATIONS: u32 = 14;
    pub const CONFIGURE_MEM_SLOTS: u32 = 15;
    pub const STATUS: u32 = 16;
    pub const XEN_MMAP: u32 = 17;
    pub const SHARED_OBJECT: u32 = 18;
    pub const DEVICE_STATE: u32 = 19;
    pub const GET_VRING_BASE_INFLIGHT: u32 = 20;
    pub const SHMEM: u32 = 21;
    pub const fn mask(bit: u32) -> u64 {
        1u64 << bit
    }
}

/// front-end request codes
pub mod fe {
    pub const GET_FEATURES: u32 = 1;
    pub const SET_FEATURES: u32 = 2;
    pub const SET_OWNER: u32 = 3;
    pub const RESET_OWNER: u32 = 4;
    pub const SET_MEM_TABLE: u32 = 5;
    pub const SET_LOG_BASE: u32 = 6;
    pub const SET_LOG_FD: u32 = 7;
    pub const SET_VRING_NUM: u32 = 8;
    pub const SET_VRING_ADDR: u32 = 9;
    pub const SET_VRING_BASE: u32 = 10;
    pub const GET_VRING_BASE: u32 = 11;
    pub const SET_VRING_KICK: u32 = 12;
    pub const SET_VRING_CALL: u32 = 13;
    pub const SET_VRING_ERR: u32 = 14;
    pub const GET_PROTOCOL_FEATURES: u32 = 15;
    pub const SET_PROTOCOL_FEATURES: u32 = 16;
    pub const GET_QUEUE_NUM: u32 = 17;
    pub const SET_VRING_ENABLE: u32 = 18;
    pub const SEND_RARP: u32 = 19;
    pub const NET_SET_MTU: u32 = 20;
    pub const SET_BACKEND_REQ_FD: u32 = 21;
    pub const IOTLB_MSG: u32 = 22;
    pub const SET_VRING_ENDIAN: u32 = 23;
    pub const GET_CONFIG: u32 = 24;
    pub const SET_CONFIG: u32 = 25;
    pub const CREATE_CRYPTO_SESSION: u32 = 26;
    pub const CLOSE_CRYPTO_SESSION: u32 = 27;
    pub const POSTCOPY_ADVISE: u32 = 28;
    pub const POSTCOPY_LISTEN: u32 = 29;
    pub const POSTCOPY_END: u32 = 30;
    pub const GET_INFLIGHT_FD: u32 = 31;
    pub const SET_INFLIGHT_FD: u32 = 32;
    pub const GPU_SET_SOCKET: u32 = 33;
    pub const RESET_DEVICE: u32 = 34;
    pub const VRING_KICK: u32 = 35;
    pub const GET_MAX_MEM_SLOTS: u32 = 36;
    pub const ADD_MEM_REG: u32 = 37;
    pub const REM_MEM_REG: u32 = 38;
    pub const SET_STATUS: u32 = 39;
    pub const GET_STATUS: u32 = 40;
    pub const GET_SHARED_OBJECT: u32 = 41;
    pub const SET_DEVICE_STATE_FD: u32 = 42;
    pub const CHECK_DEVICE_STATE: u32 = 43;
    pub const GET_SHMEM_CONFIG: u32 = 44;
    pub const MAX: u32 = 44;
}

/// back-end (to front-end) request codes
pub mod be {
    pub const IOTLB_MSG: u32 = 1;
    pub const CONFIG_CHANGE_MSG: u32 = 2;
    pub const VRING_HOST_NOTIFIER_MSG: u32 = 3;
    pub const VRING_CALL: u32 = 4;
    pub const VRING_ERR: u32 = 5;
    pub const SHARED_OBJECT_ADD: u32 = 6;
    pub const SHARED_OBJECT_REMOVE: u32 = 7;
    pub const SHARED_OBJECT_LOOKUP: u32 = 8;
    pub const SHMEM_MAP: u32 = 9;
    pub const SHMEM_UNMAP: u32 = 10;
    pub const MAX: u32 = 10;
}

/// vhost-user-gpu request codes
pub mod gpu {
    pub const GET_PROTOCOL_FEATURES: u32 = 1;
    pub const SET_PROTOCOL_FEATURES: u32 = 2;
    pub const GET_DISPLAY_INFO: u32 = 3;
    pub const CURSOR_POS: u32 = 4;
    pub const CURSOR_POS_HIDE: u32 = 5;
    pub const CURSOR_UPDATE: u32 = 6;
    pub const SCANOUT: u32 = 7;
    pub const UPDATE: u32 = 8;
    pub const DMABUF_SCANOUT: u32 = 9;
    pub const DMABUF_UPDATE: u32 = 10;
    pub const GET_EDID: u32 = 11;
    pub const DMABUF_SCANOUT2: u32 = 12;
    pub const F_REPLY: u32 = 0x4;
}

// ---------------------------------------------------------------- header / framing

pub fn hdr(code: u32, flags: u32, size: u32) -> [u8; 12] {
    let mut b = [0u8; 12];
    b[0..4].copy_from_slice(&code.to_ne_bytes());
    b[4..8].copy_from_slice(&flags.to_ne_bytes());
    b[8..12].copy_from_slice(&size.to_ne_bytes());
    b
}

/// full message: header with size = body length
pub fn msg(code: u32, flags: u32, body: &[u8]) -> Vec<u8> {
    let mut v = hdr(code, flags, body.len() as u32).to_vec();
    v.extend_from_slice(body);
    v
}

/// request: version 1 (+NEED_REPLY)
pub fn request(code: u32, need_reply: bool, body: &[u8]) -> Vec<u8> {
    msg(code, F_VERSION | if need_reply { F_NEED_REPLY } else { 0 }, body)
}
/// reply: version 1 | REPLY
pub fn reply(code: u32, body: &[u8]) -> Vec<u8> {
    msg(code, F_VERSION | F_REPLY, body)
}

pub fn parse_hdr(b: &[u8]) -> (u32, u32, u32) {
    (
        u32::from_ne_bytes([b[0], b[1], b[2], b[3]]),
        u32::from_ne_bytes([b[4], b[5], b[6], b[7]]),
        u32::from_ne_bytes([b[8], b[9], b[10], b[11]]),
    )
}

#[derive(Clone, Debug, PartialEq, Eq, serde::Serialize, serde::Deserialize)]
pub struct Frame {
    pub code: u32,
    pub flags: u32,
    pub body: Vec<u8>,
}

/// split a byte stream into frames using the size field; Err(leftover description) on a partial tail
pub fn split_stream(mut b: &[u8]) -> Result<Vec<Frame>, String> {
    let mut out = Vec::new();
    while !b.is_empty() {
        if b.len() < 12 {
            return Err(format!("{} stray bytes after {} frames", b.len(), out.len()));
        }
        let (code, flags, size) = parse_hdr(b);
        let size = size as usize;
        if b.len() < 12 + size {
            return Err(format!("frame {} (code {code}) declares {size} bytes, {} present", out.len(), b.len() - 12));
        }
        out.push(Frame { code, flags, body: b[12..12 + size].to_vec() });
        b = &b[12 + size..];
    }
    Ok(out)
}

// ---------------------------------------------------------------- bodies (explicit offsets)

fn put(v: &mut Vec<u8>, off: usize, bytes: &[u8]) {
    if v.len() < off + bytes.len() {
        v.resize(off + bytes.len(), 0);
    }
    v[off..off + bytes.len()].copy_from_slice(bytes);
}

pub fn b_u64(v: u64) -> Vec<u8> {
    v.to_ne_bytes().to_vec()
}
pub fn rd_u64(b: &[u8], off: usize) -> u64 {
    let mut a = [0u8; 8];
    a.copy_from_slice(&b[off..off + 8]);
    u64::from_ne_bytes(a)
}
pub fn rd_u32(b: &[u8], off: usize) -> u32 {
    let mut a = [0u8; 4];
    a.copy_from_slice(&b[off..off + 4]);
    u32::from_ne_bytes(a)
}
pub fn rd_u16(b: &[u8], off: usize) -> u16 {
    u16::from_ne_bytes([b[off], b[off + 1]])
}

/// struct vhost_vring_state: u32 index @0, u32 num @4
pub fn b_vring_state(index: u32, num: u32) -> Vec<u8> {
    let mut v = vec![0u8; 8];
    put(&mut v, 0, &index.to_ne_bytes());
    put(&mut v, 4, &num.to_ne_bytes());
    v
}

/// struct vhost_vring_addr: u32 index @0, u32 flags @4, u64 desc @8, u64 used @16, u64 avail @24, u64 log @32
pub fn b_vring_addr(index: u32, flags: u32, desc: u64, used: u64, avail: u64, log: u64) -> Vec<u8> {
    let mut v = vec![0u8; 40];
    put(&mut v, 0, &index.to_ne_bytes());
    put(&mut v, 4, &flags.to_ne_bytes());
    put(&mut v, 8, &desc.to_ne_bytes());
    put(&mut v, 16, &used.to_ne_bytes());
    put(&mut v, 24, &avail.to_ne_bytes());
    put(&mut v, 32, &log.to_ne_bytes());
    v
}

/// memory region: u64 guest address @0, u64 size @8, u64 user address @16, u64 mmap offset @24
pub fn b_region(r: &[u64; 4]) -> Vec<u8> {
    let mut v = vec![0u8; 32];
    for (i, x) in r.iter().enumerate() {
        put(&mut v, i * 8, &x.to_ne_bytes());
    }
    v
}

/// SET_MEM_TABLE: u32 nregions @0, u32 padding @4, regions from @8 (32 bytes each)
pub fn b_mem_table(regions: &[[u64; 4]]) -> Vec<u8> {
    let mut v = vec![0u8; 8];
    put(&mut v, 0, &(regions.len() as u32).to_ne_bytes());
    for r in regions {
        v.extend_from_slice(&b_region(r));
    }
    v
}

/// ADD/REM_MEM_REG: u64 padding @0, region @8
pub fn b_single_region(r: &[u64; 4]) -> Vec<u8> {
    let mut v = vec![0u8; 8];
    v.extend_from_slice(&b_region(r));
    v
}

/// SET_LOG_BASE (with LOG_SHMFD): u64 log size @0, u64 log offset @8
pub fn b_log(size: u64, offset: u64) -> Vec<u8> {
    let mut v = vec![0u8; 16];
    put(&mut v, 0, &size.to_ne_bytes());
    put(&mut v, 8, &offset.to_ne_bytes());
    v
}

/// config space: u32 offset @0, u32 size @4, u32 flags @8, payload @12
pub fn b_config(offset: u32, size: u32, flags: u32, payload: &[u8]) -> Vec<u8> {
    let mut v = vec![0u8; 12];
    put(&mut v, 0, &offset.to_ne_bytes());
    put(&mut v, 4, &size.to_ne_bytes());
    put(&mut v, 8, &flags.to_ne_bytes());
    v.extend_from_slice(payload);
    v
}

/// inflight description: u64 mmap size @0, u64 mmap offset @8, u16 num queues @16, u16 queue size @18; 24 bytes
pub fn b_inflight(mmap_size: u64, mmap_offset: u64, num_queues: u16, queue_size: u16) -> Vec<u8> {
    let mut v = vec![0u8; 24];
    put(&mut v, 0, &mmap_size.to_ne_bytes());
    put(&mut v, 8, &mmap_offset.to_ne_bytes());
    put(&mut v, 16, &num_queues.to_ne_bytes());
    put(&mut v, 18, &queue_size.to_ne_bytes());
    v
}

/// device state transfer: u32 direction @0, u32 phase @4
pub fn b_xfer(direction: u32, phase: u32) -> Vec<u8> {
    let mut v = vec![0u8; 8];
    put(&mut v, 0, &direction.to_ne_bytes());
    put(&mut v, 4, &phase.to_ne_bytes());
    v
}

/// SHMEM_MAP/UNMAP: u8 shmid @0, u8 padding[7] @1, u64 fd_offset @8, u64 shm_offset @16, u64 len @24, u64 flags @32
pub fn b_mmap(shmid: u8, fd_offset: u64, shm_offset: u64, len: u64, flags: u64) -> Vec<u8> {
    let mut v = vec![0u8; 40];
    v[0] = shmid;
    put(&mut v, 8, &fd_offset.to_ne_bytes());
    put(&mut v, 16, &shm_offset.to_ne_bytes());
    put(&mut v, 24, &len.to_ne_bytes());
    put(&mut v, 32, &flags.to_ne_bytes());
    v
}

/// GET_SHMEM_CONFIG reply: u32 nregions @0, u32 padding @4, u64 sizes[256] @8; 2056 bytes
pub fn b_shmem_config(nregions: u32, sizes: &[u64]) -> Vec<u8> {
    let mut v = vec![0u8; 8 + 256 * 8];
    put(&mut v, 0, &nregions.to_ne_bytes());
    for (i, s) in sizes.iter().take(256).enumerate() {
        put(&mut v, 8 + i * 8, &s.to_ne_bytes());
    }
    v
}

// ------------------------------------------------------------------ GPU bodies
pub fn b_u32s(xs: &[u32]) -> Vec<u8> {
    let mut v = Vec::with_capacity(xs.len() * 4);
    for x in xs {
        v.extend_from_slice(&x.to_ne_bytes());
    }
    v
}
pub const GPU_DISPLAY_INFO_SIZE: usize = 24 + 16 * 24; // virtio_gpu_ctrl_hdr + 16 * virtio_gpu_display_one
pub const GPU_EDID_RESP_SIZE: usize = 24 + 4 + 4 + 1024;

// ------------------------------------------------------------------ request table (C04/C05/C07)

#[derive(Clone, Copy, Debug, PartialEq, Eq)]
pub enum Body {
    Empty,
    U64,
    VringState,
    VringAddr,
    MemTable,
    Log,
    Config,
    Inflight,
    Single,
    Uuid,
    Xfer,
    /// u64: bits 0..7 ring index, bit 8 = no descriptor
    VringFd,
    /// message the crate does not implement
    Other,
}

#[derive(Clone, Copy, Debug, PartialEq, Eq)]
pub enum Reply {
    /// no defined reply: acknowledged only with NEED_REPLY + REPLY_ACK
    AckOnly,
    U64,
    VringState,
    /// config body + payload; in-band failure = size 0, no payload
    Config,
    /// inflight body + one descriptor
    InflightFd,
    /// empty body, one descriptor; in-band failure = no descriptor
    EmptyFd,
    /// u64: 0 + descriptor | 0x100 no descriptor | 0x101 failure
    DeviceState,
    /// u64 status, 0 = ok, non-zero = failed (always a reply)
    Status,
    ShmemConfig,
    /// SET_LOG_BASE: reply repeats a log body
    Log,
}

#[derive(Clone, Copy, Debug, PartialEq, Eq)]
pub enum Fds {
    None,
    One,
    ByBit8,
    PerRegion,
}

#[derive(Clone, Copy, Debug, PartialEq, Eq)]
pub enum Gate {
    None,
    Pf(u32),
    /// VHOST_USER_F_PROTOCOL_FEATURES acknowledged in SET_FEATURES
    VirtioPf,
}

#[derive(Clone, Copy, Debug)]
pub struct FeReq {
    pub code: u32,
    pub name: &'static str,
    pub body: Body,
    pub reply: Reply,
    pub fds: Fds,
    pub gate: Gate,
    /// implemented by the crate's back-end server in the default (non-postcopy) build
    pub implemented: bool,
}

const fn r(code: u32, name: &'static str, body: Body, reply: Reply, fds: Fds, gate: Gate, implemented: bool) -> FeReq {
    FeReq { code, name, body, reply, fds, gate, implemented }
}

pub const FE_REQS: &[FeReq] = &[
    r(1, "GET_FEATURES", Body::Empty, Reply::U64, Fds::None, Gate::None, true),
    r(2, "SET_FEATURES", Body::U64, Reply::AckOnly, Fds::None, Gate::None, true),
    r(3, "SET_OWNER", Body::Empty, Reply::AckOnly, Fds::None, Gate::None, true),
    r(4, "RESET_OWNER", Body::Empty, Reply::AckOnly, Fds::None, Gate::None, true),
    r(5, "SET_MEM_TABLE", Body::MemTable, Reply::AckOnly, Fds::PerRegion, Gate::None, true),
    r(6, "SET_LOG_BASE", Body::Log, Reply::Log, Fds::One, Gate::Pf(pf::LOG_SHMFD), true),
    r(7, "SET_LOG_FD", Body::Empty, Reply::AckOnly, Fds::One, Gate::None, false),
    r(8, "SET_VRING_NUM", Body::VringState, Reply::AckOnly, Fds::None, Gate::None, true),
    r(9, "SET_VRING_ADDR", Body::VringAddr, Reply::AckOnly, Fds::None, Gate::None, true),
    r(10, "SET_VRING_BASE", Body::VringState, Reply::AckOnly, Fds::None, Gate::None, true),
    r(11, "GET_VRING_BASE", Body::VringState, Reply::VringState, Fds::None, Gate::None, true),
    r(12, "SET_VRING_KICK", Body::VringFd, Reply::AckOnly, Fds::ByBit8, Gate::None, true),
    r(13, "SET_VRING_CALL", Body::VringFd, Reply::AckOnly, Fds::ByBit8, Gate::None, true),
    r(14, "SET_VRING_ERR", Body::VringFd, Reply::AckOnly, Fds::ByBit8, Gate::None, true),
    r(15, "GET_PROTOCOL_FEATURES", Body::Empty, Reply::U64, Fds::None, Gate::None, true),
    r(16, "SET_PROTOCOL_FEATURES", Body::U64, Reply::AckOnly, Fds::None, Gate::None, true),
    r(17, "GET_QUEUE_NUM", Body::Empty, Reply::U64, Fds::None, Gate::Pf(pf::MQ), true),
    r(18, "SET_VRING_ENABLE", Body::VringState, Reply::AckOnly, Fds::None, Gate::VirtioPf, true),
    r(19, "SEND_RARP", Body::U64, Reply::AckOnly, Fds::None, Gate::Pf(pf::RARP), false),
    r(20, "NET_SET_MTU", Body::U64, Reply::AckOnly, Fds::None, Gate::Pf(pf::MTU), false),
    r(21, "SET_BACKEND_REQ_FD", Body::Empty, Reply::AckOnly, Fds::One, Gate::Pf(pf::BACKEND_REQ), true),
    r(22, "IOTLB_MSG", Body::Other, Reply::AckOnly, Fds::None, Gate::None, false),
    r(23, "SET_VRING_ENDIAN", Body::VringState, Reply::AckOnly, Fds::None, Gate::Pf(pf::CROSS_ENDIAN), false),
    r(24, "GET_CONFIG", Body::Config, Reply::Config, Fds::None, Gate::Pf(pf::CONFIG), true),
    r(25, "SET_CONFIG", Body::Config, Reply::AckOnly, Fds::None, Gate::Pf(pf::CONFIG), true),
    r(26, "CREATE_CRYPTO_SESSION", Body::Other, Reply::AckOnly, Fds::None, Gate::Pf(pf::CRYPTO_SESSION), false),
    r(27, "CLOSE_CRYPTO_SESSION", Body::U64, Reply::AckOnly, Fds::None, Gate::Pf(pf::CRYPTO_SESSION), false),
    r(28, "POSTCOPY_ADVISE", Body::Empty, Reply::EmptyFd, Fds::None, Gate::Pf(pf::PAGEFAULT), false),
    r(29, "POSTCOPY_LISTEN", Body::Empty, Reply::AckOnly, Fds::None, Gate::Pf(pf::PAGEFAULT), false),
    r(30, "POSTCOPY_END", Body::Empty, Reply::AckOnly, Fds::None, Gate::Pf(pf::PAGEFAULT), false),
    r(31, "GET_INFLIGHT_FD", Body::Inflight, Reply::InflightFd, Fds::None, Gate::Pf(pf::INFLIGHT_SHMFD), true),
    r(32, "SET_INFLIGHT_FD", Body::Inflight, Reply::AckOnly, Fds::One, Gate::Pf(pf::INFLIGHT_SHMFD), true),
    r(33, "GPU_SET_SOCKET", Body::Empty, Reply::AckOnly, Fds::One, Gate::None, true),
    r(34, "RESET_DEVICE", Body::Empty, Reply::AckOnly, Fds::None, Gate::Pf(pf::RESET_DEVICE), true),
    r(35, "VRING_KICK", Body::VringState, Reply::AckOnly, Fds::None, Gate::Pf(pf::INBAND_NOTIFICATIONS), false),
    r(36, "GET_MAX_MEM_SLOTS", Body::Empty, Reply::U64, Fds::None, Gate::Pf(pf::CONFIGURE_MEM_SLOTS), true),
    r(37, "ADD_MEM_REG", Body::Single, Reply::AckOnly, Fds::One, Gate::Pf(pf::CONFIGURE_MEM_SLOTS), true),
    r(38, "REM_MEM_REG", Body::Single, Reply::AckOnly, Fds::None, Gate::Pf(pf::CONFIGURE_MEM_SLOTS), true),
    r(39, "SET_STATUS", Body::U64, Reply::AckOnly, Fds::None, Gate::Pf(pf::STATUS), false),
    r(40, "GET_STATUS", Body::Empty, Reply::U64, Fds::None, Gate::Pf(pf::STATUS), false),
    r(41, "GET_SHARED_OBJECT", Body::Uuid, Reply::EmptyFd, Fds::None, Gate::Pf(pf::SHARED_OBJECT), true),
    r(42, "SET_DEVICE_STATE_FD", Body::Xfer, Reply::DeviceState, Fds::One, Gate::None, true),
    r(43, "CHECK_DEVICE_STATE", Body::Empty, Reply::Status, Fds::None, Gate::None, true),
    r(44, "GET_SHMEM_CONFIG", Body::Empty, Reply::ShmemConfig, Fds::None, Gate::Pf(pf::SHMEM), true),
];

pub fn fe_req(code: u32) -> Option<&'static FeReq> {
    FE_REQS.iter().find(|r| r.code == code)
}

/// does the build under test implement this request in the back-end server?
pub fn fe_implemented(r: &FeReq) -> bool {
    r.implemented || (cfg!(feature = "postcopy") && (28..=30).contains(&r.code))
}
