//! Independent validity predicates, re-derived from the text of properties C20 / C05 with u128
//! arithmetic (wrap conditions are *stated*, not re-implemented with checked_add).  Nothing here
//! imports from `vhost::vhost_user::message`.
//!
//! Three-valued: `Some(true)` = protocol-valid, `Some(false)` = invalid, `None` = the property /
//! specification is silent for this bit pattern (counted as `spec_silent`, never alarmed on).

pub type Verdict = Option<bool>;

pub const MAX_MSG: u64 = 4096;
const TWO64: u128 = 1u128 << 64;

/// frontend-request channel: codes 1..=44; backend-request channel: codes 1..=10
pub fn hdr(code: u32, flags: u32, size: u32, max_code: u32) -> Verdict {
    let known = code >= 1 && code <= max_code;
    let version1 = flags & 0x3 == 1;
    let reserved = flags & !0xf != 0;
    Some(known && (size as u64) <= MAX_MSG && version1 && !reserved)
}
pub const FE_MAX_CODE: u32 = 44;
pub const BE_MAX_CODE: u32 = 10;
pub const GPU_MAX_CODE: u32 = 12;

/// GPU channel header: known code, only the REPLY bit may be set (no version, no size bound)
pub fn gpu_hdr(code: u32, flags: u32, _size: u32) -> Verdict {
    Some(code >= 1 && code <= GPU_MAX_CODE && (flags & !0x4) == 0)
}

pub fn memory(num_regions: u32, padding: u32) -> Verdict {
    Some(padding == 0 && (1..=32).contains(&num_regions))
}

/// a range [base, base+len) "does not wrap" in 64 bits: the 64-bit sum base+len does not overflow, i.e. the
/// exclusive end is representable.  base+len == 2^64 exactly makes the 64-bit addition wrap to 0 (every
/// consumer of these messages computes that end), so it counts as a wrap.  (An earlier version left this one
/// point open as "spec-silent"; two independently written breaking changes - validators accepting exactly
/// that point, one of which makes the daemon's address translation overflow - showed the oracle was too weak.)
fn range(base: u64, len: u64) -> Verdict {
    let end = base as u128 + len as u128;
    Some(end < TWO64)
}

fn all(vs: &[Verdict]) -> Verdict {
    if vs.iter().any(|v| *v == Some(false)) {
        Some(false)
    } else if vs.iter().any(|v| v.is_none()) {
        None
    } else {
        Some(true)
    }
}

pub fn region(gpa: u64, size: u64, ua: u64, off: u64) -> Verdict {
    if size == 0 {
        return Some(false);
    }
    all(&[range(gpa, size), range(ua, size), range(off, size)])
}

/// ADD_MEM_REG / REM_MEM_REG body: same region rules; the leading padding word is not mentioned
pub fn single_region(padding: u64, gpa: u64, size: u64, ua: u64, off: u64) -> Verdict {
    match region(gpa, size, ua, off) {
        Some(true) if padding != 0 => None,
        v => v,
    }
}

pub fn vring_addr(flags: u32, desc: u64, used: u64, avail: u64) -> Verdict {
    Some(flags & !0x1 == 0 && desc % 16 == 0 && avail % 2 == 0 && used % 4 == 0)
}

pub fn config(offset: u32, size: u32, flags: u32) -> Verdict {
    let end = offset as u64 + size as u64; // cannot wrap in u64; > u32::MAX is the 32-bit wrap case
    Some(size >= 1 && end <= 0x1000 && end <= u32::MAX as u64 && flags & !0x3 == 0)
}

pub fn inflight(mmap_size: u64, _mmap_offset: u64, num_queues: u16, queue_size: u16) -> Verdict {
    if num_queues == 0 || queue_size == 0 {
        return Some(false);
    }
    if mmap_size == 0 {
        return None; // "non-zero inflight queue count and size": the area size is not clearly meant
    }
    Some(true)
}

pub fn log(mmap_size: u64, mmap_offset: u64) -> Verdict {
    if mmap_size == 0 {
        return Some(false);
    }
    range(mmap_offset, mmap_size)
}

pub fn transfer_state(direction: u32, phase: u32) -> Verdict {
    Some(direction <= 1 && phase == 0)
}

pub fn shared_msg(uuid: &[u8; 16]) -> Verdict {
    Some(!(uuid.iter().all(|b| *b == 0) || uuid.iter().all(|b| *b == 0xff)))
}

pub fn mmap(fd_offset: u64, shm_offset: u64, len: u64, flags: u64) -> Verdict {
    if len == 0 {
        return Some(false);
    }
    if flags & !0x1 != 0 {
        return Some(false);
    }
    all(&[range(fd_offset, len), range(shm_offset, len)])
}

/// number of descriptors a front-end request prescribes (C05): None = variable (mem table)
pub fn vring_fd_msg(value: u64, nfds: usize) -> bool {
    let nofd = value & 0x100 != 0;
    (nofd && nfds == 0) || (!nofd && nfds == 1)
}
