//! Drive the real `BackendReqHandler` over a socketpair from a raw peer, one whole stream at a time.

use std::os::unix::io::{AsRawFd, OwnedFd, RawFd};
use std::os::unix::net::UnixStream;
use std::panic::{catch_unwind, AssertUnwindSafe};
use std::sync::{Arc, Mutex};

use vhost::vhost_user::{BackendReqHandler, Error};

use crate::fdtrack::{make_fd, FdKind};
use crate::rawpeer::{self, RawMsg};
use crate::rec_backend::{Call, Outcome, Rec};

/// one chunk the raw peer writes: bytes plus descriptors riding on its first byte
pub struct Chunk {
    pub bytes: Vec<u8>,
    pub fds: Vec<OwnedFd>,
}

pub fn fresh_fds(n: usize, kind: FdKind) -> Vec<OwnedFd> {
    (0..n).map(|_| make_fd(kind)).collect()
}

#[derive(Debug, Clone, PartialEq, Eq)]
pub enum Res {
    Ok,
    Err(String),
    Panic(String),
}

pub struct ServerRun {
    /// result of every handle_request call, in order (the final Disconnected included)
    pub results: Vec<Res>,
    pub log: Vec<Call>,
    pub used: Vec<Outcome>,
    pub returned: Vec<Option<crate::fdtrack::FileId>>,
    /// everything the server wrote, framed by the size field
    pub out: Vec<RawMsg>,
    pub out_leftover: Vec<u8>,
    /// did the loop end with a clean Disconnected?
    pub ended_disconnected: bool,
    pub rec: Arc<Mutex<Rec>>,
}

pub fn err_name(e: &Error) -> String {
    match e {
        Error::InvalidParam => "InvalidParam".into(),
        Error::InvalidOperation(_) => "InvalidOperation".into(),
        Error::InactiveFeature(_) => "InactiveFeature".into(),
        Error::InactiveOperation(_) => "InactiveOperation".into(),
        Error::InvalidMessage => "InvalidMessage".into(),
        Error::PartialMessage => "PartialMessage".into(),
        Error::Disconnected => "Disconnected".into(),
        Error::OversizedMsg => "OversizedMsg".into(),
        Error::IncorrectFds => "IncorrectFds".into(),
        Error::SocketConnect(_) => "SocketConnect".into(),
        Error::SocketError(_) => "SocketError".into(),
        Error::SocketBroken(_) => "SocketBroken".into(),
        Error::SocketRetry(_) => "SocketRetry".into(),
        Error::BackendInternalError => "BackendInternalError".into(),
        Error::FrontendInternalError => "FrontendInternalError".into(),
        Error::FeatureMismatch => "FeatureMismatch".into(),
        Error::ReqHandlerError(_) => "ReqHandlerError".into(),
        Error::MemFdCreateError => "MemFdCreateError".into(),
        Error::FileTruncateError => "FileTruncateError".into(),
        Error::MemFdSealError => "MemFdSealError".into(),
    }
}

pub fn panic_msg(p: Box<dyn std::any::Any + Send>) -> String {
    if let Some(s) = p.downcast_ref::<&str>() {
        s.to_string()
    } else if let Some(s) = p.downcast_ref::<String>() {
        s.clone()
    } else {
        "<panic>".into()
    }
}

/// Write all chunks, half-close, then call handle_request until Disconnected (or `max_calls`).
/// Everything the server wrote is collected afterwards.  Single-threaded: the socket buffers hold
/// the whole stream (callers keep streams well below the default 208 KiB).
pub fn run_stream(rec: Rec, chunks: Vec<Chunk>, max_calls: usize) -> ServerRun {
    let (peer, srv_sock) = UnixStream::pair().expect("socketpair");
    let rec = Arc::new(Mutex::new(rec));
    let probe = srv_sock.try_clone().expect("dup");
    let mut server = BackendReqHandler::from_stream(srv_sock, rec.clone());
    for c in chunks {
        let raw: Vec<RawFd> = c.fds.iter().map(|f| f.as_raw_fd()).collect();
        if let Err(e) = rawpeer::send_all(peer.as_raw_fd(), &c.bytes, &raw) {
            panic!("raw peer cannot write stream: {e}");
        }
        drop(c.fds); // the peer's copies are closed as soon as they are in flight
    }
    rawpeer::shutdown_wr(&peer);
    let mut results = Vec::new();
    let mut ended = false;
    for _ in 0..max_calls {
        let r = catch_unwind(AssertUnwindSafe(|| server.handle_request()));
        match r {
            Ok(Ok(())) => results.push(Res::Ok),
            Ok(Err(e)) => {
                let n = err_name(&e);
                // a handler may itself fail with `Disconnected`: the stream has ended only if nothing is queued
                let disc = matches!(e, Error::Disconnected) && rawpeer::fionread(probe.as_raw_fd()) == 0;
                results.push(Res::Err(n));
                if disc {
                    ended = true;
                    break;
                }
            }
            Err(p) => {
                results.push(Res::Panic(panic_msg(p)));
                // a poisoned handler mutex makes every later call panic as well: stop here
                break;
            }
        }
    }
    let (out, leftover) = rawpeer::drain_messages(peer.as_raw_fd()).unwrap_or((Vec::new(), Vec::new()));
    drop(server);
    drop(probe);
    drop(peer);
    let (log, used, returned) = match rec.lock() {
        Ok(g) => (g.log.clone(), g.used.clone(), g.returned.clone()),
        Err(p) => {
            let g = p.into_inner();
            (g.log.clone(), g.used.clone(), g.returned.clone())
        }
    };
    ServerRun { results, log, used, returned, out, out_leftover: leftover, ended_disconnected: ended, rec }
}
