//! C15 — dirty-page logging records every backend write, precisely and atomically.
//!
//! G: layouts of 1..=4 page-aligned regions whose guest pages share log bytes, log windows at
//!    non-zero page-aligned offsets with sizes from too small to ample, writes through the
//!    guest-memory interface (write_slice / write_obj / store / volatile slices and sub-slices /
//!    used-ring updates / direct mark_dirty incl. zero and huge lengths) crossing 0, 1 and many
//!    page boundaries, interleaved with a second SET_LOG_BASE and memory-table changes;
//!    2..=16 concurrent writers on bits of the same log byte.
//! O: page-set model; after every step every log file is read back with pread and must equal the
//!    bitmap of the expected page set inside the window and be zero everywhere else.

use std::collections::BTreeSet;
use std::fs::File;
use std::os::unix::fs::FileExt;
use std::os::unix::io::AsRawFd;
use std::sync::atomic::{AtomicBool, AtomicUsize, Ordering};
use std::sync::Arc;

use proptest::prelude::*;
use serde::{Deserialize, Serialize};
use serde_json::json;
use vhost_user_backend::VringT;
use vm_memory::bitmap::Bitmap;
use vm_memory::{Bytes, GuestAddress, GuestAddressSpace, GuestMemory, GuestMemoryRegion};

use crate::daemon_fx::{BeCfg, EventHook, Fx, Sess, VMutex, VRw, GM};
use crate::engine::Ctx;
use crate::fdtrack::memfd;
use crate::spec::{self, fe};

const PAGE: u64 = 4096;
pub const F6_SIG: &str = "C15/F6-regions-created-after-SET_LOG_BASE-are-not-logged";

#[derive(Serialize, Deserialize, Debug, Clone, Copy, Hash, PartialEq, Eq)]
pub enum How {
    WriteSlice,
    WriteObj,
    Store,
    /// get_slice(off, len) then write into it
    Volatile,
    /// get_slice over a larger range, sub-slice, then write
    SubSlice,
}

#[derive(Serialize, Deserialize, Debug, Clone, Copy, Hash, PartialEq, Eq)]
pub enum LogSize {
    /// exactly the bytes needed for the highest guest page of the current table, plus delta
    Needed(i8),
    Ample,
    One,
}

#[derive(Serialize, Deserialize, Debug, Clone, Hash, PartialEq, Eq)]
pub enum Op {
    SetLog { off_pages: u8, unaligned: bool, size: LogSize },
    /// region (monotone index), page-relative start (page index, offset in page), length class
    Write { reg: u16, page: u16, inpage: u16, len: u32, how: How },
    MarkDirty { reg: u16, off: u32, len_kind: u8 },
    AddUsed { idx: u16 },
    SetTable { layout: Vec<(u8, u8)> },
    /// hot-plug a region above the highest one, or (below = true) under the lowest one / into the first gap that fits
    AddRegion { gap: u8, npages: u8, #[serde(default)] below: bool },
    RemRegion { reg: u16 },
}

#[derive(Serialize, Deserialize, Debug, Clone, Hash, PartialEq, Eq)]
pub struct Hist {
    pub rwlock: bool,
    pub layout: Vec<(u8, u8)>, // (gap pages before the region, pages)
    pub ops: Vec<Op>,
}

#[derive(Clone, Debug)]
struct Region {
    gpa: u64,
    size: u64,
    file: usize,
    /// false for regions created by a table change after the last accepted SET_LOG_BASE
    logged_by_impl: bool,
}

struct LogFile {
    file: File,
    len: u64,
    off: u64,
    size: u64,
    exp_spec: BTreeSet<u64>,
    exp_dev: BTreeSet<u64>,
}

fn build_layout(layout: &[(u8, u8)], first_page: u64) -> Vec<(u64, u64)> {
    // page-aligned, sorted, disjoint; bases chosen so that regions share log bytes
    let mut page = first_page;
    let mut out = Vec::new();
    for (gap, n) in layout {
        page += *gap as u64 % 6;
        if page % 8 == 0 {
            page += 1; // start inside a log byte, not on its boundary
        }
        let n = (*n as u64 % 40).max(1);
        out.push((page * PAGE, n * PAGE));
        page += n;
    }
    out
}

fn expected_bytes(l: &LogFile, pages: &BTreeSet<u64>) -> Vec<u8> {
    let mut v = vec![0u8; l.len as usize];
    for p in pages {
        let idx = l.off + p / 8;
        if (idx as usize) < v.len() {
            v[idx as usize] |= 1 << (p % 8);
        }
    }
    v
}

fn check_logs(ctx: &mut Ctx, logs: &[LogFile], desc: &str, f6_possible: bool) -> Result<(), String> {
    for (li, l) in logs.iter().enumerate() {
        let mut got = vec![0u8; l.len as usize];
        l.file.read_exact_at(&mut got, 0).map_err(|e| e.to_string())?;
        let spec = expected_bytes(l, &l.exp_spec);
        if got == spec {
            continue;
        }
        let dev = expected_bytes(l, &l.exp_dev);
        if got == dev && f6_possible && ctx.known(F6_SIG) {
            continue;
        }
        // describe the first difference
        let k = (0..got.len()).find(|k| got[*k] != spec[*k]).unwrap();
        let inside = k as u64 >= l.off && (k as u64) < l.off + l.size;
        let what = if !inside {
            format!("byte {k:#x} of the log file lies outside the log window [{:#x},{:#x}) but was changed to {:#04x}", l.off, l.off + l.size, got[k])
        } else {
            let missing = spec[k] & !got[k];
            let extra = got[k] & !spec[k];
            let p0 = (k as u64 - l.off) * 8;
            format!(
                "log byte {:#x} (guest pages {p0}..{}): got {:#010b}, expected {:#010b} (missing bits {missing:#010b}, extra bits {extra:#010b})",
                k as u64 - l.off,
                p0 + 7,
                got[k],
                spec[k]
            )
        };
        return Err(format!("after {desc}: log #{li}: {what}"));
    }
    Ok(())
}

fn run_generic<V: VringT<GM> + Clone + Send + Sync + 'static>(ctx: &mut Ctx, h: &Hist) -> Result<(), String> {
    let fx: Fx<V> = Fx::new(BeCfg { num_queues: 1, max_queue_size: 8, ..Default::default() })?;
    let mut s = Sess::open(fx, None)?;
    let mut files: Vec<File> = Vec::new();
    let mut regions: Vec<Region> = Vec::new();
    let mut logs: Vec<LogFile> = Vec::new();
    let mut cur: Option<usize> = None;
    let mut ring_ok = false;
    let mut next_used: u16 = 0;
    let mut nt = false;
    let mut table_changed_after_log = false;
    let mut f6_possible = false;

    // initial table
    let set_table = |s: &mut Sess<V>, files: &mut Vec<File>, lay: &[(u64, u64)]| -> Result<Option<Vec<Region>>, String> {
        let mut rs = Vec::new();
        let mut body = Vec::new();
        let mut fds = Vec::new();
        for (gpa, size) in lay {
            files.push(memfd(*size));
            let fi = files.len() - 1;
            body.push([*gpa, *size, 0x7000_0000_0000 + *gpa, 0]);
            fds.push(files[fi].as_raw_fd());
            rs.push(Region { gpa: *gpa, size: *size, file: fi, logged_by_impl: false });
        }
        if !s.acked(fe::SET_MEM_TABLE, &spec::b_mem_table(&body), &fds)? {
            return Ok(None);
        }
        Ok(Some(rs))
    };
    // does the current log window cover guest page `last_page`?
    let log_covers = |logs: &[LogFile], cur: Option<usize>, last_page: u64| -> bool { cur.map(|c| last_page / 8 < logs[c].size).unwrap_or(true) };
    let lay = build_layout(&h.layout, 24);
    regions = set_table(&mut s, &mut files, &lay)?.ok_or("initial SET_MEM_TABLE of a sorted disjoint page-aligned table was refused")?;
    // ring 0: used ring near the end of region 0's first page so that used elements cross into page 1
    let setup_ring = |s: &mut Sess<V>, r0: &Region| -> Result<bool, String> {
        if r0.size < 2 * PAGE {
            return Ok(false);
        }
        let ua = 0x7000_0000_0000 + r0.gpa;
        let ok = s.acked(fe::SET_VRING_NUM, &spec::b_vring_state(0, 8), &[])?
            && s.acked(fe::SET_VRING_ADDR, &spec::b_vring_addr(0, 0, ua, ua + 0xfe0, ua + 0x100, 0), &[])?;
        Ok(ok)
    };
    if let Some(r0) = regions.first().cloned() {
        ring_ok = setup_ring(&mut s, &r0)?;
        next_used = 0; // fresh files: used idx in guest memory is 0
    }

    for (i, op) in h.ops.iter().enumerate() {
        let desc = format!("op #{i} {op:?}");
        let mem = s.fx.be.st.lock().unwrap().mem.clone().ok_or("back end has no memory")?;
        // pages touched by this step, as (gpa page, region index)
        let mut touched: Vec<(u64, usize)> = Vec::new();
        match op {
            Op::SetLog { off_pages, unaligned, size } => {
                let last_page = regions.iter().map(|r| (r.gpa + r.size - 1) / PAGE).max();
                let needed = last_page.map(|p| p / 8 + 1).unwrap_or(1);
                let mmap_size = match size {
                    LogSize::Needed(d) => (needed as i64 + *d as i64).max(1) as u64,
                    LogSize::Ample => needed + 5000,
                    LogSize::One => 1,
                };
                let off = (*off_pages as u64 % 4) * PAGE + if *unaligned { 8 } else { 0 };
                let flen = ((off + mmap_size + PAGE - 1) / PAGE + 1) * PAGE;
                let file = memfd(flen);
                let res = s.get(fe::SET_LOG_BASE, &spec::b_log(mmap_size, off), &[file.as_raw_fd()])?;
                let must_refuse = *unaligned || (last_page.is_some() && mmap_size < needed);
                ctx.class(if must_refuse { "setlog_must_refuse" } else { "setlog_must_accept" });
                match (res.is_some(), must_refuse) {
                    (true, true) => {
                        return Err(format!(
                            "{desc}: accepted although {} (window {mmap_size} bytes, {needed} needed for guest page {:?})",
                            if *unaligned { "the window cannot be mapped (unaligned offset)" } else { "the window is too small" },
                            last_page
                        ))
                    }
                    (false, false) => return Err(format!("{desc}: refused although the window ({mmap_size} bytes at {off:#x}) covers guest page {last_page:?} ({needed} bytes needed)")),
                    (true, false) => {
                        logs.push(LogFile { file, len: flen, off, size: mmap_size, exp_spec: BTreeSet::new(), exp_dev: BTreeSet::new() });
                        if cur.is_some() {
                            nt = true;
                        }
                        cur = Some(logs.len() - 1);
                        for r in regions.iter_mut() {
                            r.logged_by_impl = true;
                        }
                        table_changed_after_log = false;
                    }
                    (false, true) => {
                        if cur.is_some() {
                            nt = true; // previous logging must stay in force
                        }
                    }
                }
            }
            Op::Write { reg, page, inpage, len, how } => {
                if regions.is_empty() {
                    continue;
                }
                let ri = crate::engine::idx(*reg, regions.len());
                let r = &regions[ri];
                let np = r.size / PAGE;
                let start = (*page as u64 % np) * PAGE + (*inpage as u64 % PAGE);
                let maxlen = r.size - start;
                let mut len = (*len as u64).min(maxlen).max(1);
                let gm = mem.memory();
                let addr = GuestAddress(r.gpa + start);
                match how {
                    How::WriteSlice => {
                        let buf = vec![0xa5u8; len as usize];
                        gm.write_slice(&buf, addr).map_err(|e| format!("{desc}: {e}"))?;
                    }
                    How::WriteObj => {
                        len = 8.min(maxlen);
                        if len == 8 {
                            gm.write_obj(0x1122_3344_5566_7788u64, addr).map_err(|e| format!("{desc}: {e}"))?;
                        } else {
                            len = 1;
                            gm.write_obj(0x5au8, addr).map_err(|e| format!("{desc}: {e}"))?;
                        }
                    }
                    How::Store => {
                        // atomic store needs natural alignment
                        let a = GuestAddress((r.gpa + start) & !3);
                        len = 4;
                        let st = (r.gpa + start) & !3;
                        gm.store(0xdead_beefu32, a, Ordering::Relaxed).map_err(|e| format!("{desc}: {e}"))?;
                        for p in st / PAGE..=(st + 3) / PAGE {
                            touched.push((p, ri));
                        }
                        len = 0; // pages already recorded
                    }
                    How::Volatile => {
                        let vs = gm.get_slice(addr, len as usize).map_err(|e| format!("{desc}: {e}"))?;
                        let buf = vec![0x3cu8; len as usize];
                        vs.write_slice(&buf, 0).map_err(|e| format!("{desc}: {e}"))?;
                    }
                    How::SubSlice => {
                        // slice from the start of the region's page, sub-slice to the write position
                        let pstart = (start / PAGE) * PAGE;
                        let whole = gm.get_slice(GuestAddress(r.gpa + pstart), (r.size - pstart) as usize).map_err(|e| format!("{desc}: {e}"))?;
                        let sub = whole.subslice((start - pstart) as usize, len as usize).map_err(|e| format!("{desc}: {e}"))?;
                        let buf = vec![0x77u8; len as usize];
                        sub.write_slice(&buf, 0).map_err(|e| format!("{desc}: {e}"))?;
                    }
                }
                if len > 0 {
                    let a = r.gpa + start;
                    for p in a / PAGE..=(a + len - 1) / PAGE {
                        touched.push((p, ri));
                    }
                }
                let pages = touched.len();
                ctx.class(match pages {
                    0 | 1 => "write_1_page",
                    2 => "write_2_pages",
                    _ => "write_many_pages",
                });
                if pages >= 2 {
                    nt = true;
                }
            }
            Op::MarkDirty { reg, off, len_kind } => {
                if regions.is_empty() {
                    continue;
                }
                let ri = crate::engine::idx(*reg, regions.len());
                let r = &regions[ri];
                let off = *off as u64 % r.size;
                let len: usize = match len_kind % 6 {
                    0 => 0,
                    1 => 1,
                    2 => 4096,
                    3 => usize::MAX,
                    4 => (r.size - off) as usize,
                    _ => 4097,
                };
                let gm = mem.memory();
                let region = gm.find_region(GuestAddress(r.gpa)).ok_or("region not found")?;
                region.bitmap().mark_dirty(off as usize, len);
                if len > 0 {
                    let a = r.gpa + off;
                    let end = (a as u128 + len as u128 - 1).min((r.gpa + r.size - 1) as u128) as u64;
                    for p in a / PAGE..=end / PAGE {
                        touched.push((p, ri));
                    }
                }
                ctx.class(if len == 0 { "mark_dirty_zero_len" } else if len == usize::MAX { "mark_dirty_huge_len" } else { "mark_dirty" });
            }
            Op::AddUsed { idx } => {
                if !ring_ok || regions.is_empty() {
                    ctx.class("add_used_skipped");
                    continue;
                }
                let idx = *idx % 8;
                let done = Arc::new(AtomicBool::new(false));
                let d2 = done.clone();
                let hook: EventHook<V> = Arc::new(move |_be, _ev, vrings: &[V], _t| {
                    if !d2.swap(true, Ordering::SeqCst) {
                        let _ = vrings[0].add_used(idx, 0x1234);
                    }
                });
                s.fx.be.st.lock().unwrap().barrier_hook = Some(hook);
                let r1 = s.fx.barrier_once();
                s.fx.be.st.lock().unwrap().barrier_hook = None;
                r1?;
                let r0 = &regions[0];
                let used = r0.gpa + 0xfe0;
                let elem = used + 4 + 8 * (next_used % 8) as u64;
                for (a, l) in [(elem, 8u64), (used + 2, 2)] {
                    for p in a / PAGE..=(a + l - 1) / PAGE {
                        touched.push((p, 0));
                    }
                }
                next_used = next_used.wrapping_add(1);
                ctx.class("add_used");
                nt = true;
            }
            Op::SetTable { layout } => {
                let first = 1 + (i as u64 % 5);
                let lay = build_layout(layout, first);
                let last_page = lay.iter().map(|(g, sz)| (g + sz - 1) / PAGE).max().unwrap_or(0);
                match set_table(&mut s, &mut files, &lay)? {
                    Some(rs) => regions = rs,
                    None => {
                        // while logging, a table the log window cannot cover may be refused (old table stays)
                        if log_covers(&logs, cur, last_page) {
                            return Err(format!("{desc}: SET_MEM_TABLE of a sorted disjoint page-aligned table was refused"));
                        }
                        ctx.class("table_change_refused_log_too_small");
                        // the refused update must leave the previous table fully intact, the memory the back end works on included
                        {
                            use vm_memory::{GuestAddressSpace, GuestMemory, GuestMemoryRegion};
                            let mem = s.fx.be.st.lock().unwrap().mem.clone();
                            if let Some(m) = mem {
                                let mut got: Vec<(u64, u64)> = m.memory().iter().map(|r| (r.start_addr().0, r.len())).collect();
                                got.sort();
                                let mut want: Vec<(u64, u64)> = regions.iter().map(|r| (r.gpa, r.size)).collect();
                                want.sort();
                                if got != want {
                                    return Err(format!("{desc}: the table change was refused (log window too small) but the back end's guest memory now has regions {got:x?}, the table in force is {want:x?}"));
                                }
                            }
                        }
                        check_logs(ctx, &logs, &desc, f6_possible)?;
                        continue;
                    }
                }
                ring_ok = false;
                if let Some(r0) = regions.first().cloned() {
                    ring_ok = setup_ring(&mut s, &r0)?;
                    next_used = 0;
                }
                if cur.is_some() {
                    table_changed_after_log = true;
                    f6_possible = true;
                    nt = true;
                }
                ctx.class("table_replaced");
            }
            Op::AddRegion { gap, npages, below } => {
                let end_page = regions.iter().map(|r| (r.gpa + r.size) / PAGE).max().unwrap_or(1);
                let mut page = end_page + *gap as u64 % 4;
                if page % 8 == 0 {
                    page += 1;
                }
                let mut n = (*npages as u64 % 20).max(1);
                if *below {
                    // under the lowest region (hot-plugged memory is not always the highest)
                    let low_page = regions.iter().map(|r| r.gpa / PAGE).min().unwrap_or(64);
                    let end = low_page.saturating_sub(*gap as u64 % 4);
                    if end >= 2 {
                        n = n.min(end - 1);
                        page = end - n;
                        ctx.class("region_added_below_the_lowest");
                    }
                }
                files.push(memfd(n * PAGE));
                let fi = files.len() - 1;
                let gpa = page * PAGE;
                if !s.acked(fe::ADD_MEM_REG, &spec::b_single_region(&[gpa, n * PAGE, 0x7000_0000_0000 + gpa, 0]), &[files[fi].as_raw_fd()])? {
                    if log_covers(&logs, cur, page + n - 1) {
                        return Err(format!("{desc}: ADD_MEM_REG of a disjoint page-aligned region was refused"));
                    }
                    ctx.class("table_change_refused_log_too_small");
                    // the refused update must leave the previous table fully intact, the memory the back end works on included
                    {
                        use vm_memory::{GuestAddressSpace, GuestMemory, GuestMemoryRegion};
                        let mem = s.fx.be.st.lock().unwrap().mem.clone();
                        if let Some(m) = mem {
                            let mut got: Vec<(u64, u64)> = m.memory().iter().map(|r| (r.start_addr().0, r.len())).collect();
                            got.sort();
                            let mut want: Vec<(u64, u64)> = regions.iter().map(|r| (r.gpa, r.size)).collect();
                            want.sort();
                            if got != want {
                                return Err(format!("{desc}: the table change was refused (log window too small) but the back end's guest memory now has regions {got:x?}, the table in force is {want:x?}"));
                            }
                        }
                    }
                    check_logs(ctx, &logs, &desc, f6_possible)?;
                    continue;
                }
                regions.push(Region { gpa, size: n * PAGE, file: fi, logged_by_impl: false });
                if cur.is_some() {
                    table_changed_after_log = true;
                    f6_possible = true;
                    nt = true;
                }
                ctx.class("region_added");
            }
            Op::RemRegion { reg } => {
                if regions.len() < 2 {
                    continue;
                }
                // never remove region 0 (it hosts the ring)
                let ri = 1 + crate::engine::idx(*reg, regions.len() - 1);
                let r = regions[ri].clone();
                if !s.acked(fe::REM_MEM_REG, &spec::b_single_region(&[r.gpa, r.size, 0x7000_0000_0000 + r.gpa, 0]), &[])? {
                    return Err(format!("{desc}: REM_MEM_REG of a current region was refused"));
                }
                regions.remove(ri);
                ctx.class("region_removed");
            }
        }
        if let Some(c) = cur {
            for (p, ri) in &touched {
                logs[c].exp_spec.insert(*p);
                if regions.get(*ri).map(|r| r.logged_by_impl).unwrap_or(true) {
                    logs[c].exp_dev.insert(*p);
                }
            }
            if table_changed_after_log && !touched.is_empty() {
                ctx.class("write_after_table_change");
            }
        }
        check_logs(ctx, &logs, &desc, f6_possible)?;
    }
    if nt {
        ctx.nontrivial(&(h.rwlock, &h.layout, &h.ops));
        ctx.class("nontrivial");
    }
    ctx.sample(|| json!({"rwlock": h.rwlock, "layout": h.layout, "ops": h.ops, "logs": logs.iter().map(|l| json!({"window_off": l.off, "window_size": l.size, "dirty_pages": l.exp_spec})).collect::<Vec<_>>()}));
    s.close();
    let panics = crate::engine_panic::take();
    if !panics.is_empty() {
        return Err(format!("panic during history: {}", panics[0]));
    }
    Ok(())
}

pub fn run_hist(ctx: &mut Ctx, h: &Hist) -> Result<(), String> {
    if h.rwlock {
        run_generic::<VRw>(ctx, h)
    } else {
        run_generic::<VMutex>(ctx, h)
    }
}

// ------------------------------------------------------------------ concurrent writers

#[derive(Serialize, Deserialize, Debug, Clone, Hash, PartialEq, Eq)]
pub struct ConcCase {
    pub threads: u8,
    pub rounds: u32,
    pub base_page: u8,
    /// while the writers of a round are running, the front end sends SET_LOG_BASE again (same log file): writes that
    /// coincide with the replacement of the bitmaps must still be logged
    #[serde(default)]
    pub switch_log: bool,
}

pub fn run_conc(ctx: &mut Ctx, c: &ConcCase) -> Result<(), String> {
    let nthreads = (c.threads as usize).clamp(2, 16);
    let fx: Fx<VRw> = Fx::new(BeCfg { num_queues: 1, ..Default::default() })?;
    let mut s = Sess::open(fx, None)?;
    // one region of 16 pages starting at a page that is a multiple of 8: threads t and t+8 share log bytes pairwise,
    // threads 0..7 share log byte 0, 8..15 share log byte 1
    let base = (c.base_page as u64 % 4 + 1) * 8;
    let f = memfd(16 * PAGE);
    if !s.acked(fe::SET_MEM_TABLE, &spec::b_mem_table(&[[base * PAGE, 16 * PAGE, 0x7000_0000_0000, 0]]), &[f.as_raw_fd()])? {
        return Err("SET_MEM_TABLE refused".into());
    }
    let log = memfd(2 * PAGE);
    if s.get(fe::SET_LOG_BASE, &spec::b_log(PAGE, 0), &[log.as_raw_fd()])?.is_none() {
        return Err("SET_LOG_BASE refused".into());
    }
    let mem = s.fx.be.st.lock().unwrap().mem.clone().ok_or("no memory")?;
    let go = Arc::new(AtomicUsize::new(0));
    let done = Arc::new(AtomicUsize::new(0));
    let stop = Arc::new(AtomicBool::new(false));
    let mut ths = Vec::new();
    for t in 0..nthreads {
        let (mem, go, done, stop) = (mem.clone(), go.clone(), done.clone(), stop.clone());
        ths.push(std::thread::spawn(move || {
            let mut round = 0usize;
            loop {
                if stop.load(Ordering::Acquire) {
                    return;
                }
                // spin barrier: wait for the round to open
                while go.load(Ordering::Acquire) <= round {
                    if stop.load(Ordering::Acquire) {
                        return;
                    }
                    std::hint::spin_loop();
                }
                round += 1;
                let addr = GuestAddress((base + t as u64) * PAGE + 7);
                let _ = mem.memory().write_obj(t as u8, addr);
                done.fetch_add(1, Ordering::AcqRel);
            }
        }));
    }
    let first_byte = base / 8;
    let mut want = [0u8; 2];
    for t in 0..nthreads {
        want[t / 8] |= 1 << (t % 8);
    }
    let mut res = Ok(());
    for r in 0..c.rounds as usize {
        log.write_all_at(&[0, 0], first_byte).map_err(|e| e.to_string())?;
        done.store(0, Ordering::Release);
        go.store(r + 1, Ordering::Release);
        if c.switch_log {
            if s.get(fe::SET_LOG_BASE, &spec::b_log(PAGE, 0), &[log.as_raw_fd()])?.is_none() {
                res = Err(format!("round {r}: SET_LOG_BASE (same log again) refused"));
                break;
            }
        }
        while done.load(Ordering::Acquire) < nthreads {
            std::hint::spin_loop();
        }
        let mut got = [0u8; 2];
        log.read_exact_at(&mut got, first_byte).map_err(|e| e.to_string())?;
        if got != want {
            res = Err(format!(
                "round {r}: {nthreads} concurrent writers, one page each: log bytes {:#010b} {:#010b}, expected {:#010b} {:#010b} (a writer's bit was lost)",
                got[0], got[1], want[0], want[1]
            ));
            break;
        }
    }
    stop.store(true, Ordering::Release);
    for t in ths {
        let _ = t.join();
    }
    ctx.evals(c.rounds as u64);
    ctx.class_n(if c.switch_log { "concurrent_rounds_during_log_switch" } else { "concurrent_rounds" }, c.rounds as u64);
    ctx.nontrivial(&("conc", nthreads, c.base_page % 4));
    s.close();
    res
}

fn op_strategy() -> impl Strategy<Value = Op> {
    let len = prop_oneof![
        3 => 1u32..16,
        2 => Just(4096u32),
        2 => 4090u32..4104,
        2 => 1u32..20000,
        1 => Just(u32::MAX),
    ];
    let how = prop_oneof![Just(How::WriteSlice), Just(How::WriteObj), Just(How::Store), Just(How::Volatile), Just(How::SubSlice)];
    let inpage = prop_oneof![2 => Just(0u16), 2 => 4080u16..4096, 2 => any::<u16>()];
    let size = prop_oneof![
        4 => (-2i8..=2).prop_map(LogSize::Needed),
        2 => Just(LogSize::Ample),
        1 => Just(LogSize::One),
        1 => (-20i8..20).prop_map(LogSize::Needed),
    ];
    prop_oneof![
        3 => (0u8..4, prop_oneof![9 => Just(false), 1 => Just(true)], size).prop_map(|(off_pages, unaligned, size)| Op::SetLog { off_pages, unaligned, size }),
        12 => (any::<u16>(), any::<u16>(), inpage, len, how).prop_map(|(reg, page, inpage, len, how)| Op::Write { reg, page, inpage, len, how }),
        3 => (any::<u16>(), any::<u32>(), 0u8..6).prop_map(|(reg, off, len_kind)| Op::MarkDirty { reg, off, len_kind }),
        2 => any::<u16>().prop_map(|idx| Op::AddUsed { idx }),
        1 => proptest::collection::vec((0u8..6, 1u8..40), 1..=4).prop_map(|layout| Op::SetTable { layout }),
        2 => (0u8..4, 1u8..20, any::<bool>()).prop_map(|(gap, npages, below)| Op::AddRegion { gap, npages, below }),
        1 => any::<u16>().prop_map(|reg| Op::RemRegion { reg }),
    ]
}

pub fn run(ctx: &mut Ctx) {
    ctx.rule = "histories on a real daemon (Bitmap = BitmapMmapRegion): 1..4 page-aligned regions placed so that regions share log bytes, an \
                accepted SET_LOG_BASE early in the history (window at a page-aligned offset 0..3 pages into the log file, size exactly needed \
                +-2, ample, 1 byte, unaligned offset), then writes through write_slice / write_obj / store / volatile slice / sub-slice / \
                vring.add_used / region.bitmap().mark_dirty (len 0, 1, 4096, 4097, rest of region, usize::MAX) with offsets and lengths crossing \
                0, 1 and many page boundaries, interleaved with further SET_LOG_BASE, SET_MEM_TABLE, ADD_MEM_REG, REM_MEM_REG. After every step \
                every log file ever installed is read back completely (pread) and compared with the expected bitmap; bytes outside the window \
                must stay 0. Concurrent part: 2..16 threads, one page each, pages in the same log byte(s), spin-barrier rounds; in a third of the cases the front end re-sends SET_LOG_BASE while the writers of a round are running. Non-trivial = a \
                write touching >= 2 pages, a used-ring update, a second/refused SET_LOG_BASE while logging, or a table change while logging."
        .into();
    ctx.assumptions = vec![
        "lost-update detection for a non-atomic read-modify-write is probabilistic (stress rounds, not schedule control)".into(),
        "writes are kept inside one region; huge mark_dirty lengths are expected to be clipped to the region".into(),
    ];
    let cases = ctx.tier.pick(700u32, 120_000u32);
    let strat = (any::<bool>(), proptest::collection::vec((0u8..6, 1u8..40), 1..=4), proptest::collection::vec(op_strategy(), 1..=30)).prop_map(|(rwlock, layout, mut ops)| {
        // construction instead of rejection: most histories start logging right away
        if ops.len() > 2 {
            ops.insert(0, Op::SetLog { off_pages: (layout.len() as u8) % 4, unaligned: false, size: LogSize::Needed(((ops.len() % 3) as i8)) });
        }
        Hist { rwlock, layout, ops }
    });
    ctx.prop_check("histories", cases, strat, |ctx, h| run_hist(ctx, h));

    let (ccases, rounds) = ctx.tier.pick((12u32, 2000u32), (40u32, 10_000u32));
    let cstrat = (2u8..=16, Just(rounds), 0u8..4, prop_oneof![2 => Just(false), 1 => Just(true)]).prop_map(|(threads, rounds, base_page, switch_log)| ConcCase { threads, rounds, base_page, switch_log });
    // the spin-barrier rounds need the cores for themselves: in a sharded (thorough) run only shard 0 executes them, all of them
    let shard = ctx.shard;
    if shard.0 == 0 {
        ctx.shard = (0, 1);
        ctx.prop_check("concurrent_writers", ccases, cstrat, |ctx, c| run_conc(ctx, c));
        ctx.shard = shard;
    }
}
