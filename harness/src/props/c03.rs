//! C03 — handler results and failures are reported faithfully to the front-end caller.
//!
//! G: every reply-bearing operation and every acknowledged set-operation, at a random position of
//!    a session, with a scripted handler outcome: success with lattice values / generated config
//!    bytes / with or without file, Err(each error variant), unusable success (config of wrong
//!    length, queue count above the maximum), x REPLY_ACK on/off x NEED_REPLY on/off.
//! O: usable success => the call returns exactly the handler's values, bytes and file; otherwise
//!    the call returns Err, and returns at all (server follows the daemon's policy: any request
//!    error ends serving and closes the connection).

use proptest::prelude::*;
use serde::{Deserialize, Serialize};
use serde_json::json;

use super::c02::{neg_strategy, protocol_valid, Neg, Session};
use crate::engine::Ctx;
use crate::feops::{locally_rejected, make_lent, op_strategy, oversized, FeOp, Ret};
use crate::rec_backend::{config_pattern, Outcome};
use crate::spec;
use std::os::unix::io::AsRawFd;
use vhost::vhost_user::message::VhostUserHeaderFlag;

pub const F2_SIG: &str = "C03/F2-get_config-blocks-forever-when-the-back-end-answers-with-a-zero-size-config";

#[derive(Serialize, Deserialize, Debug, Clone)]
pub struct Case {
    pub neg: Neg,
    pub prefix: Vec<FeOp>,
    pub op: FeOp,
    pub outcome: Outcome,
}

fn usable(op: &FeOp, o: &Outcome) -> bool {
    // the handler method for SET_BACKEND_REQ_FD has no result to fail with
    if matches!(op, FeOp::SetBackendReqFd) {
        return true;
    }
    if o.fail.is_some() {
        return false;
    }
    match op {
        FeOp::GetConfig { size, .. } => o.bytes.as_ref().map(|b| b.len() == *size as usize).unwrap_or(true),
        FeOp::GetQueueNum => o.val.unwrap_or(2) <= 0x8000,
        _ => true,
    }
}

pub fn run_case(ctx: &mut Ctx, c: &Case) -> Result<(), String> {
    let mut s = Session::start(&c.neg)?;
    let res = (|| -> Result<(), String> {
        // a successful prefix (default handler results)
        for op in &c.prefix {
            if !protocol_valid(op) || oversized(op) || locally_rejected(op, &s.st) || super::c02::expected_call(op, &s.st, &[]).is_none() {
                continue;
            }
            // GET_QUEUE_NUM would change the known maximum: keep the prefix neutral
            if matches!(op, FeOp::GetQueueNum | FeOp::SetFeatures(_) | FeOp::SetProtocolFeatures(_) | FeOp::GetFeatures | FeOp::ResetOwner) {
                continue;
            }
            let lent = make_lent(op);
            let (r, _l, hung) = s.call(op, lent);
            s.sent += 1;
            if hung || r.is_err() {
                return Err(format!("prefix call {}({op:?}) with a succeeding handler: {r:?} hung={hung}", op.name()));
            }
            s.wait_idle();
        }
        let op = &c.op;
        if !protocol_valid(op) || oversized(op) || locally_rejected(op, &s.st) || super::c02::expected_call(op, &s.st, &[]).is_none() {
            ctx.class("target_not_applicable_in_state");
            return Ok(());
        }
        let has_reply = op.has_reply(&s.st);
        let acked = op.awaits_ack(&s.st);
        s.wait_idle();
        let before = s.log_len();
        s.rec.lock().unwrap().script.push_back(c.outcome.clone());
        let lent = make_lent(op);
        let (r, _lent, hung) = s.call(op, lent);
        s.sent += 1;
        let good = usable(op, &c.outcome);
        let desc = format!("{}({op:?}) with handler outcome {:?} [reply_ack={}, need_reply={}]", op.name(), c.outcome, s.st.acked_pf & 8 != 0, s.st.need_reply);
        ctx.class(if good { "outcome_usable_success" } else if c.outcome.fail.is_some() { "outcome_handler_error" } else { "outcome_unusable_success" });
        if !good || matches!(op, FeOp::GetSharedObject(_) | FeOp::GetInflightFd(..) | FeOp::SetDeviceStateFd(_)) || c.outcome.val.unwrap_or(0) != 0 {
            ctx.nontrivial(&(op.name(), c.outcome.fail, c.outcome.bytes.as_ref().map(|b| b.len()), c.outcome.file, s.st.acked_pf & 8 != 0, s.st.need_reply, c.prefix.len().min(3)));
        }
        if hung {
            if matches!(op, FeOp::GetConfig { .. }) && !good && ctx.known(F2_SIG) {
                return Ok(());
            }
            return Err(format!("{desc}: the call did not return (the server is {})", match s.server_stopped() { Some(e) => format!("stopped: {e}"), None => "still serving".into() }));
        }
        // the connection stays usable: unless the server gave up (daemon policy: any request error ends the connection),
        // the next reply-bearing call gets *its* reply — a failure encoding that leaves bytes behind, or an answer nobody
        // consumed, would put every later call out of step
        let mut follow_up = |s: &mut Session, ctx: &mut Ctx| -> Result<(), String> {
            s.wait_idle();
            if s.server_stopped().is_some() {
                ctx.class("server_stopped_after_target");
                return Ok(());
            }
            let (r2, _l, hung2) = s.call(&FeOp::GetMaxMemSlots, make_lent(&FeOp::GetMaxMemSlots));
            s.sent += 1;
            ctx.class("follow_up_call_after_target");
            if hung2 {
                return Err(format!("{desc}: afterwards, with the server still serving, get_max_mem_slots() did not return"));
            }
            match r2 {
                Ok(Ret::U64(32)) => Ok(()),
                // the server may have stopped between the check and the call
                Err(_) if s.server_stopped().is_some() => Ok(()),
                other => Err(format!("{desc}: afterwards, with the server still serving, get_max_mem_slots() returned {other:?} instead of the handler's 32 (the stream is out of step)")),
            }
        };
        if !has_reply && !acked {
            ctx.class("no_answer_awaited_only_checked_not_to_hang");
            return follow_up(&mut s, ctx);
        }
        let log = s.rec.lock().unwrap().log[before..].to_vec();
        let returned = s.rec.lock().unwrap().returned.get(before).cloned().flatten();
        if log.len() != 1 {
            return Err(format!("{desc}: handler log has {} new entries", log.len()));
        }
        if !good {
            return match r {
                Err(_) => follow_up(&mut s, ctx),
                Ok(v) => Err(format!("{desc}: the handler failed or produced an unusable result but the call returned Ok({v:?})")),
            };
        }
        // usable success: exactly the handler's values
        let o = &c.outcome;
        let want = match op {
            FeOp::GetFeatures => Ret::U64(o.val.unwrap_or(c.neg.dev_features)),
            FeOp::GetProtocolFeatures => Ret::U64((o.val.unwrap_or(c.neg.dev_pf) | 8) & 0x3f_ffff),
            FeOp::GetQueueNum => Ret::U64(o.val.unwrap_or(2)),
            FeOp::GetVringBase(_) => Ret::U64(o.val2 as u32 as u64),
            FeOp::GetConfig { off, size, flags } => Ret::Config { off: *off, size: *size, flags: *flags, payload: o.bytes.clone().unwrap_or_else(|| config_pattern(*off, *size)) },
            FeOp::GetInflightFd(ms, nq, qs) => Ret::Inflight([o.val.unwrap_or(ms[0]), o.val2], *nq, *qs, returned),
            FeOp::GetSharedObject(_) | FeOp::PostcopyAdvise => Ret::File(returned),
            FeOp::SetDeviceStateFd(_) => Ret::OptFile(if o.file { Some(returned) } else { None }),
            FeOp::GetShmemConfig => Ret::Shmem(o.val.unwrap_or(3) as u32, (0..256u64).map(|i| o.val2.wrapping_mul(i + 1)).collect()),
            FeOp::GetMaxMemSlots => Ret::U64(o.val.unwrap_or(32)),
            _ => Ret::Unit,
        };
        match r {
            Ok(v) if v == want => follow_up(&mut s, ctx),
            Ok(v) => Err(format!("{desc}: the call returned {v:?}, the handler produced {want:?}")),
            Err(e) => Err(format!("{desc}: the handler succeeded with {want:?} but the call returned Err({e})")),
        }
    })();
    ctx.sample(|| json!({"negotiation": c.neg, "prefix": c.prefix.iter().map(|o| o.name()).collect::<Vec<_>>(), "op": c.op, "outcome": c.outcome}));
    s.finish();
    res
}

// ------------------------------------------------------------------ (b) the real daemon: failures reported by the device

#[derive(Serialize, Deserialize, Debug, Clone)]
pub struct DaemonCase {
    /// 0 get_shmem_config, 1 get_shared_object, 2 set_config, 3 check_device_state, 4 set_device_state_fd,
    /// 5 get_config (wrong length when cfg_delta != 0), 6 set_log_base with an unmappable log, 7 get_max_mem_slots
    pub op: u8,
    pub fail: bool,
    pub cfg_delta: i8,
    pub need_reply: bool,
    pub wrap: crate::daemon_fx::Wrap,
}

/// The front end talks to a running VhostUserDaemon (the daemon's own error policy, not the harness's emulation of it):
/// a failure the *device* reports must reach the caller as an error in bounded time, a success as the device's values.
pub fn run_daemon_case(ctx: &mut Ctx, c: &DaemonCase) -> Result<(), String> {
    use crate::daemon_fx::{BeCfg, Fx, VMutex};
    use std::sync::atomic::Ordering;
    use vhost::vhost_user::message::{VhostTransferStateDirection, VhostTransferStatePhase, VhostUserConfigFlags, VhostUserProtocolFeatures, VhostUserSharedMsg};
    use vhost::vhost_user::VhostUserFrontend;
    use vhost::VhostBackend;
    let mut fx: Fx<VMutex> = Fx::new_wrapped(BeCfg { num_queues: 2, ..Default::default() }, c.wrap).map_err(|e| format!("fixture: {e}"))?;
    fx.connect().map_err(|e| format!("fixture: {e}"))?;
    let mut f = fx.frontend(2);
    let res = (|| -> Result<(), String> {
        let feats = f.get_features().map_err(|e| format!("negotiation: {e:?}"))?;
        f.set_features(feats).map_err(|e| format!("negotiation: {e:?}"))?;
        let pf = f.get_protocol_features().map_err(|e| format!("negotiation: {e:?}"))?;
        f.set_protocol_features(pf).map_err(|e| format!("negotiation: {e:?}"))?;
        f.set_owner().map_err(|e| format!("negotiation: {e:?}"))?;
        if c.need_reply {
            f.set_hdr_flags(VhostUserHeaderFlag::NEED_REPLY);
        }
        let wrong_len = c.op == 5 && c.cfg_delta != 0;
        let must_fail = (c.fail && matches!(c.op, 0..=4)) || wrong_len || c.op == 6;
        fx.be.fail_device_calls.store(c.fail, Ordering::SeqCst);
        fx.be.config_len_delta.store(if c.op == 5 { c.cfg_delta as i32 } else { 0 }, Ordering::SeqCst);
        let op = c.op;
        let has_answer = match op {
            2 => c.need_reply && pf.contains(VhostUserProtocolFeatures::REPLY_ACK),
            _ => true,
        };
        let mut f2 = f.clone();
        let h = std::thread::Builder::new()
            .name("c03_daemon_call".into())
            .spawn(move || -> Result<String, String> {
                let e = |e: vhost::Error| format!("{e:?}");
                match op {
                    0 => f2.get_shmem_config().map(|c| format!("{c:?}")).map_err(|x| format!("{x:?}")),
                    1 => {
                        let mut u = VhostUserSharedMsg::default();
                        u.uuid = uuid::Uuid::from_bytes([9; 16]);
                        f2.get_shared_object(&u).map(|_| "file".to_string()).map_err(|x| format!("{x:?}"))
                    }
                    2 => f2.set_config(0x10, VhostUserConfigFlags::WRITABLE, &[1, 2, 3, 4]).map(|_| "()".into()).map_err(|x| format!("{x:?}")),
                    3 => f2.check_device_state().map(|_| "()".into()).map_err(|x| format!("{x:?}")),
                    4 => {
                        let fd = crate::fdtrack::make_fd(crate::fdtrack::FdKind::Pipe);
                        f2.set_device_state_fd(VhostTransferStateDirection::SAVE, VhostTransferStatePhase::STOPPED, fd).map(|r| format!("{:?}", r.is_some())).map_err(|x| format!("{x:?}"))
                    }
                    5 => f2.get_config(0x20, 8, VhostUserConfigFlags::WRITABLE, &[0u8; 8]).map(|(_, p)| format!("{p:?}")).map_err(|x| format!("{x:?}")),
                    6 => {
                        // a log the daemon cannot map: an eventfd
                        let ev = crate::daemon_fx::new_eventfd();
                        let region = vhost::VhostUserDirtyLogRegion { mmap_size: 0x1000, mmap_offset: 0, mmap_handle: ev.as_raw_fd() };
                        f2.set_log_base(0, Some(region)).map(|_| "()".into()).map_err(e)
                    }
                    _ => f2.get_max_mem_slots().map(|v| v.to_string()).map_err(|x| format!("{x:?}")),
                }
            })
            .map_err(|e| e.to_string())?;
        let t0 = std::time::Instant::now();
        while !h.is_finished() {
            if t0.elapsed() > std::time::Duration::from_secs(10) {
                return Err(format!("{c:?}: the call did not return within 10 s (the daemon {}; awaited answer: {has_answer})", if crate::daemon_fx::thread_states().iter().any(|(_, n)| n.starts_with("vverif-daemon")) { "is still serving the connection" } else { "thread has ended" }));
            }
            std::thread::sleep(std::time::Duration::from_micros(200));
        }
        let r = h.join().map_err(|_| "call thread panicked".to_string())?;
        ctx.class(if must_fail { "daemon_device_failure" } else { "daemon_device_success" });
        ctx.nontrivial(&("daemon", c.op, c.fail, c.cfg_delta.signum(), c.need_reply, c.wrap));
        ctx.sample(|| json!({"daemon_case": c, "result": format!("{r:?}")}));
        match (&r, must_fail, has_answer) {
            (Ok(v), true, true) => Err(format!("{c:?}: the device failed (or produced an unusable result) but the call returned Ok({v})")),
            (Err(e), false, _) => Err(format!("{c:?}: the device succeeded but the call returned Err({e})")),
            (Ok(v), false, _) if c.op == 5 && v != &format!("{:?}", crate::rec_backend::config_pattern(0x20, 8)) => Err(format!("{c:?}: get_config returned {v}, the device produced {:?}", crate::rec_backend::config_pattern(0x20, 8))),
            (Ok(v), false, _) if c.op == 7 && v != "509" && v.parse::<u64>().is_err() => Err(format!("{c:?}: odd value {v}")),
            _ => Ok(()),
        }
    })();
    drop(f);
    let td = fx.teardown_checked(10);
    res?;
    td
}

fn outcome_strategy() -> impl Strategy<Value = Outcome> {
    (
        prop_oneof![2 => Just(None), 3 => (0u8..16).prop_map(Some)],
        prop_oneof![1 => Just(None), 2 => crate::engine::lat64().prop_map(Some), 1 => prop_oneof![Just(0x8000u64), Just(0x8001u64), Just(0u64), Just(u64::MAX)].prop_map(Some)],
        crate::engine::lat64(),
        prop_oneof![
            3 => Just(None),
            1 => Just(Some(vec![])),
            2 => proptest::collection::vec(any::<u8>(), 0..64).prop_map(Some),
            1 => Just(Some(vec![7u8; 4096])),
        ],
        any::<bool>(),
    )
        .prop_map(|(fail, val, val2, bytes, file)| Outcome { fail, val, val2, bytes, file })
}

/// the operations C03 is about: reply-bearing ones and acknowledged set-operations
fn target_strategy() -> impl Strategy<Value = FeOp> {
    op_strategy().prop_filter("operation must reach the handler", |op| !matches!(op, FeOp::SetLogFd | FeOp::SetFeatures(_) | FeOp::SetProtocolFeatures(_) | FeOp::SetLogBase { region: None, .. }))
}

pub fn run(ctx: &mut Ctx) {
    ctx.rule = "for every reply-bearing operation and every acknowledged set-operation: a scripted handler outcome from {success with lattice values / \
                generated config bytes / with or without file, Err(16 error variants), unusable success (config bytes of length 0, n+-k, 4096; \
                queue count 0x8001 / 2^64-1)} x REPLY_ACK on/off x NEED_REPLY on/off x {virtio features acknowledged with bit 30, without it, never}, after a prefix of 0..5 successful calls; both real endpoints, \
                server with the daemon's stop-at-first-error policy; the call runs in a helper thread so that a call that never returns is seen. \
                (b) against a running VhostUserDaemon (direct / Mutex / RwLock wrapped back end): 8 reply-bearing or acknowledged operations x device-level success / failure / wrong-length configuration x NEED_REPLY. Non-trivial = a failing / unusable outcome, a success with a file or a non-zero value; distinct by (operation, outcome class, \
                ack configuration, prefix length class)."
        .into();
    ctx.assumptions = vec![
        "set-operations without a negotiated acknowledgement are outside the statement and only checked not to hang".into(),
        "a call still blocked 10 s after it was issued, with the server idle or stopped, counts as an indefinite wait".into(),
        "the server closes the connection after any request error (what VhostUserDaemon does); a server that keeps a dead request's connection open is not modelled".into(),
    ];
    let n = ctx.tier.pick(15_000u32, 1_500_000u32);
    let neg = neg_strategy().prop_map(|mut n| {
        // the gates must be open: all features offered and acknowledged, REPLY_ACK varies with ack_pf
        n.dev_features = spec::VIRTIO_F_PROTOCOL_FEATURES | 0x1_2000_0003;
        n.dev_pf = 0x3f_ffff & !(1 << 8);
        // mostly the usual order (all virtio features acknowledged before the protocol features); sometimes the protocol
        // features are negotiated while VHOST_USER_F_PROTOCOL_FEATURES is only offered (SET_FEATURES absent or without bit 30):
        // the front end awaits acknowledgements in that state too
        n.ack_vf = match n.ack_vf {
            None => None,
            Some(v) if v & spec::VIRTIO_F_PROTOCOL_FEATURES == 0 => Some(n.dev_features & !spec::VIRTIO_F_PROTOCOL_FEATURES),
            Some(_) => Some(n.dev_features),
        };
        n.ack_pf = Some(match n.ack_pf {
            Some(p) if p & 8 == 0 => 0x3f_ffff & !8,
            _ => 0x3f_ffff,
        });
        n.max_queue = 0x8000;
        n.query_queue_num = false;
        n
    });
    // one case in six reads the configuration space with a handler result of a related length (the in-band failure
    // encoding: wrong-length results must be reported and must not leave the stream out of step)
    let cfg = (crate::gen::config_window(), 0u32..4, prop_oneof![Just(0i32), Just(-1), Just(1), Just(-4), Just(8), -64i32..64], any::<u8>()).prop_map(|((off, size), flags, d, seed)| {
        let n = (size as i64 + d as i64).clamp(0, 4096) as usize;
        (FeOp::GetConfig { off, size, flags }, Outcome { bytes: Some((0..n).map(|i| seed.wrapping_add(i as u8)).collect()), ..Default::default() })
    });
    let target = prop_oneof![5 => (target_strategy(), outcome_strategy()), 1 => cfg];
    let strat = (neg, proptest::collection::vec(op_strategy(), 0..5), target).prop_map(|(neg, prefix, (op, outcome))| Case { neg, prefix, op, outcome });
    ctx.prop_check("outcomes", n, strat, |ctx, c| run_case(ctx, c));

    // (b) the same question against a running VhostUserDaemon (its own policy towards failed requests), device-level failures
    let mut dc = Vec::new();
    for wrap in [crate::daemon_fx::Wrap::Direct, crate::daemon_fx::Wrap::Mutex, crate::daemon_fx::Wrap::RwLock] {
        for op in 0u8..=7 {
            for fail in [false, true] {
                for need_reply in [false, true] {
                    for cfg_delta in if op == 5 { vec![0i8, -1, 1, -8, 8] } else { vec![0i8] } {
                        dc.push(DaemonCase { op, fail, cfg_delta, need_reply, wrap });
                    }
                }
            }
        }
    }
    let reps = ctx.tier.pick(1usize, 100usize);
    let dc: Vec<DaemonCase> = (0..reps).flat_map(|_| dc.clone()).collect();
    ctx.enumerate("daemon_device_outcomes", dc, |ctx, c| run_daemon_case(ctx, c));
}
