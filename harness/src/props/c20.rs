//! C20 — message validators accept exactly the protocol-valid encodings.
//!
//! G: exhaustive product of per-field boundary sets for every message type (values built from raw
//!    bytes), plus random 64-bit patterns.  O: `refpred` (u128 arithmetic), both directions.
//! NT: lattice tuples (all within one step of a rule boundary); distinct tuples counted.

use proptest::prelude::*;
use serde::{Deserialize, Serialize};
use serde_json::json;
use vhost::vhost_user::message::*;
use vhost::vhost_user::verif as hooks;
use vm_memory::ByteValued;

use crate::engine::{lat64, Ctx};
use crate::refpred::{self, Verdict};

#[derive(Serialize, Deserialize, Debug, Clone, Hash)]
pub struct VCase {
    pub ty: String,
    pub f: Vec<u64>,
}

pub const TYPES: &[(&str, usize)] = &[
    ("fe_hdr", 3),
    ("be_hdr", 3),
    ("gpu_hdr", 3),
    ("memory", 2),
    ("region", 4),
    ("single", 5),
    ("vring_addr", 6),
    ("config", 3),
    ("inflight", 4),
    ("log", 2),
    ("xfer", 2),
    ("shared", 2),
    ("mmap", 6),
];

fn from_bytes<T: ByteValued + Default>(b: &[u8]) -> T {
    let mut t = T::default();
    let s = t.as_mut_slice();
    let n = s.len().min(b.len());
    s[..n].copy_from_slice(&b[..n]);
    t
}

fn le(words: &[(u64, usize)]) -> Vec<u8> {
    let mut v = Vec::new();
    for (w, n) in words {
        v.extend_from_slice(&w.to_le_bytes()[..*n]);
    }
    v
}

fn hdr_bytes(f: &[u64]) -> [u8; 12] {
    let mut b = [0u8; 12];
    b[0..4].copy_from_slice(&(f[0] as u32).to_le_bytes());
    b[4..8].copy_from_slice(&(f[1] as u32).to_le_bytes());
    b[8..12].copy_from_slice(&(f[2] as u32).to_le_bytes());
    b
}

/// (what the library says, what the protocol rules say)
pub fn judge(c: &VCase) -> (bool, Verdict) {
    let f = &c.f;
    match c.ty.as_str() {
        "fe_hdr" => (
            hooks::frontend_hdr_is_valid(&hdr_bytes(f)),
            refpred::hdr(f[0] as u32, f[1] as u32, f[2] as u32, refpred::FE_MAX_CODE),
        ),
        "be_hdr" => (
            hooks::backend_hdr_is_valid(&hdr_bytes(f)),
            refpred::hdr(f[0] as u32, f[1] as u32, f[2] as u32, refpred::BE_MAX_CODE),
        ),
        "gpu_hdr" => (
            hooks::gpu_hdr_is_valid(&hdr_bytes(f)),
            refpred::gpu_hdr(f[0] as u32, f[1] as u32, f[2] as u32),
        ),
        "memory" => {
            let m: VhostUserMemory = from_bytes(&le(&[(f[0], 4), (f[1], 4)]));
            (VhostUserMsgValidator::is_valid(&m), refpred::memory(f[0] as u32, f[1] as u32))
        }
        "region" => {
            let m: VhostUserMemoryRegion = from_bytes(&le(&[(f[0], 8), (f[1], 8), (f[2], 8), (f[3], 8)]));
            (VhostUserMsgValidator::is_valid(&m), refpred::region(f[0], f[1], f[2], f[3]))
        }
        "single" => {
            let m: VhostUserSingleMemoryRegion =
                from_bytes(&le(&[(f[0], 8), (f[1], 8), (f[2], 8), (f[3], 8), (f[4], 8)]));
            (VhostUserMsgValidator::is_valid(&m), refpred::single_region(f[0], f[1], f[2], f[3], f[4]))
        }
        "vring_addr" => {
            // index, flags, descriptor, used, available, log
            let m: VhostUserVringAddr =
                from_bytes(&le(&[(f[0], 4), (f[1], 4), (f[2], 8), (f[3], 8), (f[4], 8), (f[5], 8)]));
            (VhostUserMsgValidator::is_valid(&m), refpred::vring_addr(f[1] as u32, f[2], f[3], f[4]))
        }
        "config" => {
            let m: VhostUserConfig = from_bytes(&le(&[(f[0], 4), (f[1], 4), (f[2], 4)]));
            (VhostUserMsgValidator::is_valid(&m), refpred::config(f[0] as u32, f[1] as u32, f[2] as u32))
        }
        "inflight" => {
            let m: VhostUserInflight = from_bytes(&le(&[(f[0], 8), (f[1], 8), (f[2], 2), (f[3], 2)]));
            (VhostUserMsgValidator::is_valid(&m), refpred::inflight(f[0], f[1], f[2] as u16, f[3] as u16))
        }
        "log" => {
            let m: VhostUserLog = from_bytes(&le(&[(f[0], 8), (f[1], 8)]));
            (VhostUserMsgValidator::is_valid(&m), refpred::log(f[0], f[1]))
        }
        "xfer" => {
            let m: VhostUserTransferDeviceState = from_bytes(&le(&[(f[0], 4), (f[1], 4)]));
            (VhostUserMsgValidator::is_valid(&m), refpred::transfer_state(f[0] as u32, f[1] as u32))
        }
        "shared" => {
            let b = le(&[(f[0], 8), (f[1], 8)]);
            let m: VhostUserSharedMsg = from_bytes(&b);
            let mut u = [0u8; 16];
            u.copy_from_slice(&b);
            (VhostUserMsgValidator::is_valid(&m), refpred::shared_msg(&u))
        }
        "mmap" => {
            // shmid(1) padding(7) fd_offset shm_offset len flags
            let m: VhostUserMMap =
                from_bytes(&le(&[(f[0], 1), (f[1], 7), (f[2], 8), (f[3], 8), (f[4], 8), (f[5], 8)]));
            (VhostUserMsgValidator::is_valid(&m), refpred::mmap(f[2], f[3], f[4], f[5]))
        }
        other => panic!("unknown type {other}"),
    }
}

pub const F1_SIG: &str = "C20/F1-single-region-validator-accepts-invalid-region";

pub fn check_one(ctx: &mut Ctx, c: &VCase) -> Result<(), String> {
    check(ctx, c, false)
}

fn check(ctx: &mut Ctx, c: &VCase, lattice: bool) -> Result<(), String> {
    let (got, want) = judge(c);
    if lattice {
        ctx.nontrivial(c);
    }
    ctx.class(&format!("{}:{}", c.ty, match want { Some(true) => "valid", Some(false) => "invalid", None => "spec_silent" }));
    match want {
        None => Ok(()),
        Some(w) if w == got => Ok(()),
        Some(w) => {
            if c.ty == "single" && got && !w && ctx.known(F1_SIG) {
                return Ok(());
            }
            Err(format!("{} fields={:x?}: library is_valid={} but protocol rules say {}", c.ty, c.f, got, w))
        }
    }
}

const P64: &[u64] = &[
    0, 1, 2, 3, 4, 8, 15, 16, 17, 0xfff, 0x1000, 0x1001, 0x7fff_ffff, 0x8000_0000, 0xffff_ffff, 0x1_0000_0000,
    0x7fff_ffff_ffff_ffff, 0x8000_0000_0000_0000, 0x8000_0000_0000_0001, 0xffff_ffff_ffff_efff,
    0xffff_ffff_ffff_f000, 0xffff_ffff_ffff_ffef, 0xffff_ffff_ffff_fff0, 0xffff_ffff_ffff_fffe,
    0xffff_ffff_ffff_ffff,
];
const FLAGS32: &[u64] = &[
    0, 1, 2, 3, 4, 5, 8, 9, 0xc, 0xd, 0xf, 0x10, 0x11, 0x1d, 0x20, 0x40, 0x80, 0x100, 0x1000, 0x8000, 0x1_0000,
    0x8000_0000, 0x8000_0001, 0xffff_fff1, 0xffff_ffff, 6, 7, 0xe,
];

fn product(sets: &[&[u64]]) -> Vec<Vec<u64>> {
    let mut out: Vec<Vec<u64>> = vec![vec![]];
    for s in sets {
        let mut next = Vec::with_capacity(out.len() * s.len());
        for p in &out {
            for v in s.iter() {
                let mut q = p.clone();
                q.push(*v);
                next.push(q);
            }
        }
        out = next;
    }
    out
}

fn lattice_for(ty: &str) -> Vec<Vec<u64>> {
    match ty {
        "fe_hdr" | "be_hdr" | "gpu_hdr" => {
            let mut codes: Vec<u64> = (0..=80).collect();
            codes.extend([0xffff, 0x1_0000, 0x1_0001, 0x8000_0000, 0xffff_ffff, 0x1_0001u64 << 8]);
            let mut flags: Vec<u64> = FLAGS32.to_vec();
            for b in 0..32 {
                flags.push(1u64 << b);
                flags.push((1u64 << b) | 1);
            }
            flags.sort();
            flags.dedup();
            let sizes = [0u64, 1, 12, 4095, 4096, 4097, 0x8000_0000, 0xffff_ffff];
            product(&[&codes, &flags, &sizes])
        }
        "memory" => {
            let mut n: Vec<u64> = (0..=34).collect();
            n.extend([255, 256, 0x8000_0000, 0xffff_ffff]);
            product(&[&n, &[0, 1, 0x8000_0000, 0xffff_ffff]])
        }
        "region" => product(&[P64, P64, P64, P64]),
        "single" => product(&[&[0, 1], P64, P64, P64, P64]),
        "vring_addr" => {
            let mut a = Vec::new();
            for hi in [0u64, 0x1000, 0x8000_0000_0000_0000, 0xffff_ffff_ffff_fff0] {
                for lo in 0..16 {
                    a.push(hi | lo);
                }
            }
            let fl = [0u64, 1, 2, 3, 4, 0x8000_0000, 0xffff_ffff];
            product(&[&[0, 7], &fl, &a, &a, &a, &[0, 0xffff_ffff_ffff_ffff]])
        }
        "config" => {
            let v: Vec<u64> = vec![
                0, 1, 2, 0xff, 0x100, 0x101, 0x7ff, 0x800, 0x801, 0xeff, 0xf00, 0xf01, 0xffe, 0xfff, 0x1000, 0x1001,
                0x7fff_ffff, 0x8000_0000, 0x8000_0001, 0xffff_efff, 0xffff_f000, 0xffff_f001, 0xffff_fffe, 0xffff_ffff,
            ];
            let mut fl: Vec<u64> = vec![0, 1, 2, 3, 4, 5, 7, 8, 0x8000_0000, 0xffff_ffff];
            for b in 0..32 {
                fl.push(1 << b);
            }
            fl.sort();
            fl.dedup();
            product(&[&v, &v, &fl])
        }
        "inflight" => {
            let q = [0u64, 1, 2, 255, 256, 0x7fff, 0x8000, 0xffff];
            product(&[&[0, 1, 0x1000, 0xffff_ffff_ffff_ffff], &[0, 0x1000, 0xffff_ffff_ffff_ffff], &q, &q])
        }
        "log" => product(&[P64, P64]),
        "xfer" => {
            let v = [0u64, 1, 2, 3, 4, 0xff, 0x100, 0x8000_0000, 0xffff_ffff];
            product(&[&v, &v])
        }
        "shared" => {
            let mut h: Vec<u64> = vec![0, 1, 0x8000_0000_0000_0000, u64::MAX, u64::MAX - 1, u64::MAX >> 1, 0xff, !0xffu64];
            for b in [0, 7, 8, 31, 32, 63] {
                h.push(1 << b);
                h.push(!(1u64 << b));
            }
            h.sort();
            h.dedup();
            product(&[&h, &h])
        }
        "mmap" => {
            let p: &[u64] = &[
                0, 1, 2, 0xfff, 0x1000, 0x8000_0000_0000_0000, 0xffff_ffff_ffff_efff, 0xffff_ffff_ffff_f000,
                0xffff_ffff_ffff_fffe, 0xffff_ffff_ffff_ffff,
            ];
            let mut fl: Vec<u64> = vec![0, 1, 2, 3, u64::MAX, u64::MAX - 1];
            for b in 0..64 {
                fl.push(1 << b);
            }
            fl.sort();
            fl.dedup();
            product(&[&[0, 1, 255], &[0, 1, 0x00ff_ffff_ffff_ffff], p, p, p, &fl])
        }
        _ => unreachable!(),
    }
}

pub fn run(ctx: &mut Ctx) {
    ctx.rule = "exhaustive product of per-field boundary sets per message type, values built from raw bytes \
                (the three private header types through the verif-hooks accessors), judged against refpred.rs \
                (u128 arithmetic) in both directions; plus random 64-bit patterns (proptest). Non-trivial = a \
                lattice tuple (every lattice value lies within one step of a rule boundary); distinct tuples \
                counted by hash. Random patterns are the trivial bulk and are not counted as non-trivial."
        .into();
    ctx.assumptions = vec![
        "refpred.rs is transcribed from the property text / vhost-user specification (trusted base)".into(),
        "a range whose exclusive end is exactly 2^64 counts as a 64-bit wrap (the 64-bit sum overflows); a non-zero padding word of the single-region body and a zero inflight area size are spec-silent (accepted either way)".into(),
    ];
    ctx.exhaustive = Some(true);

    for (ty, _n) in TYPES {
        let tuples = lattice_for(ty);
        ctx.extra.insert(format!("lattice_size_{ty}"), json!(tuples.len()));
        let mut first = true;
        let name = format!("lattice_{ty}");
        ctx.enumerate(&name, tuples.into_iter().map(|f| VCase { ty: ty.to_string(), f }), |ctx, c| {
            if first {
                first = false;
            }
            let r = check(ctx, c, true);
            ctx.sample(|| json!({"type": c.ty, "fields_hex": c.f.iter().map(|x| format!("{x:#x}")).collect::<Vec<_>>(), "library": judge(c).0, "rules": format!("{:?}", judge(c).1)}));
            r
        });
    }

    let per_type = ctx.tier.pick(20_000u32, 12_000_000u32);
    for (ty, n) in TYPES {
        let ty_s = ty.to_string();
        let strat = proptest::collection::vec(lat64(), *n..=*n).prop_map(move |f| VCase { ty: ty_s.clone(), f });
        ctx.prop_check(&format!("random_{ty}"), per_type, strat, |ctx, c| check(ctx, c, false));
    }
    crate::fuzzing::corpus_check(ctx, "c20_valid");
}
