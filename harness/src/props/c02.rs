//! C02 — front-end calls reach the back-end handler with identical arguments and files.
//! (also hosts the session machinery shared with C03)
//!
//! G: sessions `vec(FeOp, 1..24)` over all public Frontend operations with generated arguments,
//!    preceded by a generated negotiation (feature subsets, REPLY_ACK / NEED_REPLY on or off), run
//!    against the real BackendReqHandler (library's Mutex adapter over a recording handler) served
//!    in a thread with the daemon's policy (stop and close at the first error).
//! O: model of what the API accepts; accepted call => exactly one new handler entry, same
//!    operation, equal arguments and payload, descriptors identical to the ones passed, present
//!    before the call returns when a reply/ack is awaited; locally rejected call => nothing reaches
//!    the server; lent descriptors stay open.  Adapter sub-check: VhostBackend through the
//!    RwLock/RefCell adapters of vhost/src/backend.rs.

use std::os::unix::io::AsRawFd;
use std::os::unix::net::UnixStream;
use std::sync::atomic::{AtomicUsize, Ordering};
use std::sync::{Arc, Mutex};
use std::time::{Duration, Instant};

use proptest::prelude::*;
use serde::{Deserialize, Serialize};
use serde_json::json;
use vhost::vhost_user::message::{VhostUserHeaderFlag, VhostUserProtocolFeatures};
use vhost::vhost_user::{BackendReqHandler, Frontend, VhostUserFrontend};
use vhost::VhostBackend;

use crate::engine::Ctx;
use crate::fdtrack::FileId;
use crate::feops::{self, locally_rejected, make_lent, op_strategy, oversized, perform, FeOp, FeState, Lent, Ret};
use crate::rawpeer;
use crate::rec_backend::{Call, Outcome, Rec};
use crate::spec::{self, pf};
use crate::srv::err_name;

pub const F4_SIG: &str = "C02/F4-vring-descriptor-call-with-queue-index-above-255-accepted-but-never-handled";
pub const BOUND: Duration = Duration::from_secs(10);

#[derive(Serialize, Deserialize, Debug, Clone, Hash, PartialEq, Eq)]
pub struct Neg {
    pub dev_features: u64,
    pub dev_pf: u64,
    /// None: SET_FEATURES is not sent
    pub ack_vf: Option<u64>,
    pub ack_pf: Option<u64>,
    pub need_reply: bool,
    pub max_queue: u64,
    pub query_queue_num: bool,
}

pub struct Session {
    pub f: Frontend,
    pub fsock: UnixStream,
    pub probe: UnixStream,
    pub rec: Arc<Mutex<Rec>>,
    pub served: Arc<AtomicUsize>,
    pub server_result: Arc<Mutex<Option<String>>>,
    pub thread: Option<std::thread::JoinHandle<()>>,
    pub st: FeState,
    /// messages put on the wire so far
    pub sent: usize,
    pub server_tid: Arc<std::sync::atomic::AtomicI32>,
}

impl Session {
    pub fn start(neg: &Neg) -> Result<Session, String> {
        let (fs, ss) = UnixStream::pair().map_err(|e| e.to_string())?;
        let probe = ss.try_clone().map_err(|e| e.to_string())?;
        let fsock = fs.try_clone().map_err(|e| e.to_string())?;
        let rec = Arc::new(Mutex::new(Rec::new(neg.dev_features, neg.dev_pf)));
        let mut server = BackendReqHandler::from_stream(ss, rec.clone());
        let served = Arc::new(AtomicUsize::new(0));
        let server_result = Arc::new(Mutex::new(None));
        let server_tid = Arc::new(std::sync::atomic::AtomicI32::new(0));
        let (s2, r2, t2) = (served.clone(), server_result.clone(), server_tid.clone());
        let conn = probe.try_clone().map_err(|e| e.to_string())?;
        let thread = std::thread::Builder::new()
            .name("c02_server".into())
            .spawn(move || {
                t2.store(unsafe { libc::gettid() }, Ordering::SeqCst);
                loop {
                    let r = server.handle_request();
                    s2.fetch_add(1, Ordering::SeqCst);
                    if let Err(e) = r {
                        *r2.lock().unwrap() = Some(err_name(&e));
                        break;
                    }
                }
                // daemon policy (vhost-user-backend/src/lib.rs): the connection is shut down when serving ends
                let _ = conn.shutdown(std::net::Shutdown::Both);
                drop(server);
            })
            .map_err(|e| e.to_string())?;
        let f = Frontend::from_stream(fs, neg.max_queue);
        let mut s = Session { f, fsock, probe, rec, served, server_result, thread: Some(thread), st: FeState { max_queue: neg.max_queue, ..Default::default() }, sent: 0, server_tid };
        // negotiation through the real endpoints
        let v = s.f.get_features().map_err(|e| format!("negotiation get_features: {e:?}"))?;
        s.sent += 1;
        s.st.offered_vf = v;
        if let Some(a) = neg.ack_vf {
            s.f.set_features(a).map_err(|e| format!("negotiation set_features: {e:?}"))?;
            s.st.acked_vf = a & v;
            s.sent += 1;
        }
        if v & spec::VIRTIO_F_PROTOCOL_FEATURES != 0 {
            if let Some(p) = neg.ack_pf {
                let offered = s.f.get_protocol_features().map_err(|e| format!("negotiation get_protocol_features: {e:?}"))?;
                let ack = VhostUserProtocolFeatures::from_bits_truncate(p) & offered;
                s.f.set_protocol_features(ack).map_err(|e| format!("negotiation set_protocol_features: {e:?}"))?;
                s.st.acked_pf = ack.bits();
                s.sent += 2;
            }
        }
        if neg.need_reply {
            s.f.set_hdr_flags(VhostUserHeaderFlag::NEED_REPLY);
            s.st.need_reply = true;
        }
        if neg.query_queue_num && s.st.acked_pf & pf::mask(pf::MQ) != 0 {
            let n = s.f.get_queue_num().map_err(|e| format!("negotiation get_queue_num: {e:?}"))?;
            s.st.max_queue = n;
            s.sent += 1;
        }
        s.wait_idle();
        Ok(s)
    }

    pub fn log_len(&self) -> usize {
        self.rec.lock().unwrap().log.len()
    }

    /// wait until the server has finished every message that was sent (or stopped)
    pub fn wait_idle(&self) {
        let t0 = Instant::now();
        while (rawpeer::fionread(self.probe.as_raw_fd()) > 0 || self.served.load(Ordering::SeqCst) < self.sent) && self.server_result.lock().unwrap().is_none() && t0.elapsed() < BOUND {
            std::thread::yield_now();
        }
    }

    pub fn server_stopped(&self) -> Option<String> {
        self.server_result.lock().unwrap().clone()
    }

    /// Perform the call in a helper thread.  The third result is true when the call never returned:
    /// diagnosed by quiescence, not by a deadline -- the caller is asleep, the server thread is asleep
    /// or gone, and no byte is in flight in either direction, over many consecutive looks.
    pub fn call(&mut self, op: &FeOp, lent: Lent) -> (Result<Ret, String>, Lent, bool) {
        let mut f = self.f.clone();
        let op2 = op.clone();
        let caller_tid = Arc::new(std::sync::atomic::AtomicI32::new(0));
        let ct = caller_tid.clone();
        let h = std::thread::Builder::new()
            .name("c02_caller".into())
            .spawn(move || {
                ct.store(unsafe { libc::gettid() }, Ordering::SeqCst);
                let mut lent = lent;
                let r = perform(&mut f, &op2, &mut lent);
                (r, lent)
            })
            .unwrap();
        let t0 = Instant::now();
        let mut hung = false;
        let mut quiet = 0u32;
        while !h.is_finished() {
            let ctid = caller_tid.load(Ordering::SeqCst);
            let stid = self.server_tid.load(Ordering::SeqCst);
            let server_quiet = self.server_stopped().is_some() || (stid != 0 && matches!(crate::sched::thread_state(stid), Some('S') | None));
            let caller_quiet = ctid != 0 && matches!(crate::sched::thread_state(ctid), Some('S'));
            let wire_quiet = rawpeer::fionread(self.probe.as_raw_fd()) == 0 && rawpeer::fionread(self.fsock.as_raw_fd()) == 0;
            if server_quiet && caller_quiet && wire_quiet {
                quiet += 1;
            } else {
                quiet = 0;
            }
            if quiet > 400 || t0.elapsed() > BOUND * 3 {
                hung = true;
                let _ = self.fsock.shutdown(std::net::Shutdown::Both);
                let t1 = Instant::now();
                while !h.is_finished() && t1.elapsed() < Duration::from_secs(2) {
                    std::thread::yield_now();
                }
                break;
            }
            std::thread::yield_now();
        }
        match h.join() {
            Ok((r, lent)) => (r, lent, hung),
            Err(_) => (Err("caller panicked".into()), make_lent(op), hung),
        }
    }

    pub fn finish(mut self) {
        let _ = self.fsock.shutdown(std::net::Shutdown::Both);
        if let Some(t) = self.thread.take() {
            let t0 = Instant::now();
            while !t.is_finished() && t0.elapsed() < BOUND {
                std::thread::yield_now();
            }
            if t.is_finished() {
                let _ = t.join();
            }
        }
        if let Ok(mut r) = self.rec.lock() {
            r.held.clear();
            r.backends.clear();
            r.gpu_backends.clear();
        }
    }
}

/// the handler invocation an accepted call must produce
pub fn expected_call(op: &FeOp, st: &FeState, ids: &[FileId]) -> Option<Call> {
    let id0 = ids.first().copied().unwrap_or(FileId { dev: 0, ino: 0, evid: -9 });
    Some(match op {
        FeOp::GetFeatures => Call::GetFeatures,
        FeOp::SetFeatures(v) => Call::SetFeatures(*v),
        FeOp::SetOwner => Call::SetOwner,
        FeOp::ResetOwner => Call::ResetOwner,
        FeOp::SetMemTable(rs) => Call::SetMemTable(rs.iter().map(|r| r.f).collect(), ids.to_vec()),
        FeOp::SetLogBase { region: Some((size, off)), .. } if st.acked_pf & pf::mask(pf::LOG_SHMFD) != 0 => Call::SetLogBase(*size, *off, id0),
        FeOp::SetLogBase { .. } | FeOp::SetLogFd => return None,
        FeOp::SetVringNum(q, n) => Call::SetVringNum(*q, *n as u32),
        FeOp::SetVringAddr { q, flags, desc, used, avail, log } => Call::SetVringAddr { index: *q, flags: *flags, desc: *desc, used: *used, avail: *avail, log: log.unwrap_or(0) },
        FeOp::SetVringBase(q, b) => Call::SetVringBase(*q, *b as u32),
        FeOp::GetVringBase(q) => Call::GetVringBase(*q),
        FeOp::SetVringCall(q) => Call::SetVringCall(*q as u8, Some(id0)),
        FeOp::SetVringKick(q) => Call::SetVringKick(*q as u8, Some(id0)),
        FeOp::SetVringErr(q) => Call::SetVringErr(*q as u8, Some(id0)),
        FeOp::GetProtocolFeatures => Call::GetProtocolFeatures,
        FeOp::SetProtocolFeatures(v) => Call::SetProtocolFeatures(*v & 0x3f_ffff),
        FeOp::GetQueueNum => Call::GetQueueNum,
        FeOp::ResetDevice => Call::ResetDevice,
        FeOp::SetVringEnable(q, e) => Call::SetVringEnable(*q, *e),
        FeOp::GetConfig { off, size, flags } => Call::GetConfig(*off, *size, *flags),
        FeOp::SetConfig { off, flags, buf } => Call::SetConfig(*off, buf.clone(), *flags),
        FeOp::SetBackendReqFd => Call::SetBackendReqFd(FileId { dev: 0, ino: 0, evid: -1 }),
        FeOp::GetSharedObject(u) => Call::GetSharedObject(*u),
        FeOp::GetInflightFd(ms, nq, qs) => Call::GetInflightFd([ms[0], ms[1], *nq as u64, *qs as u64]),
        FeOp::SetInflightFd(ms, nq, qs) => Call::SetInflightFd([ms[0], ms[1], *nq as u64, *qs as u64], id0),
        FeOp::GetMaxMemSlots => Call::GetMaxMemSlots,
        FeOp::AddMemRegion(r) => Call::AddMemRegion(r.f, id0),
        FeOp::RemoveMemRegion(r) => Call::RemoveMemRegion(r.f),
        FeOp::GetShmemConfig => Call::GetShmemConfig,
        FeOp::SetDeviceStateFd(d) => Call::SetDeviceStateFd(*d, 0, id0),
        FeOp::CheckDeviceState => Call::CheckDeviceState,
        FeOp::PostcopyAdvise => Call::PostcopyAdvise,
        FeOp::PostcopyListen => Call::PostcopyListen,
        FeOp::PostcopyEnd => Call::PostcopyEnd,
    })
}

/// arguments that are protocol-valid (the domain of "arguments the API accepts")
pub fn protocol_valid(op: &FeOp) -> bool {
    use crate::refpred as rp;
    match op {
        FeOp::SetMemTable(rs) => rs.iter().all(|r| r.f[1] == 0 || rp::region(r.f[0], r.f[1], r.f[2], r.f[3]) == Some(true)),
        FeOp::AddMemRegion(r) | FeOp::RemoveMemRegion(r) => r.f[1] == 0 || rp::region(r.f[0], r.f[1], r.f[2], r.f[3]) == Some(true),
        FeOp::GetInflightFd(_, nq, qs) | FeOp::SetInflightFd(_, nq, qs) => *nq != 0 && *qs != 0,
        FeOp::SetLogBase { region: Some((size, off)), .. } => rp::log(*size, *off) == Some(true),
        FeOp::SetVringAddr { flags, desc, used, avail, .. } => *flags > 1 || rp::vring_addr(*flags, *desc, *used, *avail) == Some(true),
        _ => true,
    }
}

#[derive(Serialize, Deserialize, Debug, Clone)]
pub struct SessCase {
    pub neg: Neg,
    pub ops: Vec<FeOp>,
}

pub fn neg_strategy() -> impl Strategy<Value = Neg> {
    (
        prop_oneof![3 => Just(spec::VIRTIO_F_PROTOCOL_FEATURES | 0x1_2000_0003), 1 => Just(0x1_2000_0003u64)],
        prop_oneof![3 => Just(0x3f_ffffu64 & !(1 << 8)), 1 => any::<u64>().prop_map(|v| v & 0x3f_ffff & !(1 << 8))],
        prop_oneof![4 => Just(Some(spec::VIRTIO_F_PROTOCOL_FEATURES | 0x1_0000_0003)), 1 => Just(Some(0x1_0000_0003u64)), 1 => Just(None)],
        prop_oneof![4 => Just(Some(0x3f_ffffu64)), 1 => Just(Some(0x3f_ffffu64 & !8)), 2 => any::<u64>().prop_map(|v| Some(v & 0x3f_ffff)), 1 => Just(None)],
        any::<bool>(),
        prop_oneof![Just(1u64), Just(2), Just(255), Just(256), Just(257), Just(0x8000)],
        prop_oneof![3 => Just(false), 1 => Just(true)],
    )
        .prop_map(|(dev_features, dev_pf, ack_vf, ack_pf, need_reply, max_queue, query_queue_num)| Neg { dev_features, dev_pf, ack_vf, ack_pf, need_reply, max_queue, query_queue_num })
}

pub fn run_session(ctx: &mut Ctx, c: &SessCase) -> Result<(), String> {
    let mut s = Session::start(&c.neg)?;
    let res = (|| -> Result<(), String> {
        for (i, op) in c.ops.iter().enumerate() {
            if !protocol_valid(op) || oversized(op) {
                ctx.class("op_outside_accepted_domain_skipped");
                continue;
            }
            let desc = format!("call #{i} {}({:?}) in state {:?}", op.name(), op, s.st);
            let rejected = locally_rejected(op, &s.st);
            let Some(_) = expected_call(op, &s.st, &[]) else {
                // operations this server can never handle (SET_LOG_FD, SET_LOG_BASE without shmfd region)
                ctx.class("op_not_served_skipped");
                continue;
            };
            s.wait_idle();
            let before = s.log_len();
            let served_before = s.served.load(Ordering::SeqCst);
            let lent = make_lent(op);
            let ids = lent.wire_ids();
            let (r, lent, hung) = s.call(op, lent);
            if hung {
                return Err(format!("{desc}: the call did not return"));
            }
            if rejected {
                ctx.class("locally_rejected");
                ctx.nontrivial(&("rej", op.name(), s.st.acked_pf & 0xff, s.st.max_queue));
                let unrepresentable = matches!(op, FeOp::SetVringCall(q) | FeOp::SetVringKick(q) | FeOp::SetVringErr(q) if *q > 255 && (*q as u64) < s.st.max_queue);
                if r.is_ok() {
                    if unrepresentable && ctx.known(F4_SIG) {
                        return Ok(());
                    }
                    return Err(format!("{desc}: must be rejected locally but returned {r:?}{}", if unrepresentable { " (a ring index above 255 cannot be carried by the message)" } else { "" }));
                }
                s.wait_idle();
                if s.log_len() != before || s.served.load(Ordering::SeqCst) != served_before || s.server_stopped().is_some() {
                    return Err(format!("{desc}: rejected call reached the server (handler log {} -> {}, requests served {} -> {})", before, s.log_len(), served_before, s.served.load(Ordering::SeqCst)));
                }
                continue;
            }
            // accepted by the API: the handler is invoked exactly once with equal arguments
            s.sent += 1;
            let awaited = op.has_reply(&s.st) || op.awaits_ack(&s.st);
            if !awaited {
                // fire-and-forget: let the server consume it
                let t0 = Instant::now();
                while s.served.load(Ordering::SeqCst) == served_before && t0.elapsed() < BOUND {
                    std::thread::yield_now();
                }
            }
            let log = s.rec.lock().unwrap().log[before..].to_vec();
            let want = expected_call(op, &s.st, &ids).unwrap();
            // the message carries the ring index of a descriptor call in 8 bits: a larger index cannot arrive unchanged
            let unrepresentable = matches!(op, FeOp::SetVringCall(q) | FeOp::SetVringKick(q) | FeOp::SetVringErr(q) if *q > 255);
            if log.len() != 1 || log[0] != want || unrepresentable {
                // F4: vring descriptor calls with an index that does not fit the 8 index bits of the message
                if unrepresentable && ctx.known(F4_SIG) {
                    return Ok(()); // the server has stopped or was given another ring: end of this session
                }
                return Err(format!("{desc}: accepted by the API (returned {r:?}) but the handler saw {log:?}, expected exactly [{want:?}] (server: {:?})", s.server_stopped()));
            }
            if let Err(e) = &r {
                return Err(format!("{desc}: handler was invoked and succeeded but the call returned Err({e})"));
            }
            if matches!(op, FeOp::SetBackendReqFd) && s.rec.lock().unwrap().backends.is_empty() {
                return Err(format!("{desc}: no request channel object was delivered"));
            }
            // lent descriptors stay open and unchanged
            for (fd, id) in lent.owned.iter().zip(lent.ids.iter()) {
                if crate::fdtrack::file_id(fd.as_raw_fd()) != Some(*id) {
                    return Err(format!("{desc}: a descriptor lent for transmission was closed or replaced"));
                }
            }
            let reply_u64 = match &r {
                Ok(Ret::U64(v)) => Some(*v),
                _ => None,
            };
            // the model of what the endpoint knows (GET_PROTOCOL_FEATURES etc. do not change gates)
            s.st.apply(op, reply_u64);
            if i >= 1 {
                ctx.nontrivial(&("acc", op.name(), s.st.need_reply, s.st.acked_pf & 8 != 0, crate::engine::hash_of(&format!("{op:?}")) % 32));
            }
            ctx.class("accepted_and_delivered");
            drop(lent);
        }
        Ok(())
    })();
    ctx.sample(|| json!({"negotiation": c.neg, "ops": c.ops.iter().map(|o| o.name()).collect::<Vec<_>>()}));
    s.finish();
    res
}

// ------------------------------------------------------------------ locally rejected => nothing on the wire (raw peer)

#[derive(Serialize, Deserialize, Debug, Clone)]
pub struct RejCase {
    pub st: FeState,
    pub op: FeOp,
}

pub fn run_rej(ctx: &mut Ctx, c: &RejCase) -> Result<(), String> {
    if !protocol_valid(&c.op) || oversized(&c.op) || !locally_rejected(&c.op, &c.st) {
        ctx.class("not_a_rejection_case");
        return Ok(());
    }
    let (mut f, peer) = super::c01::frontend_in_state(&c.st);
    let mut lent = make_lent(&c.op);
    // a call that (wrongly) waits for an answer must not hang the check: answer is pre-queued
    let _ = rawpeer::send_all(peer.as_raw_fd(), &spec::reply(c.op.code(), &spec::b_u64(0)), &[]);
    let r = perform(&mut f, &c.op, &mut lent);
    let pieces = rawpeer::drain(peer.as_raw_fd(), 1 << 16).map_err(|e| e.to_string())?;
    let n: usize = pieces.iter().map(|p| p.bytes.len()).sum();
    ctx.nontrivial(&("rejraw", c.op.name(), c.st.acked_pf, c.st.max_queue, crate::engine::hash_of(&format!("{:?}", c.op)) % 16));
    ctx.class("locally_rejected_raw");
    if n != 0 {
        return Err(format!("{}({:?}) in state {:?} must be rejected locally but put {n} bytes on the wire", c.op.name(), c.op, c.st));
    }
    if r.is_ok() {
        return Err(format!("{}({:?}) in state {:?} must be rejected locally but returned Ok", c.op.name(), c.op, c.st));
    }
    Ok(())
}

// ------------------------------------------------------------------ RwLock / RefCell adapters of vhost::backend

mod adapters {
    use super::*;
    use std::cell::RefCell;
    use std::os::unix::io::RawFd;
    use std::sync::RwLock;
    use vhost::VhostBackendMut;
    use vhost::{Result, VhostUserDirtyLogRegion, VhostUserMemoryRegionInfo, VringConfigData};
    use vmm_sys_util::eventfd::EventFd;

    #[derive(Default)]
    pub struct RecMut {
        pub log: Vec<String>,
    }
    impl VhostBackendMut for RecMut {
        fn get_features(&mut self) -> Result<u64> {
            self.log.push("get_features".into());
            Ok(0x1234_5678_9abc)
        }
        fn set_features(&mut self, features: u64) -> Result<()> {
            self.log.push(format!("set_features {features}"));
            Ok(())
        }
        fn set_owner(&mut self) -> Result<()> {
            self.log.push("set_owner".into());
            Ok(())
        }
        fn reset_owner(&mut self) -> Result<()> {
            self.log.push("reset_owner".into());
            Ok(())
        }
        fn set_mem_table(&mut self, regions: &[VhostUserMemoryRegionInfo]) -> Result<()> {
            self.log.push(format!("set_mem_table {:?}", regions.iter().map(|r| (r.guest_phys_addr, r.memory_size, r.userspace_addr, r.mmap_offset, r.mmap_handle)).collect::<Vec<_>>()));
            Ok(())
        }
        fn set_log_base(&mut self, base: u64, region: Option<VhostUserDirtyLogRegion>) -> Result<()> {
            self.log.push(format!("set_log_base {base} {:?}", region.map(|r| (r.mmap_size, r.mmap_offset, r.mmap_handle))));
            Ok(())
        }
        fn set_log_fd(&mut self, fd: RawFd) -> Result<()> {
            self.log.push(format!("set_log_fd {fd}"));
            Ok(())
        }
        fn set_vring_num(&mut self, queue_index: usize, num: u16) -> Result<()> {
            self.log.push(format!("set_vring_num {queue_index} {num}"));
            Ok(())
        }
        fn set_vring_addr(&mut self, queue_index: usize, c: &VringConfigData) -> Result<()> {
            self.log.push(format!("set_vring_addr {queue_index} {} {} {} {} {} {} {:?}", c.queue_max_size, c.queue_size, c.flags, c.desc_table_addr, c.used_ring_addr, c.avail_ring_addr, c.log_addr));
            Ok(())
        }
        fn set_vring_base(&mut self, queue_index: usize, base: u16) -> Result<()> {
            self.log.push(format!("set_vring_base {queue_index} {base}"));
            Ok(())
        }
        fn get_vring_base(&mut self, queue_index: usize) -> Result<u32> {
            self.log.push(format!("get_vring_base {queue_index}"));
            Ok(queue_index as u32 ^ 0x55aa)
        }
        fn set_vring_call(&mut self, queue_index: usize, fd: &EventFd) -> Result<()> {
            self.log.push(format!("set_vring_call {queue_index} {}", fd.as_raw_fd()));
            Ok(())
        }
        fn set_vring_kick(&mut self, queue_index: usize, fd: &EventFd) -> Result<()> {
            self.log.push(format!("set_vring_kick {queue_index} {}", fd.as_raw_fd()));
            Ok(())
        }
        fn set_vring_err(&mut self, queue_index: usize, fd: &EventFd) -> Result<()> {
            self.log.push(format!("set_vring_err {queue_index} {}", fd.as_raw_fd()));
            Ok(())
        }
    }

    #[derive(Serialize, Deserialize, Debug, Clone)]
    pub struct AdCase {
        pub refcell: bool,
        pub ops: Vec<(u8, u64, u64, u64)>,
    }

    fn apply<B: VhostBackend>(b: &B, k: u8, a: u64, x: u64, y: u64, e: &EventFd) -> (String, String) {
        let q = (a % 70000) as usize;
        match k % 14 {
            0 => ("get_features".into(), format!("{:?}", b.get_features().ok())),
            1 => (format!("set_features {a}"), format!("{:?}", b.set_features(a).ok())),
            2 => ("set_owner".into(), format!("{:?}", b.set_owner().ok())),
            3 => ("reset_owner".into(), format!("{:?}", b.reset_owner().ok())),
            4 => {
                let r = [VhostUserMemoryRegionInfo::new(a, x, y, a ^ x, 7), VhostUserMemoryRegionInfo::new(y, a, x, 3, 9)];
                (format!("set_mem_table {:?}", r.iter().map(|r| (r.guest_phys_addr, r.memory_size, r.userspace_addr, r.mmap_offset, r.mmap_handle)).collect::<Vec<_>>()), format!("{:?}", b.set_mem_table(&r).ok()))
            }
            5 => {
                let reg = if x % 2 == 0 { Some(VhostUserDirtyLogRegion { mmap_size: x, mmap_offset: y, mmap_handle: 5 }) } else { None };
                (format!("set_log_base {a} {:?}", reg.map(|r| (r.mmap_size, r.mmap_offset, r.mmap_handle))), format!("{:?}", b.set_log_base(a, reg).ok()))
            }
            6 => (format!("set_log_fd {}", a as i32), format!("{:?}", b.set_log_fd(a as i32).ok())),
            7 => (format!("set_vring_num {q} {}", x as u16), format!("{:?}", b.set_vring_num(q, x as u16).ok())),
            8 => {
                let c = VringConfigData { queue_max_size: x as u16, queue_size: y as u16, flags: (a >> 3) as u32, desc_table_addr: a, used_ring_addr: x, avail_ring_addr: y, log_addr: if a % 2 == 0 { Some(x ^ y) } else { None } };
                (format!("set_vring_addr {q} {} {} {} {} {} {} {:?}", c.queue_max_size, c.queue_size, c.flags, c.desc_table_addr, c.used_ring_addr, c.avail_ring_addr, c.log_addr), format!("{:?}", b.set_vring_addr(q, &c).ok()))
            }
            9 => (format!("set_vring_base {q} {}", x as u16), format!("{:?}", b.set_vring_base(q, x as u16).ok())),
            10 => (format!("get_vring_base {q}"), format!("{:?}", b.get_vring_base(q).ok())),
            11 => (format!("set_vring_call {q} {}", e.as_raw_fd()), format!("{:?}", b.set_vring_call(q, e).ok())),
            12 => (format!("set_vring_kick {q} {}", e.as_raw_fd()), format!("{:?}", b.set_vring_kick(q, e).ok())),
            _ => (format!("set_vring_err {q} {}", e.as_raw_fd()), format!("{:?}", b.set_vring_err(q, e).ok())),
        }
    }

    pub fn run_ad(ctx: &mut Ctx, c: &AdCase) -> std::result::Result<(), String> {
        let e = EventFd::new(0).map_err(|e| e.to_string())?;
        let mut want = Vec::new();
        let mut rets = Vec::new();
        let got = if c.refcell {
            let b = RefCell::new(RecMut::default());
            for (k, a, x, y) in &c.ops {
                let (w, r) = apply(&b, *k, *a, *x, *y, &e);
                want.push(w);
                rets.push((*k, *a, r));
            }
            b.into_inner().log
        } else {
            let b = RwLock::new(RecMut::default());
            for (k, a, x, y) in &c.ops {
                let (w, r) = apply(&b, *k, *a, *x, *y, &e);
                want.push(w);
                rets.push((*k, *a, r));
            }
            b.into_inner().unwrap().log
        };
        ctx.class(if c.refcell { "adapter_refcell" } else { "adapter_rwlock" });
        ctx.nontrivial(&(c.refcell, &c.ops));
        if got != want {
            let k = got.iter().zip(want.iter()).position(|(a, b)| a != b).unwrap_or(got.len().min(want.len()));
            return Err(format!("{} adapter: invocation #{k} reached the inner back end as {:?}, caller invoked {:?}", if c.refcell { "RefCell" } else { "RwLock" }, got.get(k), want.get(k)));
        }
        for (k, a, r) in rets {
            let ok = match k % 14 {
                0 => r == format!("{:?}", Some(0x1234_5678_9abcu64)),
                10 => r == format!("{:?}", Some((a % 70000) as u32 ^ 0x55aa)),
                _ => r == "Some(())",
            };
            if !ok {
                return Err(format!("adapter returned {r} for operation kind {}", k % 14));
            }
        }
        Ok(())
    }
}

pub fn run(ctx: &mut Ctx) {
    ctx.rule = "sessions of 1..24 Frontend calls (all public operations; arguments from the C01 generators restricted to protocol-valid values, plus \
                every locally-rejected class: index >= max for max in {1,2,255,256,257,0x8000}, empty / 33-region / zero-sized region lists, invalid \
                config windows, un-negotiated features) after a generated negotiation, against the real BackendReqHandler over the library's \
                Mutex adapter; sub-check 2: locally rejected calls against a raw peer (byte count); sub-check 3: VhostBackend through the RwLock \
                and RefCell adapters over a recording VhostBackendMut. Non-trivial = an accepted call at position >= 2 of a session, or any locally \
                rejected call; distinct by (operation, argument class, negotiation class)."
        .into();
    ctx.assumptions = vec![
        "'arguments the API accepts' are protocol-valid arguments (non-wrapping regions, aligned ring addresses, non-zero inflight geometry); others are skipped".into(),
        "SET_LOG_FD and SET_LOG_BASE without a shared-memory region cannot be served by this back-end server and are skipped in sessions".into(),
        "handler results are always success here (failures: C03)".into(),
    ];
    let n = ctx.tier.pick(2500u32, 400_000u32);
    let strat = (neg_strategy(), proptest::collection::vec(op_strategy(), 1..24)).prop_map(|(neg, ops)| SessCase { neg, ops });
    ctx.prop_check("sessions", n, strat, |ctx, c| run_session(ctx, c));

    let n = ctx.tier.pick(20_000u32, 3_000_000u32);
    let st = (
        prop_oneof![Just(1u64), Just(2), Just(255), Just(256), Just(257), Just(0x8000)],
        prop_oneof![Just(0u64), Just(spec::VIRTIO_F_PROTOCOL_FEATURES | 1 << 32)],
        any::<bool>(),
        prop_oneof![2 => Just(0u64), 2 => any::<u64>().prop_map(|v| v & 0x3f_ffff), 1 => Just(0x3f_ffffu64)],
        any::<bool>(),
    )
        .prop_map(|(max_queue, offered_vf, ackvf, acked_pf, need_reply)| FeState { max_queue, offered_vf, acked_vf: if ackvf { offered_vf } else { 0 }, acked_pf: if offered_vf != 0 { acked_pf } else { 0 }, need_reply });
    let rej = (st, op_strategy()).prop_map(|(st, op)| RejCase { st, op });
    ctx.prop_check("locally_rejected_raw_peer", n, rej, |ctx, c| run_rej(ctx, c));

    let n = ctx.tier.pick(3000u32, 1_000_000u32);
    let ad = (any::<bool>(), proptest::collection::vec((0u8..14, crate::engine::lat64(), crate::engine::lat64(), crate::engine::lat64()), 1..20)).prop_map(|(refcell, ops)| adapters::AdCase { refcell, ops });
    ctx.prop_check("rwlock_refcell_adapters", n, ad, |ctx, c| adapters::run_ad(ctx, c));
}
