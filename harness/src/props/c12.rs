//! C12 — no lost or post-stop kick dispatch under any thread interleaving.
//!
//! G: schedules as data over the hold points of the worker loop (after_epoll, after_read_kick,
//!    before_dispatch) and of the control path (after_state_change, after_epoll_update, reply read
//!    by the front end), for three scenarios on one ring that is started, enabled and has one guest
//!    kick raised: (A) SET_VRING_ENABLE 0 then 1, (B) GET_VRING_BASE then restart with a new kick
//!    descriptor, (C) RESET_DEVICE then SET_FEATURES without PROTOCOL_FEATURES.  A schedule is a
//!    word over {W, C, K}: which party advances to its next hold point / a further guest kick.
//!    All words are enumerated.
//! O: invariants over the recorded history (one logical clock): no handler entry between "reply to
//!    the disabling message received" and "enabling message sent"; every kick on a descriptor that
//!    stays current is followed by a handler entry; the worker stays alive.

use std::os::unix::io::AsRawFd;
use std::sync::Arc;
use std::time::{Duration, Instant};

use serde::{Deserialize, Serialize};
use serde_json::json;
use vhost_user_backend::VringT;

use crate::daemon_fx::{new_eventfd, BeCfg, EventHook, Fx, VMutex, VRw, GM};
use crate::engine::Ctx;
use crate::rawclient::RawClient;
use crate::rawpeer;
use crate::sched::{asleep, Sched};
use crate::spec::{self, fe};

#[derive(Serialize, Deserialize, Debug, Clone, Copy, Hash, PartialEq, Eq)]
pub enum Scenario {
    DisableEnable,
    StopRestart,
    ResetRefeature,
    /// GET_VRING_BASE, then the ring is started again with the *same* kick eventfd: kicks raised on it are not dropped
    /// with a descriptor, so every one of them must be handled (before the stop or after the restart)
    StopRestartSameFd,
}

#[derive(Serialize, Deserialize, Debug, Clone, Copy, Hash, PartialEq, Eq)]
pub enum Step {
    W,
    C,
    K,
}

#[derive(Serialize, Deserialize, Debug, Clone, Hash, PartialEq, Eq)]
pub struct Case {
    pub scenario: Scenario,
    pub rwlock: bool,
    pub word: Vec<Step>,
    /// the worker stays parked where the word left it until the enabling message has been processed and acknowledged
    /// (the enabling message overtakes a worker that is in the middle of a wake-up)
    #[serde(default)]
    pub hold: bool,
    /// between the reply to the disabling message and the enabling message the front end also sends SET_VRING_CALL
    /// (a message that neither starts nor enables a ring) and the guest kicks once more
    #[serde(default)]
    pub call_mid: bool,
}

pub const F9A_SIG: &str = "C12/F9a-handler-entered-after-disable-reply-worker-past-read_kick";
pub const F9B_SIG: &str = "C12/F9b-kick-consumed-while-disabled-after-epoll-wakeup";
pub const F9C_SIG: &str = "C12/F9c-stopped-ring-dispatched-read_kick-ignores-started";

const WORKER: &str = "vring_worker";
const DAEMON: &str = "vverif-daemon";
const BOUND: Duration = Duration::from_secs(10);

/// bytes written to `sock` that the peer has not read yet
fn outq(sock: i32) -> usize {
    let mut n: libc::c_int = 0;
    unsafe { libc::ioctl(sock, libc::TIOCOUTQ, &mut n) };
    n.max(0) as usize
}

fn find_tid(name: &str) -> Option<i32> {
    for e in std::fs::read_dir("/proc/self/task").ok()?.flatten() {
        if let Ok(c) = std::fs::read_to_string(e.path().join("comm")) {
            if c.trim() == name {
                return e.file_name().to_str()?.parse().ok();
            }
        }
    }
    None
}

/// Let the party whose threads are named `prefix` advance: release its parked thread (if any) and
/// wait until it parks again or is asleep without being parked (blocked in the kernel / idle).
/// Returns the name of the hold point reached, or None.
fn advance(sched: &Sched, prefix: &str, extra_done: impl Fn() -> bool, busy: impl Fn() -> bool) -> Option<&'static str> {
    let cur = sched.parked().into_iter().find(|p| p.thread.starts_with(prefix));
    let cur_id = cur.as_ref().map(|p| p.id);
    if let Some(p) = cur {
        sched.release(p.id);
    }
    let t0 = Instant::now();
    loop {
        if let Some(p) = sched.parked().into_iter().find(|p| p.thread.starts_with(prefix) && Some(p.id) != cur_id) {
            return Some(p.name);
        }
        if extra_done() {
            return None;
        }
        if let Some(tid) = find_tid(prefix) {
            if !busy() && asleep(tid, 4) && !busy() && sched.parked().iter().all(|p| !p.thread.starts_with(prefix)) {
                return None;
            }
        } else {
            return None;
        }
        if t0.elapsed() > BOUND {
            return None;
        }
    }
}

fn run_generic<V: VringT<GM> + Clone + Send + Sync + 'static>(ctx: &mut Ctx, c: &Case) -> Result<(), String> {
    let mut fx: Fx<V> = Fx::new(BeCfg { num_queues: 1, ..Default::default() })?;
    fx.connect()?;
    let cl = RawClient::new(fx.peer.as_ref().unwrap().try_clone().unwrap());
    // negotiation with PROTOCOL_FEATURES acknowledged: the ring is enabled explicitly
    cl.negotiate(|f| f & ((1 << 32) | spec::VIRTIO_F_PROTOCOL_FEATURES), |p| p).map_err(|e| format!("negotiation: {e}"))?;
    let k1 = new_eventfd();
    for (code, body, fds) in [
        (fe::SET_VRING_KICK, spec::b_u64(0), vec![k1.as_raw_fd()]),
        (fe::SET_VRING_ENABLE, spec::b_vring_state(0, 1), vec![]),
    ] {
        if cl.ack(code, &body, &fds).map_err(|e| format!("setup: {e}"))? != 0 {
            return Err("setup message refused".into());
        }
    }
    fx.barrier()?;
    let sched = Sched::install();
    let s2 = sched.clone();
    let hook: EventHook<V> = Arc::new(move |_be, ev, _vr, _t| {
        if ev == 0 {
            s2.mark("handler_entry");
        }
    });
    fx.be.st.lock().unwrap().hook = Some(hook);

    let res = (|| -> Result<(), String> {
        for p in ["worker.after_epoll", "worker.after_read_kick", "worker.before_dispatch"] {
            sched.arm(p, WORKER);
        }
        for p in ["ctl.after_state_change", "ctl.after_epoll_update"] {
            sched.arm(p, DAEMON);
        }
        // the initial guest kick
        let mut kicks: Vec<u64> = Vec::new();
        kicks.push(sched.mark("kick"));
        k1.write(1).map_err(|e| e.to_string())?;
        // defined start of every word: the worker has been woken by epoll and sits at after_epoll
        sched
            .wait_parked(|p| p.name == "worker.after_epoll" && p.thread.starts_with(WORKER), BOUND)
            .ok_or("the worker was not woken by the initial kick")?;

        let (dis_code, dis_body): (u32, Vec<u8>) = match c.scenario {
            Scenario::DisableEnable => (fe::SET_VRING_ENABLE, spec::b_vring_state(0, 0)),
            Scenario::StopRestart | Scenario::StopRestartSameFd => (fe::GET_VRING_BASE, spec::b_vring_state(0, 0)),
            Scenario::ResetRefeature => (fe::RESET_DEVICE, vec![]),
        };
        let sock = cl.sock.as_raw_fd();
        let mut ctl_sent = false;
        let mut reply_at: Option<u64> = None;
        let mut trace: Vec<String> = Vec::new();
        let read_reply = |sched: &Sched| -> Result<u64, String> {
            let (f, _) = cl.recv_frame().map_err(|e| format!("reply to the disabling message: {e}"))?;
            if f.code != dis_code {
                return Err(format!("reply code {} for request {dis_code}", f.code));
            }
            Ok(sched.mark("reply_received"))
        };
        for st in &c.word {
            match st {
                Step::W => {
                    let r = advance(&sched, WORKER, || false, || false);
                    trace.push(format!("W:{}", r.unwrap_or("idle")));
                }
                Step::C => {
                    if reply_at.is_some() {
                        trace.push("C:done".into());
                        continue;
                    }
                    if !ctl_sent {
                        ctl_sent = true;
                        cl.send(dis_code, dis_code != fe::GET_VRING_BASE, &dis_body, &[]).map_err(|e| e.to_string())?;
                        sched.mark("disable_sent");
                    }
                    let r = advance(&sched, DAEMON, || rawpeer::fionread(sock) >= 12, || outq(sock) > 0);
                    match r {
                        Some(n) => trace.push(format!("C:{n}")),
                        None => {
                            if rawpeer::fionread(sock) >= 12 {
                                reply_at = Some(read_reply(&sched)?);
                                trace.push("C:reply".into());
                            } else {
                                trace.push("C:blocked".into());
                            }
                        }
                    }
                }
                Step::K => {
                    // a further guest kick on the (still installed) descriptor
                    kicks.push(sched.mark("kick"));
                    k1.write(1).map_err(|e| e.to_string())?;
                    trace.push("K".into());
                }
            }
        }
        // finish the disabling message if the word did not
        if !ctl_sent {
            cl.send(dis_code, dis_code != fe::GET_VRING_BASE, &dis_body, &[]).map_err(|e| e.to_string())?;
            sched.mark("disable_sent");
        }
        for p in ["ctl.after_state_change", "ctl.after_epoll_update"] {
            sched.disarm(p);
        }
        if reply_at.is_none() {
            // let the control path run to its reply while the worker stays where the word left it
            for p in sched.parked().into_iter().filter(|p| p.thread.starts_with(DAEMON)) {
                sched.release(p.id);
            }
            reply_at = Some(read_reply(&sched)?);
        }
        let reply_at = reply_at.unwrap();
        let worker_parked_at = sched.parked().into_iter().find(|p| p.thread.starts_with(WORKER)).map(|p| p.name);
        if c.hold && worker_parked_at.is_none() {
            // nothing to hold: this run would repeat the plain variant of the word
            ctx.class("hold_variant_worker_not_parked_skipped");
            sched.disarm_all();
            sched.release_all();
            return Ok(());
        }
        let settle = || {
            // give the worker the chance to do what it is going to do (quiescence, not a deadline)
            let t0 = Instant::now();
            while let Some(tid) = find_tid(WORKER) {
                if asleep(tid, 6) || t0.elapsed() > BOUND {
                    break;
                }
            }
        };
        if !c.hold {
            // now the worker may run on: everything it does until the enabling message is "after the reply"
            sched.disarm_all();
            sched.release_all();
            settle();
        } else {
            trace.push(format!("hold:{}", worker_parked_at.unwrap_or("?")));
            ctx.class(&format!("hold_at_{}", worker_parked_at.unwrap_or("?")));
        }
        if c.call_mid && !c.hold {
            let callfd = new_eventfd();
            if cl.ack(fe::SET_VRING_CALL, &spec::b_u64(0), &[callfd.as_raw_fd()]).map_err(|e| format!("SET_VRING_CALL while inactive: {e}"))? != 0 {
                return Err("SET_VRING_CALL refused".into());
            }
            kicks.push(sched.mark("kick"));
            k1.write(1).map_err(|e| e.to_string())?;
            trace.push("mid:SET_VRING_CALL+K".into());
            ctx.class("call_and_kick_while_inactive");
            settle();
        }
        let enable_at = sched.mark("enable_sent");
        let k2 = new_eventfd();
        let r = match c.scenario {
            Scenario::DisableEnable => cl.ack(fe::SET_VRING_ENABLE, &spec::b_vring_state(0, 1), &[]),
            Scenario::StopRestart => cl.ack(fe::SET_VRING_KICK, &spec::b_u64(0), &[k2.as_raw_fd()]),
            Scenario::StopRestartSameFd => cl.ack(fe::SET_VRING_KICK, &spec::b_u64(0), &[k1.as_raw_fd()]),
            Scenario::ResetRefeature => cl.ack(fe::SET_FEATURES, &spec::b_u64(1 << 32), &[]),
        };
        if r.map_err(|e| format!("enabling message: {e}"))? != 0 {
            return Err("enabling message refused".into());
        }
        if c.hold {
            // the enabling message has been processed and acknowledged: only now does the worker continue its wake-up
            sched.mark("worker_released_after_enable");
            sched.disarm_all();
            sched.release_all();
            settle();
        }
        // (3) worker alive
        fx.barrier().map_err(|e| format!("after the scenario: {e} (worker thread ended?) trace {trace:?}"))?;
        let hist = sched.history();
        if std::env::var("VERIF_DEBUG").is_ok() {
            for h in &hist {
                eprintln!("  {:>3} {:<32} {}", h.0, h.1, h.2);
            }
        }
        let entries: Vec<u64> = hist.iter().filter(|h| h.1 == "handler_entry").map(|h| h.0).collect();
        let clock_of = |name: &str, thread: &str| hist.iter().filter(|h| h.1 == name && h.2.starts_with(thread)).map(|h| h.0).collect::<Vec<u64>>();
        let state_change = clock_of("ctl.after_state_change", DAEMON).first().copied();
        let w_epoll = clock_of("worker.after_epoll", WORKER);
        let w_read = clock_of("worker.after_read_kick", WORKER);

        // classification
        let interleaved = {
            // a control step strictly between two worker steps of the same wake-up
            let wsteps: Vec<usize> = trace.iter().enumerate().filter(|(_, t)| t.starts_with("W:worker")).map(|(i, _)| i).collect();
            let csteps: Vec<usize> = trace.iter().enumerate().filter(|(_, t)| t.starts_with("C:ctl") || *t == "C:reply").map(|(i, _)| i).collect();
            csteps.iter().any(|ci| wsteps.iter().any(|w| w < ci) && wsteps.iter().any(|w| w > ci))
        };
        if interleaved {
            ctx.nontrivial(&(c.scenario, c.rwlock, c.hold, &trace));
            ctx.class("interleaved_schedule");
        }
        ctx.class(&format!("scenario_{:?}", c.scenario));
        ctx.sample(|| json!({"scenario": format!("{:?}", c.scenario), "rwlock": c.rwlock, "word": c.word, "trace": trace, "handler_entries": entries, "reply_at": reply_at, "enable_at": enable_at, "kicks_at": kicks}));

        // (1) no handler entry between the reply and the enabling message
        if let Some(e) = entries.iter().find(|e| **e > reply_at && **e < enable_at) {
            // F9a: the worker had read the kick (ring enabled) before the state change and dispatched after the reply
            let read_before = match state_change {
                Some(sc) => w_read.iter().any(|r| *r < sc),
                None => false,
            };
            // F9c: GET_VRING_BASE only clears 'started'; a worker woken before the stop reads the kick
            // afterwards, read_kick looks at 'enabled' only, and the handler runs after the reply
            let woken_before_read_after = match state_change {
                Some(sc) => w_epoll.iter().any(|x| *x < sc) && w_read.iter().any(|r| *r > sc && *r < *e),
                None => false,
            };
            // the known findings cover only the dispatches of wake-ups that were already under way when the state
            // changed (one per such wake-up); anything beyond that is a different defect (e.g. a registration that
            // survives the stop and keeps waking the worker)
            let late = entries.iter().filter(|x| **x > reply_at && **x < enable_at).count();
            let under_way = match state_change {
                Some(sc) => w_epoll.iter().filter(|x| **x < sc).count().max(1),
                None => 1,
            };
            if late > under_way {
                return Err(format!(
                    "event handler entered {late} times after the reply to the disabling message ({reply_at}) and before the enabling message ({enable_at}), but only {under_way} wake-up(s) were under way when the ring state changed; trace {trace:?}"
                ));
            }
            if read_before && ctx.known(F9A_SIG) {
                ctx.class("known_F9a");
            } else if !read_before && matches!(c.scenario, Scenario::StopRestart | Scenario::StopRestartSameFd) && woken_before_read_after && ctx.known(F9C_SIG) {
                ctx.class("known_F9c");
            } else {
                return Err(format!(
                    "event handler entered for the ring at clock {e}, after the reply to the disabling message was received ({reply_at}) and before the enabling message was sent ({enable_at}); trace {trace:?}"
                ));
            }
        }
        // (2) no wake-up consumed without being processed (descriptor unchanged in A and C)
        if c.scenario != Scenario::StopRestart {
            if let Some(k) = kicks.iter().find(|k| !entries.iter().any(|e| e > k)) {
                // F9b: woken by epoll before the state change, kick read (and consumed) after it
                let trigger = match state_change {
                    Some(sc) => w_epoll.iter().any(|e| *e < sc) && w_read.iter().any(|r| *r > sc),
                    None => false,
                };
                if trigger && ctx.known(F9B_SIG) {
                    ctx.class("known_F9b");
                } else {
                    return Err(format!(
                        "guest kick raised at clock {k} was never followed by an event-handler invocation although the ring is started and enabled again (handler entries {entries:?}); trace {trace:?}"
                    ));
                }
            }
        }
        Ok(())
    })();
    sched.uninstall();
    fx.be.st.lock().unwrap().hook = None;
    drop(cl);
    let td = fx.teardown_checked(10);
    res?;
    td
}

pub fn run_case(ctx: &mut Ctx, c: &Case) -> Result<(), String> {
    if c.rwlock {
        run_generic::<VRw>(ctx, c)
    } else {
        run_generic::<VMutex>(ctx, c)
    }
}

// ------------------------------------------------------------------ lock interleavings between the control path and a handler that uses the ring

#[derive(Serialize, Deserialize, Debug, Clone, Hash, PartialEq, Eq)]
pub struct LockCase {
    pub scenario: Scenario,
    /// the control thread is parked right before its k-th acquisition of the ring's lock while serving the disabling message
    pub k: u8,
}

/// A back end's event handler works on its ring (takes the ring's lock for writing, like add_used does).  The control
/// thread is stopped right before each of its own acquisitions of that lock — possibly while it still holds an earlier
/// guard — the guest kicks, the worker dispatches and the handler asks for the lock; then the control thread continues.
/// Whatever the interleaving, the control message is answered and the worker gets back to its epoll loop (no wake-up is
/// left unprocessed because the two threads block each other).
pub fn run_lock_case(ctx: &mut Ctx, c: &LockCase) -> Result<(), String> {
    use crate::daemon_fx::HookVring;
    let mut fx: Fx<HookVring> = Fx::new(BeCfg { num_queues: 1, ..Default::default() })?;
    fx.connect()?;
    let cl = RawClient::new(fx.peer.as_ref().unwrap().try_clone().unwrap());
    cl.negotiate(|f| f & ((1 << 32) | spec::VIRTIO_F_PROTOCOL_FEATURES), |p| p).map_err(|e| format!("negotiation: {e}"))?;
    let k1 = new_eventfd();
    for (code, body, fds) in [(fe::SET_VRING_KICK, spec::b_u64(0), vec![k1.as_raw_fd()]), (fe::SET_VRING_ENABLE, spec::b_vring_state(0, 1), vec![])] {
        if cl.ack(code, &body, &fds).map_err(|e| format!("setup: {e}"))? != 0 {
            return Err("setup message refused".into());
        }
    }
    fx.barrier()?;
    let sched = Sched::install();
    let s2 = sched.clone();
    let hook: EventHook<HookVring> = Arc::new(move |_be, ev, vrings: &[HookVring], _t| {
        if ev == 0 {
            s2.mark("handler_entry");
            // what a real device does in its handler: work on the ring under its lock
            let g = vrings[0].get_mut();
            drop(g);
            s2.mark("handler_done");
        }
    });
    fx.be.st.lock().unwrap().hook = Some(hook);
    let res = (|| -> Result<(), String> {
        sched.arm("vring.lock", DAEMON);
        let (code, body): (u32, Vec<u8>) = match c.scenario {
            Scenario::DisableEnable => (fe::SET_VRING_ENABLE, spec::b_vring_state(0, 0)),
            Scenario::StopRestart | Scenario::StopRestartSameFd => (fe::GET_VRING_BASE, spec::b_vring_state(0, 0)),
            Scenario::ResetRefeature => (fe::RESET_DEVICE, vec![]),
        };
        let sock = cl.sock.as_raw_fd();
        cl.send(code, code != fe::GET_VRING_BASE, &body, &[]).map_err(|e| e.to_string())?;
        let mut reached = 0u8;
        let mut parked_at_lock = false;
        for _ in 0..=c.k {
            match advance(&sched, DAEMON, || rawpeer::fionread(sock) >= 12, || outq(sock) > 0) {
                Some(_) => {
                    reached += 1;
                    parked_at_lock = true;
                }
                None => {
                    parked_at_lock = false;
                    break;
                }
            }
        }
        ctx.class(if parked_at_lock { "control_parked_before_a_ring_lock" } else { "control_finished_before_k" });
        if parked_at_lock {
            ctx.nontrivial(&(c.scenario, reached));
        }
        // the guest kicks; the worker dispatches (if the ring is still registered) and the handler asks for the lock
        k1.write(1).map_err(|e| e.to_string())?;
        let t0 = Instant::now();
        while let Some(tid) = find_tid(WORKER) {
            if asleep(tid, 6) || t0.elapsed() > BOUND {
                break;
            }
        }
        // the control thread continues
        sched.disarm_all();
        sched.release_all();
        if rawpeer::fionread(sock) < 12 {
            let t0 = Instant::now();
            while rawpeer::fionread(sock) < 12 {
                if t0.elapsed() > BOUND {
                    return Err(format!(
                        "{c:?}: the control message is not answered within {}s after the control thread was stopped before its ring-lock acquisition #{reached} while the event handler asked for the ring's lock: the two threads block each other; threads: {:?}",
                        BOUND.as_secs(),
                        crate::daemon_fx::thread_states().into_iter().filter(|(_, n)| n.starts_with(WORKER) || n.starts_with(DAEMON)).collect::<Vec<_>>()
                    ));
                }
                std::thread::sleep(Duration::from_micros(200));
            }
        }
        let (f, _) = cl.recv_frame().map_err(|e| format!("reply: {e}"))?;
        if f.code != code {
            return Err(format!("reply code {} for request {code}", f.code));
        }
        // the worker is back in its loop
        fx.barrier().map_err(|e| format!("{c:?}: after the control message was answered the worker does not serve its epoll loop: {e}"))?;
        ctx.sample(|| json!({"lock_case": c, "control_lock_acquisitions_reached": reached, "history": sched.history().iter().map(|h| h.1.clone()).collect::<Vec<_>>()}));
        Ok(())
    })();
    sched.uninstall();
    fx.be.st.lock().unwrap().hook = None;
    drop(cl);
    match fx.teardown_checked(10) {
        Ok(()) => res,
        Err(e) => res.and(Err(e)),
    }
}

/// all words with `nw` W's and `nc` C's, plus optionally one K at any position
fn words(nw: usize, nc: usize, with_k: bool) -> Vec<Vec<Step>> {
    fn go(nw: usize, nc: usize, cur: &mut Vec<Step>, out: &mut Vec<Vec<Step>>) {
        if nw == 0 && nc == 0 {
            out.push(cur.clone());
            return;
        }
        if nw > 0 {
            cur.push(Step::W);
            go(nw - 1, nc, cur, out);
            cur.pop();
        }
        if nc > 0 {
            cur.push(Step::C);
            go(nw, nc - 1, cur, out);
            cur.pop();
        }
    }
    let mut base = Vec::new();
    go(nw, nc, &mut Vec::new(), &mut base);
    let mut out = base.clone();
    if with_k {
        for w in &base {
            for pos in 0..=w.len() {
                let mut x = w.clone();
                x.insert(pos, Step::K);
                out.push(x);
            }
        }
    }
    out
}

pub fn run(ctx: &mut Ctx) {
    ctx.rule = "all words over {W: worker advances to its next hold point, C: control path advances (send, after_state_change, after_epoll_update, \
                reply read), K: one more guest kick} with 4 W and 3 C steps and at most one K, for scenarios disable/enable, stop/restart (new or same kick eventfd), \
                reset/re-feature (optionally with SET_VRING_CALL and a further kick while the ring is inactive), on VringMutex and VringRwLock rings; each word runs on a fresh daemon with one ring that is started, enabled \
                and kicked once; every word is run twice: the worker continues before the enabling message is sent, or it stays parked where the word left it until the enabling message has been acknowledged. A party that cannot advance (asleep without being parked) makes that step a no-op. Plus lock interleavings on a ring type with a hold point before every lock acquisition: the control thread is stopped before its k-th acquisition (k = 0..13) while the handler takes the ring's write lock. Non-trivial = a schedule in \
                which a control step lies strictly between two worker steps of the same wake-up; distinct by the trace actually realised."
        .into();
    ctx.assumptions = vec![
        "interleavings are explored at hold-point granularity (complete for the instrumented points of one wake-up vs one disabling message)".into(),
        "'blocked / idle' is diagnosed by thread state sampling (asleep and not parked), not by a deadline".into(),
        "kicks on a descriptor dropped by GET_VRING_BASE are not required to be delivered".into(),
    ];
    ctx.exhaustive = Some(true);
    let with_k = true;
    let mut space = Vec::new();
    for scenario in [Scenario::DisableEnable, Scenario::StopRestart, Scenario::ResetRefeature] {
        for rwlock in [false, true] {
            for w in words(4, 3, with_k) {
                space.push(Case { scenario, rwlock, word: w.clone(), hold: false, call_mid: false });
                // the same word with the worker held across the enabling message (only words that can leave the worker
                // parked inside its wake-up: the last worker step is not the fourth)
                space.push(Case { scenario, rwlock, word: w, hold: true, call_mid: false });
            }
        }
    }
    // restart on the same kick eventfd, and a SET_VRING_CALL + kick between the disabling reply and the enabling message
    for (wi, w) in words(4, 3, with_k).into_iter().enumerate() {
        let rwlock = wi % 2 == 0;
        space.push(Case { scenario: Scenario::StopRestartSameFd, rwlock, word: w.clone(), hold: false, call_mid: false });
        space.push(Case { scenario: Scenario::StopRestartSameFd, rwlock, word: w.clone(), hold: true, call_mid: false });
        for scenario in [Scenario::DisableEnable, Scenario::StopRestart, Scenario::ResetRefeature, Scenario::StopRestartSameFd] {
            space.push(Case { scenario, rwlock: !rwlock, word: w.clone(), hold: false, call_mid: true });
        }
    }
    if ctx.tier == crate::engine::Tier::Thorough {
        // longer words: two wake-ups
        for scenario in [Scenario::DisableEnable, Scenario::ResetRefeature] {
            for w in words(6, 3, false) {
                space.push(Case { scenario, rwlock: true, word: w.clone(), hold: false, call_mid: false });
                space.push(Case { scenario, rwlock: true, word: w, hold: true, call_mid: false });
            }
        }
    }
    ctx.extra.insert("words".into(), json!(space.len()));
    ctx.enumerate("schedules", space, |ctx, c| run_case(ctx, c));

    // lock interleavings: the control thread stopped before each of its ring-lock acquisitions, handler working on the ring
    let mut locks = Vec::new();
    for scenario in [Scenario::DisableEnable, Scenario::StopRestart, Scenario::ResetRefeature] {
        for k in 0..14u8 {
            locks.push(LockCase { scenario, k });
        }
    }
    ctx.enumerate("lock_interleavings", locks, |ctx, c| run_lock_case(ctx, c));
}
