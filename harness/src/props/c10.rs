//! C10 — concurrent callers get their own replies: request/response pairs are atomic.
//!
//! G: 2..3 threads each perform one call on clones of the same Frontend / Backend proxy / GpuBackend;
//!    op mixes over {reply-bearing, acknowledged, fire-and-forget}; the first thread is parked at the
//!    hold point between "request written" and "reply read", then the others are started; parked
//!    threads are released in every order.  Plus multi-thread stress without the controller.
//! O: (1) no request arrives at the peer while an earlier caller is parked waiting for its reply;
//!    (2) every caller's result carries its own request's identity, nobody gets Err; (3) all finish.

use std::os::unix::io::{AsRawFd, RawFd};
use std::os::unix::net::UnixStream;
use std::sync::atomic::{AtomicBool, Ordering};
use std::sync::{Arc, Mutex};
use std::time::{Duration, Instant};

use serde::{Deserialize, Serialize};
use serde_json::json;
use vhost::vhost_user::gpu_message::{VhostUserGpuEdidRequest, VhostUserGpuScanout, VhostUserGpuUpdate};
use vhost::vhost_user::message::{VhostUserConfigFlags, VhostUserHeaderFlag, VhostUserProtocolFeatures, VhostUserSharedMsg, VhostUserU64};
use vhost::vhost_user::{Backend, Frontend, GpuBackend, VhostUserFrontend, VhostUserFrontendReqHandler};
use vhost::VhostBackend;

use crate::engine::Ctx;
use crate::rawpeer;
use crate::sched::{asleep, Sched};
use crate::feops::FeOp;
use crate::spec::{self, fe};

#[derive(Serialize, Deserialize, Debug, Clone, Copy, Hash, PartialEq, Eq)]
pub enum Endpoint {
    Frontend,
    BackendProxy,
    Gpu,
}

#[derive(Serialize, Deserialize, Debug, Clone, Copy, Hash, PartialEq, Eq)]
pub enum OpKind {
    /// reply-bearing, the reply carries the request's identity
    Reply,
    /// second reply-bearing kind (different request code)
    Reply2,
    /// acknowledged operation
    Acked,
    /// fire-and-forget
    Forget,
}

#[derive(Serialize, Deserialize, Debug, Clone, Hash, PartialEq, Eq)]
pub struct Case {
    pub endpoint: Endpoint,
    pub ops: Vec<OpKind>,
    /// preference order in which parked threads are released
    pub order: Vec<u8>,
    /// which concrete operation of its kind each caller uses (GPU and back-end proxies have several per kind)
    #[serde(default)]
    pub vars: Vec<u8>,
}

const HOLD: [&str; 6] = ["fe.after_send", "be_req.after_send", "gpu.after_send", "fe.reply_wait", "be_req.reply_wait", "gpu.reply_wait"];
const BOUND: Duration = Duration::from_secs(10);

#[derive(Clone)]
enum Ep {
    Fe(Frontend),
    Be(Backend),
    Gpu(GpuBackend),
}

/// perform the call of kind `k` with identity `id` (variant `var` of that kind); Ok(identity found in the result, if
/// the result carries one)
fn call(ep: &Ep, k: OpKind, id: u32, var: u8) -> Result<Option<u32>, String> {
    match ep {
        Ep::Fe(f) => match k {
            OpKind::Reply => f.get_vring_base(id as usize).map(|v| Some(v - 1000)).map_err(|e| format!("{e:?}")),
            OpKind::Reply2 => {
                let mut f = f.clone();
                f.get_config(id * 4, 4, VhostUserConfigFlags::WRITABLE, &[0u8; 4])
                    .map(|(_, p)| Some(p[0] as u32))
                    .map_err(|e| format!("{e:?}"))
            }
            OpKind::Acked => f.set_vring_num(id as usize, 64).map(|_| None).map_err(|e| format!("{e:?}")),
            OpKind::Forget => f.set_log_base(id as u64, None).map(|_| None).map_err(|e| format!("{e:?}")),
        },
        Ep::Be(b) => {
            let mut u = VhostUserSharedMsg::default();
            u.uuid = uuid::Uuid::from_bytes([id as u8 + 1; 16]);
            let mm = vhost::vhost_user::message::VhostUserMMap { shmid: id as u8 + 1, fd_offset: 0, shm_offset: 0x1000, len: 0x1000, flags: 1, ..Default::default() };
            let file = crate::fdtrack::memfd(4096);
            let e = |e: std::io::Error| e.to_string();
            if k == OpKind::Forget {
                // not a request: the negotiated-acknowledgement setting is changed through another clone (what the thread
                // serving SET_PROTOCOL_FEATURES does) — it must not take effect inside another caller's open transaction
                b.set_reply_ack_flag(var % 2 == 0);
                return Ok(None);
            }
            let r = match var % 5 {
                0 => b.shared_object_add(&u),
                1 => b.shared_object_remove(&u),
                2 => b.shared_object_lookup(&u, &file),
                3 => b.shmem_map(&mm, &file),
                _ => b.shmem_unmap(&mm),
            };
            // the peer acknowledges requests of odd callers with a failure status and those of even callers with 0:
            // a caller that reads another caller's acknowledgement gets the wrong outcome
            match (r, id % 2 == 1) {
                (Ok(_), false) | (Err(_), true) => Ok(Some(id)),
                (Ok(_), true) => Ok(Some(id + 1000)),
                (Err(x), false) => Err(e(x)),
            }
        }
        Ep::Gpu(g) => {
            let e = |e: std::io::Error| e.to_string();
            match k {
                OpKind::Reply => match var % 2 {
                    0 => g.get_edid(&VhostUserGpuEdidRequest { scanout_id: id }).map(|r| Some(r.size)).map_err(e),
                    _ => g.get_display_info().map(|_| None).map_err(e),
                },
                OpKind::Reply2 => g.get_protocol_features().map(|v| Some(v.value as u32)).map_err(e),
                OpKind::Acked => g.update_dmabuf_scanout(&VhostUserGpuUpdate { scanout_id: id, x: 0, y: 0, width: 1, height: 1 }).map(|_| None).map_err(e),
                OpKind::Forget => {
                    use vhost::vhost_user::gpu_message::{VhostUserGpuCursorPos, VhostUserGpuCursorUpdate, VhostUserGpuDMABUFScanout, VhostUserGpuDMABUFScanout2};
                    let pos = VhostUserGpuCursorPos { scanout_id: id, x: 1, y: 2 };
                    let dm = VhostUserGpuDMABUFScanout { scanout_id: id, width: 1, height: 1, fd_width: 1, fd_height: 1, ..Default::default() };
                    let file = crate::fdtrack::memfd(4096);
                    match var % 8 {
                        0 => g.set_scanout(&VhostUserGpuScanout { scanout_id: id, width: 1, height: 1 }),
                        1 => g.cursor_pos(&pos),
                        2 => g.cursor_pos_hide(&pos),
                        3 => g.cursor_update(&VhostUserGpuCursorUpdate { pos, hot_x: 0, hot_y: 0 }, &[0u8; 4 * 64 * 64]),
                        4 => g.update_scanout(&VhostUserGpuUpdate { scanout_id: id, x: 0, y: 0, width: 2, height: 2 }, &[7u8; 16]),
                        5 => g.set_dmabuf_scanout(&dm, Some(&file)),
                        6 => g.set_dmabuf_scanout2(&VhostUserGpuDMABUFScanout2 { dmabuf_scanout: dm, modifier: 0 }, Some(&file)),
                        _ => g.set_protocol_features(&VhostUserU64::new(0)),
                    }
                    .map(|_| None)
                    .map_err(e)
                }
            }
        }
    }
}

/// the caller a request frame belongs to, where the request carries its caller's identity
fn frame_owner(ep: Endpoint, f: &spec::Frame) -> Option<u32> {
    match ep {
        Endpoint::Frontend => match f.code {
            fe::GET_VRING_BASE | fe::SET_VRING_NUM if f.body.len() >= 4 => Some(spec::rd_u32(&f.body, 0)),
            fe::GET_CONFIG if f.body.len() >= 4 => Some(spec::rd_u32(&f.body, 0) / 4),
            fe::SET_LOG_BASE if f.body.len() >= 8 => Some(spec::rd_u64(&f.body, 0) as u32),
            _ => None,
        },
        Endpoint::BackendProxy => f.body.first().map(|b| (*b as u32).wrapping_sub(1)),
        Endpoint::Gpu => match f.code {
            spec::gpu::GET_PROTOCOL_FEATURES | spec::gpu::SET_PROTOCOL_FEATURES | spec::gpu::GET_DISPLAY_INFO => None,
            _ if f.body.len() >= 4 => Some(spec::rd_u32(&f.body, 0)),
            _ => None,
        },
    }
}

/// does a call of kind `k` on this endpoint wait for an answer?
fn awaits(ep: Endpoint, k: OpKind) -> bool {
    match ep {
        Endpoint::BackendProxy => k != OpKind::Forget, // reply_ack is on: every request is acknowledged; Forget = flag change, no request
        _ => k != OpKind::Forget,
    }
}

/// the peer's answer to one request frame (None: no answer defined); identity is echoed
fn answer(ep: Endpoint, f: &spec::Frame, gpu_seq: &mut u32) -> Option<Vec<u8>> {
    match ep {
        Endpoint::Frontend => match f.code {
            fe::GET_VRING_BASE => {
                let idx = spec::rd_u32(&f.body, 0);
                Some(spec::reply(f.code, &spec::b_vring_state(idx, 1000 + idx)))
            }
            fe::GET_CONFIG => {
                let (off, size, flags) = (spec::rd_u32(&f.body, 0), spec::rd_u32(&f.body, 4), spec::rd_u32(&f.body, 8));
                Some(spec::reply(f.code, &spec::b_config(off, size, flags, &vec![(off / 4) as u8; size as usize])))
            }
            fe::SET_VRING_NUM if f.flags & spec::F_NEED_REPLY != 0 => Some(spec::reply(f.code, &spec::b_u64(0))),
            _ => None,
        },
        Endpoint::BackendProxy => {
            if f.flags & spec::F_NEED_REPLY != 0 {
                // status by caller identity (first body byte = identity + 1): odd callers are refused
                let id = f.body.first().map(|b| (*b as u64).wrapping_sub(1)).unwrap_or(0);
                Some(spec::reply(f.code, &spec::b_u64(id % 2)))
            } else {
                None
            }
        }
        Endpoint::Gpu => match f.code {
            spec::gpu::GET_EDID => {
                let id = spec::rd_u32(&f.body, 0);
                let mut b = vec![0u8; spec::GPU_EDID_RESP_SIZE];
                b[24..28].copy_from_slice(&id.to_ne_bytes());
                Some(spec::msg(f.code, spec::gpu::F_REPLY, &b))
            }
            spec::gpu::GET_PROTOCOL_FEATURES => {
                // body-less get: the identity is the sequence number of the request on the wire
                *gpu_seq += 1;
                Some(spec::msg(f.code, spec::gpu::F_REPLY, &spec::b_u64(*gpu_seq as u64 - 1)))
            }
            spec::gpu::DMABUF_UPDATE => Some(spec::msg(f.code, spec::gpu::F_REPLY, &[])),
            spec::gpu::GET_DISPLAY_INFO => Some(spec::msg(f.code, spec::gpu::F_REPLY, &vec![0u8; spec::GPU_DISPLAY_INFO_SIZE])),
            _ => None,
        },
    }
}

struct Peer {
    sock: UnixStream,
    buf: Vec<u8>,
    frames: Vec<spec::Frame>,
    answered: usize,
    gpu_seq: u32,
}

impl Peer {
    /// read whatever arrived; returns the indices of newly completed request frames
    fn poll(&mut self) -> Vec<usize> {
        if let Ok(pieces) = rawpeer::drain(self.sock.as_raw_fd(), 65536) {
            for p in pieces {
                self.buf.extend_from_slice(&p.bytes);
            }
        }
        let mut new = Vec::new();
        loop {
            if self.buf.len() < 12 {
                break;
            }
            let (code, flags, size) = spec::parse_hdr(&self.buf);
            if self.buf.len() < 12 + size as usize {
                break;
            }
            let body = self.buf[12..12 + size as usize].to_vec();
            self.buf.drain(..12 + size as usize);
            self.frames.push(spec::Frame { code, flags, body });
            new.push(self.frames.len() - 1);
        }
        new
    }
    fn answer_pending(&mut self, ep: Endpoint) {
        while self.answered < self.frames.len() {
            let f = self.frames[self.answered].clone();
            if let Some(a) = answer(ep, &f, &mut self.gpu_seq) {
                send_answer(self.sock.as_raw_fd(), &a, &[], self.answered as u64);
            }
            self.answered += 1;
        }
    }
}

/// The peer's way of writing an answer: every third one in two pieces (at the header/body boundary or in the middle
/// of the body, as libvhost-user and character-device front ends do), with the descriptors on the first piece.
fn send_answer(sock: RawFd, bytes: &[u8], fds: &[RawFd], n: u64) {
    if n % 3 == 1 && bytes.len() > 13 {
        let at = if n % 2 == 0 { 12 } else { 12 + (bytes.len() - 12) / 2 };
        let _ = rawpeer::send_all(sock, &bytes[..at], fds);
        for _ in 0..20 {
            std::thread::yield_now();
        }
        std::thread::sleep(Duration::from_micros(30));
        let _ = rawpeer::send_all(sock, &bytes[at..], &[]);
    } else {
        let _ = rawpeer::send_all(sock, bytes, fds);
    }
}

fn make_endpoint(ep: Endpoint) -> Result<(Ep, Peer), String> {
    let (ours, theirs) = UnixStream::pair().map_err(|e| e.to_string())?;
    let mut peer = Peer { sock: ours, buf: Vec::new(), frames: Vec::new(), answered: 0, gpu_seq: 0 };
    let e = match ep {
        Endpoint::Frontend => {
            let mut f = Frontend::from_stream(theirs, 64);
            // negotiation with pre-queued replies (single-threaded)
            let s = peer.sock.as_raw_fd();
            rawpeer::send_all(s, &spec::reply(fe::GET_FEATURES, &spec::b_u64(spec::VIRTIO_F_PROTOCOL_FEATURES | 1 << 32)), &[]).map_err(|e| e.to_string())?;
            f.get_features().map_err(|e| format!("{e:?}"))?;
            rawpeer::send_all(s, &spec::reply(fe::GET_PROTOCOL_FEATURES, &spec::b_u64(0x3f_ffff)), &[]).map_err(|e| e.to_string())?;
            let pf = f.get_protocol_features().map_err(|e| format!("{e:?}"))?;
            f.set_protocol_features(pf & (VhostUserProtocolFeatures::REPLY_ACK | VhostUserProtocolFeatures::CONFIG | VhostUserProtocolFeatures::MQ))
                .map_err(|e| format!("{e:?}"))?;
            f.set_hdr_flags(VhostUserHeaderFlag::NEED_REPLY);
            peer.poll();
            peer.answered = peer.frames.len();
            Ep::Fe(f)
        }
        Endpoint::BackendProxy => {
            let b = Backend::from_stream(theirs);
            b.set_reply_ack_flag(true);
            b.set_shared_object_flag(true);
            b.set_shmem_flag(true);
            Ep::Be(b)
        }
        Endpoint::Gpu => Ep::Gpu(GpuBackend::from_stream(theirs)),
    };
    Ok((e, peer))
}

pub fn run_case(ctx: &mut Ctx, c: &Case) -> Result<(), String> {
    let (ep, mut peer) = make_endpoint(c.endpoint)?;
    let n = c.ops.len();
    let sched = Sched::install();
    for h in HOLD {
        sched.arm(h, "c10_caller");
    }
    let results: Arc<Mutex<Vec<Option<Result<Option<u32>, String>>>>> = Arc::new(Mutex::new(vec![None; n]));
    let mut tids: Vec<Option<i32>> = vec![None; n];
    let tidcell: Arc<Mutex<Vec<Option<i32>>>> = Arc::new(Mutex::new(vec![None; n]));
    let mut handles = Vec::new();
    let spawn = |i: usize, handles: &mut Vec<std::thread::JoinHandle<()>>| {
        let (ep, k, results, tidcell) = (ep.clone(), c.ops[i], results.clone(), tidcell.clone());
        let var = c.vars.get(i).copied().unwrap_or(0);
        handles.push(
            std::thread::Builder::new()
                .name(format!("c10_caller{i}"))
                .spawn(move || {
                    tidcell.lock().unwrap()[i] = Some(unsafe { libc::gettid() });
                    let r = call(&ep, k, i as u32, var);
                    results.lock().unwrap()[i] = Some(r);
                })
                .unwrap(),
        );
    };
    // a thread is settled when it is parked, finished, or asleep without being parked (blocked on the lock)
    let settled = |i: usize, sched: &Sched, results: &Arc<Mutex<Vec<Option<Result<Option<u32>, String>>>>>, tidcell: &Arc<Mutex<Vec<Option<i32>>>>| -> &'static str {
        let name = format!("c10_caller{i}");
        let t0 = Instant::now();
        loop {
            if results.lock().unwrap()[i].is_some() {
                return "finished";
            }
            if sched.parked().iter().any(|p| p.thread == name) {
                return "parked";
            }
            if let Some(tid) = tidcell.lock().unwrap()[i] {
                if asleep(tid, 4) && !sched.parked().iter().any(|p| p.thread == name) && results.lock().unwrap()[i].is_none() {
                    return "blocked";
                }
            }
            if t0.elapsed() > BOUND {
                return "unsettled";
            }
            std::thread::yield_now();
        }
    };

    let mut attempted_during_park = false;
    let res = (|| -> Result<(), String> {
        spawn(0, &mut handles);
        let s0 = settled(0, &sched, &results, &tidcell);
        for i in 1..n {
            spawn(i, &mut handles);
        }
        let mut states: Vec<&str> = vec![s0];
        for i in 1..n {
            states.push(settled(i, &sched, &results, &tidcell));
        }
        if s0 == "parked" && states[1..].iter().any(|s| *s == "blocked" || *s == "parked") {
            attempted_during_park = true;
        }
        // main loop: observe the wire, judge, answer, release
        let t0 = Instant::now();
        let mut released_order: Vec<u8> = Vec::new();
        loop {
            let new = peer.poll();
            // (1) a request arrived: every earlier request that awaits an answer must have been consumed,
            // i.e. its caller must not be parked at reply_wait any more
            for fi in &new {
                // (0) a request that carries its caller's identity arrived while a *different* caller sits between
                // 'request written' and 'reply read': a second request inside an open transaction
                // (stream order decides: the parked caller's own request must precede the foreign one)
                if let Some(owner) = frame_owner(c.endpoint, &peer.frames[*fi]) {
                    for p in sched.parked() {
                        let Some(i) = p.thread.strip_prefix("c10_caller").and_then(|x| x.parse::<u32>().ok()) else { continue };
                        if i == owner {
                            continue;
                        }
                        let own_req = (0..peer.frames.len()).rev().find(|k| frame_owner(c.endpoint, &peer.frames[*k]) == Some(i));
                        if let Some(k) = own_req {
                            if k < *fi {
                                return Err(format!(
                                    "request #{fi} (code {}, written by caller {owner}) follows request #{k} of caller {i} on the socket, but caller {i} is still between writing its request and reading the reply",
                                    peer.frames[*fi].code
                                ));
                            }
                        }
                    }
                }
                let parked = sched.parked();
                // the caller of frame fi is the most recently parked/finished one; any *other* parked caller
                // is waiting for a reply while this request was written
                let writers_parked: Vec<_> = parked.iter().filter(|p| p.thread.starts_with("c10_caller")).collect();
                if writers_parked.len() > 1 {
                    return Err(format!(
                        "request #{fi} (code {}) was written while another caller was still waiting for the reply to its own request: {} callers sit between 'request written' and 'reply read' ({:?})",
                        peer.frames[*fi].code,
                        writers_parked.len(),
                        writers_parked.iter().map(|p| p.thread.clone()).collect::<Vec<_>>()
                    ));
                }
            }
            peer.answer_pending(c.endpoint);
            // release one parked caller, following the preference order
            let parked = sched.parked();
            let mut cand: Vec<(usize, u64)> = parked
                .iter()
                .filter_map(|p| p.thread.strip_prefix("c10_caller").and_then(|x| x.parse::<usize>().ok()).map(|i| (i, p.id)))
                .collect();
            cand.sort_by_key(|(i, _)| c.order.iter().position(|o| *o as usize == *i).unwrap_or(99));
            if let Some((i, id)) = cand.first() {
                released_order.push(*i as u8);
                sched.release(*id);
            }
            if results.lock().unwrap().iter().all(|r| r.is_some()) {
                break;
            }
            if t0.elapsed() > BOUND {
                let st: Vec<&str> = (0..n).map(|i| settled(i, &sched, &results, &tidcell)).collect();
                return Err(format!("not all calls complete (self-deadlock?): caller states {st:?}, {} requests on the wire", peer.frames.len()));
            }
            std::thread::yield_now();
        }
        // (2) identities
        let rs = results.lock().unwrap().clone();
        // body-less GPU get: identity = arrival order of that request among its kind
        let mut gpu_seq_seen: Vec<u32> = Vec::new();
        for (i, r) in rs.iter().enumerate() {
            match r.as_ref().unwrap() {
                Err(e) => return Err(format!("caller {i} ({:?}) got an error: {e}", c.ops[i])),
                Ok(Some(v)) => {
                    if c.endpoint == Endpoint::Gpu && c.ops[i] == OpKind::Reply2 {
                        gpu_seq_seen.push(*v);
                    } else if c.endpoint == Endpoint::BackendProxy
                        && *v == i as u32 + 1000
                        && !peer.frames.iter().any(|f| frame_owner(c.endpoint, f) == Some(i as u32) && f.flags & spec::F_NEED_REPLY != 0)
                    {
                        // the request went out without NEED_REPLY (acknowledgements had been switched off by another
                        // clone before this caller took the lock): nothing was awaited, success is the right outcome
                    } else if *v != i as u32 {
                        return Err(format!("caller {i} ({:?}) received the answer to request {v} instead of its own", c.ops[i]));
                    }
                }
                Ok(None) => {}
            }
        }
        gpu_seq_seen.sort();
        if gpu_seq_seen.windows(2).any(|w| w[0] == w[1]) {
            return Err(format!("two callers received the same sequence-numbered reply: {gpu_seq_seen:?}"));
        }
        let _ = released_order;
        // (3) every answer the peer wrote has been consumed by a caller
        let mut n: libc::c_int = 0;
        unsafe { libc::ioctl(peer.sock.as_raw_fd(), libc::TIOCOUTQ, &mut n) };
        if n > 0 {
            return Err(format!("all callers returned, but an answer written by the peer was never read by its caller ({} request frames seen, send queue not empty)", peer.frames.len()));
        }
        Ok(())
    })();
    sched.uninstall();
    // unblock whatever is left
    drop(peer);
    for h in handles {
        let t0 = Instant::now();
        while !h.is_finished() && t0.elapsed() < Duration::from_secs(2) {
            std::thread::yield_now();
        }
        if h.is_finished() {
            let _ = h.join();
        }
    }
    let _ = &mut tids;
    if attempted_during_park {
        ctx.nontrivial(c);
        ctx.class("other_caller_attempted_while_first_parked");
    }
    ctx.class(&format!("endpoint_{:?}", c.endpoint));
    ctx.sample(|| json!({"endpoint": format!("{:?}", c.endpoint), "ops": c.ops, "release_order": c.order}));
    res
}

#[derive(Serialize, Deserialize, Debug, Clone, Hash, PartialEq, Eq)]
pub struct StressCase {
    pub endpoint: Endpoint,
    pub threads: u8,
    pub calls: u32,
}

pub fn run_stress(ctx: &mut Ctx, c: &StressCase) -> Result<(), String> {
    let (ep, peer) = make_endpoint(c.endpoint)?;
    let stop = Arc::new(AtomicBool::new(false));
    let stop2 = stop.clone();
    let endpoint = c.endpoint;
    let peer = Arc::new(Mutex::new(peer));
    let peer2 = peer.clone();
    let responder = std::thread::spawn(move || {
        let mut p = peer2.lock().unwrap();
        while !stop2.load(Ordering::Acquire) {
            p.poll();
            p.answer_pending(endpoint);
            std::thread::yield_now();
        }
    });
    let err: Arc<Mutex<Option<String>>> = Arc::new(Mutex::new(None));
    let kinds = [OpKind::Reply, OpKind::Reply2, OpKind::Acked, OpKind::Forget];
    let mut hs = Vec::new();
    for t in 0..c.threads as usize {
        let (ep, err, calls) = (ep.clone(), err.clone(), c.calls);
        hs.push(std::thread::spawn(move || {
            for j in 0..calls {
                let k = kinds[(t + j as usize) % 4];
                if endpoint == Endpoint::Gpu && k == OpKind::Reply2 {
                    continue; // sequence-numbered identity needs the controlled run
                }
                if endpoint == Endpoint::BackendProxy && k == OpKind::Forget {
                    continue; // acknowledgements stay on: every caller's outcome is determined by its own request
                }
                match call(&ep, k, t as u32, (j / 4) as u8) {
                    Err(e) => {
                        let _ = err.lock().unwrap().get_or_insert(format!("thread {t} call {j} ({k:?}): error {e}"));
                        return;
                    }
                    Ok(Some(v)) if v != t as u32 => {
                        let _ = err.lock().unwrap().get_or_insert(format!("thread {t} call {j} ({k:?}) received the answer to request {v}"));
                        return;
                    }
                    _ => {}
                }
            }
        }));
    }
    let t0 = Instant::now();
    let mut hung = false;
    for h in hs {
        while !h.is_finished() {
            if t0.elapsed() > Duration::from_secs(60) || err.lock().unwrap().is_some() {
                hung = true;
                break;
            }
            std::thread::sleep(Duration::from_micros(200));
        }
        if h.is_finished() {
            let _ = h.join();
        }
    }
    stop.store(true, Ordering::Release);
    let _ = responder.join();
    ctx.evals(c.threads as u64 * c.calls as u64);
    ctx.class_n("stress_calls", c.threads as u64 * c.calls as u64);
    ctx.nontrivial(&("stress", c.endpoint, c.threads));
    if let Some(e) = err.lock().unwrap().clone() {
        return Err(format!("stress: {e}"));
    }
    if hung {
        return Err("stress: callers do not complete".into());
    }
    Ok(())
}

// ------------------------------------------------------------------ stress over every answer-awaiting Frontend operation

/// the conforming answer to any front-end request frame, echoing what identifies the request (None: nothing is sent)
fn answer_any_fe(f: &spec::Frame, seq: &mut u64) -> Option<(Vec<u8>, usize)> {
    use crate::spec::Reply;
    let r = spec::fe_req(f.code)?;
    let nr = f.flags & spec::F_NEED_REPLY != 0;
    let rep = |b: Vec<u8>, n: usize| Some((spec::reply(f.code, &b), n));
    match r.reply {
        Reply::AckOnly => {
            if nr {
                rep(spec::b_u64(0), 0)
            } else {
                None
            }
        }
        Reply::U64 => {
            // queries without arguments: every reply is tagged with a serial number in otherwise unused high bits, so
            // that a reply handed to two callers (or to none) shows
            *seq += 1;
            rep(spec::b_u64(match f.code {
                fe::GET_FEATURES => spec::VIRTIO_F_PROTOCOL_FEATURES | 1 << 32 | (*seq << 34),
                fe::GET_PROTOCOL_FEATURES => 0x3f_ffff,
                fe::GET_QUEUE_NUM => 0x8000,
                _ => 32 | (*seq << 8),
            }), 0)
        }
        Reply::VringState => {
            let idx = spec::rd_u32(&f.body, 0);
            rep(spec::b_vring_state(idx, 1000 + idx), 0)
        }
        Reply::Config => {
            let (off, size, flags) = (spec::rd_u32(&f.body, 0), spec::rd_u32(&f.body, 4), spec::rd_u32(&f.body, 8));
            rep(spec::b_config(off, size, flags, &vec![(off / 4) as u8; size as usize]), 0)
        }
        Reply::InflightFd => rep(spec::b_inflight(spec::rd_u64(&f.body, 0), 0, spec::rd_u16(&f.body, 16), spec::rd_u16(&f.body, 18)), 1),
        Reply::EmptyFd => rep(vec![], 1),
        Reply::DeviceState => rep(spec::b_u64(0x100), 0),
        Reply::Status => rep(spec::b_u64(0), 0),
        Reply::ShmemConfig => rep(spec::b_shmem_config(1, &vec![0x1000u64; 256]), 0),
        Reply::Log => rep(f.body.clone(), 0),
    }
}

/// every Frontend operation that awaits an answer, parameterised by the caller's identity where the reply can carry it
fn all_fe_ops(t: u32) -> Vec<FeOp> {
    let reg = crate::feops::Reg { f: [0x10_0000 * (t as u64 + 1), 0x1000, 0x7000_0000_0000 + 0x10_0000 * t as u64, 0], kind: crate::fdtrack::FdKind::Memfd, share: false };
    vec![
        FeOp::SetOwner,
        FeOp::ResetOwner,
        FeOp::ResetDevice,
        FeOp::GetFeatures,
        FeOp::SetFeatures(spec::VIRTIO_F_PROTOCOL_FEATURES | 1 << 32),
        FeOp::GetProtocolFeatures,
        FeOp::GetMaxMemSlots,
        FeOp::GetVringBase(t),
        FeOp::SetVringNum(t, 64),
        FeOp::SetVringBase(t, 3),
        FeOp::SetVringEnable(t, true),
        FeOp::SetVringAddr { q: t, flags: 0, desc: 0x1000, used: 0x2000, avail: 0x3000, log: None },
        FeOp::SetVringCall(t),
        FeOp::SetVringKick(t),
        FeOp::SetVringErr(t),
        FeOp::GetConfig { off: 4 * t, size: 4, flags: 1 },
        FeOp::SetConfig { off: 4 * t, flags: 0, buf: vec![t as u8; 4] },
        FeOp::SetMemTable(vec![reg.clone()]),
        FeOp::AddMemRegion(reg.clone()),
        FeOp::RemoveMemRegion(reg),
        FeOp::GetInflightFd([0x1000 + t as u64, 0], 2, 8),
        FeOp::SetInflightFd([0x1000, 0], 2, 8),
        FeOp::GetSharedObject([t as u8 + 1; 16]),
        FeOp::GetShmemConfig,
        FeOp::CheckDeviceState,
        FeOp::SetDeviceStateFd(0),
        FeOp::SetLogBase { base: 0x1000, region: Some((0x1000, 0)) },
    ]
}

#[derive(Serialize, Deserialize, Debug, Clone)]
pub struct AllOpsCase {
    pub threads: u8,
    pub calls: u32,
    pub need_reply: bool,
}

/// identity check: does the returned value belong to the caller's own request?
fn own_answer(op: &FeOp, t: u32, r: &crate::feops::Ret) -> bool {
    use crate::feops::Ret;
    match (op, r) {
        (FeOp::GetVringBase(_), Ret::U64(v)) => *v == 1000 + t as u64,
        (FeOp::GetConfig { off, .. }, Ret::Config { off: o, payload, .. }) => o == off && payload.iter().all(|b| *b == t as u8),
        (FeOp::GetInflightFd(ms, ..), Ret::Inflight(got, ..)) => got[0] == ms[0],
        _ => true,
    }
}

pub fn run_all_ops_stress(ctx: &mut Ctx, c: &AllOpsCase) -> Result<(), String> {
    let st = crate::feops::FeState { max_queue: 0x8000, offered_vf: spec::VIRTIO_F_PROTOCOL_FEATURES | 1 << 32, acked_vf: spec::VIRTIO_F_PROTOCOL_FEATURES | 1 << 32, acked_pf: 0x3f_ffff & !(1 << 8), need_reply: c.need_reply };
    let (f, sock) = super::c01::frontend_in_state(&st);
    let stop = Arc::new(AtomicBool::new(false));
    let stop2 = stop.clone();
    let responder = std::thread::spawn(move || {
        let mut peer = Peer { sock, buf: Vec::new(), frames: Vec::new(), answered: 0, gpu_seq: 0 };
        let mut seq = 0u64;
        while !stop2.load(Ordering::Acquire) {
            peer.poll();
            while peer.answered < peer.frames.len() {
                let fr = peer.frames[peer.answered].clone();
                if let Some((bytes, nfds)) = answer_any_fe(&fr, &mut seq) {
                    let fds = crate::srv::fresh_fds(nfds, crate::fdtrack::FdKind::Memfd);
                    let raw: Vec<std::os::fd::RawFd> = fds.iter().map(|x| x.as_raw_fd()).collect();
                    send_answer(peer.sock.as_raw_fd(), &bytes, &raw, seq);
                }
                peer.answered += 1;
            }
            // keep the bookkeeping small
            if peer.frames.len() > 4096 {
                peer.frames.clear();
                peer.answered = 0;
            }
            std::thread::yield_now();
        }
    });
    let err: Arc<Mutex<Option<String>>> = Arc::new(Mutex::new(None));
    let tagged: Arc<Mutex<std::collections::HashSet<u64>>> = Arc::new(Mutex::new(std::collections::HashSet::new()));
    let mut hs = Vec::new();
    for t in 0..c.threads as u32 {
        let (mut f, err, calls, st, tagged) = (f.clone(), err.clone(), c.calls, st.clone(), tagged.clone());
        hs.push(std::thread::spawn(move || {
            let ops = all_fe_ops(t);
            for j in 0..calls {
                // a different walk through the vocabulary per thread so that neighbours use different request codes
                let op = &ops[((j as usize) * (2 * t as usize + 1) + t as usize) % ops.len()];
                if !op.has_reply(&st) && !op.awaits_ack(&st) {
                    continue;
                }
                let mut lent = crate::feops::make_lent(op);
                match crate::feops::perform(&mut f, op, &mut lent) {
                    Err(e) => {
                        let _ = err.lock().unwrap().get_or_insert(format!("thread {t} call {j} {}({op:?}): error {e} although the peer answers every request correctly and in order", op.name()));
                        return;
                    }
                    Ok(r) if !own_answer(op, t, &r) => {
                        let _ = err.lock().unwrap().get_or_insert(format!("thread {t} call {j} {}({op:?}) returned {r:?}: the answer to another caller's request", op.name()));
                        return;
                    }
                    Ok(crate::feops::Ret::U64(v)) if matches!(op, FeOp::GetFeatures | FeOp::GetMaxMemSlots) => {
                        // the peer tags each of these replies with a serial number: no reply may reach two callers
                        let key = (v << 1) | matches!(op, FeOp::GetFeatures) as u64;
                        if !tagged.lock().unwrap().insert(key) {
                            let _ = err.lock().unwrap().get_or_insert(format!("thread {t} call {j} {}: the reply {v:#x} had already been returned to another call (each reply is sent once)", op.name()));
                            return;
                        }
                    }
                    _ => {}
                }
            }
        }));
    }
    let t0 = Instant::now();
    let mut hung = false;
    for h in hs {
        while !h.is_finished() {
            if t0.elapsed() > Duration::from_secs(120) || err.lock().unwrap().is_some() {
                hung = true;
                break;
            }
            std::thread::sleep(Duration::from_micros(200));
        }
        if h.is_finished() {
            let _ = h.join();
        }
    }
    stop.store(true, Ordering::Release);
    let _ = responder.join();
    let n = c.threads as u64 * c.calls as u64;
    ctx.evals(n);
    ctx.class_n(if c.need_reply { "all_ops_stress_calls_acked" } else { "all_ops_stress_calls" }, n);
    ctx.nontrivial(&("all_ops_stress", c.threads, c.need_reply));
    if let Some(e) = err.lock().unwrap().clone() {
        return Err(format!("all-operations stress: {e}"));
    }
    if hung {
        return Err("all-operations stress: callers do not complete within 120 s".into());
    }
    Ok(())
}

// ------------------------------------------------------------------ completion when the peer misbehaves while an answer is awaited

#[derive(Serialize, Deserialize, Debug, Clone, Copy, Hash, PartialEq, Eq)]
pub enum Fault {
    /// the peer reads the request and closes the connection
    Disconnect,
    /// the peer answers with a message that is not the reply to that request
    WrongAnswer,
    /// the peer sends half a header and closes
    HalfHeader,
}

#[derive(Serialize, Deserialize, Debug, Clone)]
pub struct FaultCase {
    pub endpoint: Endpoint,
    pub kind: OpKind,
    pub fault: Fault,
}

/// "all calls complete (no self-deadlock)": a call whose answer never arrives properly returns, and does not leave the
/// endpoint's lock taken — a call on another clone afterwards returns too.
pub fn run_fault_case(ctx: &mut Ctx, c: &FaultCase) -> Result<(), String> {
    let (ep, mut peer) = make_endpoint(c.endpoint)?;
    let ep2 = ep.clone();
    let kind = c.kind;
    let first = std::thread::Builder::new().name("c10_fault_first".into()).spawn(move || call(&ep, kind, 2, 0)).map_err(|e| e.to_string())?;
    // wait for the request to be on the wire
    let t0 = Instant::now();
    while peer.frames.len() <= peer.answered && t0.elapsed() < BOUND {
        peer.poll();
        std::thread::sleep(Duration::from_micros(100));
    }
    if peer.frames.len() <= peer.answered {
        return Err(format!("{c:?}: the request never reached the wire"));
    }
    let code = peer.frames[peer.answered].code;
    match c.fault {
        Fault::Disconnect => {}
        Fault::WrongAnswer => {
            let wrong = match c.endpoint {
                Endpoint::Gpu => spec::msg(code + 1, spec::gpu::F_REPLY, &[0u8; 8]),
                _ => spec::reply(code + 1, &spec::b_u64(0)),
            };
            let _ = rawpeer::send_all(peer.sock.as_raw_fd(), &wrong, &[]);
        }
        Fault::HalfHeader => {
            let _ = rawpeer::send_all(peer.sock.as_raw_fd(), &spec::reply(code, &spec::b_u64(0))[..6], &[]);
        }
    }
    let _ = peer.sock.shutdown(std::net::Shutdown::Both);
    let wait = |h: std::thread::JoinHandle<Result<Option<u32>, String>>, what: &str| -> Result<Result<Option<u32>, String>, String> {
        let t0 = Instant::now();
        while !h.is_finished() {
            if t0.elapsed() > BOUND {
                return Err(format!("{c:?}: {what} has not returned {BOUND:?} after the peer {:?} (self-deadlock or indefinite wait)", c.fault));
            }
            std::thread::sleep(Duration::from_micros(200));
        }
        h.join().map_err(|_| format!("{c:?}: {what} panicked"))
    };
    let r1 = wait(first, "the call awaiting its answer")?;
    if r1.is_ok() {
        return Err(format!("{c:?}: the call returned Ok({:?}) although no reply to it was ever sent", r1.unwrap()));
    }
    // the lock must be free again: a fire-and-forget call on another clone returns (with whatever result)
    let second = std::thread::Builder::new().name("c10_fault_second".into()).spawn(move || call(&ep2, OpKind::Forget, 4, 0)).map_err(|e| e.to_string())?;
    let _ = wait(second, "a later call on another clone")?;
    ctx.class(&format!("fault_{:?}", c.fault));
    ctx.nontrivial(&("fault", c.endpoint, c.kind, c.fault));
    ctx.sample(|| json!({"fault_case": c, "first_call_result": format!("{r1:?}")}));
    Ok(())
}

// ------------------------------------------------------------------ a signal while the answer is awaited

#[derive(Serialize, Deserialize, Debug, Clone)]
pub struct SignalCase {
    pub endpoint: Endpoint,
    pub kind: OpKind,
    pub signals: u8,
}

extern "C" fn noop_handler(_: libc::c_int) {}

/// A signal (handler installed without SA_RESTART) interrupts the thread that is blocked waiting for its answer.  The
/// transaction stays whole: the call still returns its own answer once the peer sends it, and the next call on another
/// clone gets its own answer too (nothing stale is left in the socket).
pub fn install_noop_sigusr2() {
    unsafe {
        let mut sa: libc::sigaction = std::mem::zeroed();
        sa.sa_sigaction = noop_handler as usize;
        sa.sa_flags = 0; // no SA_RESTART: blocking system calls fail with EINTR
        libc::sigemptyset(&mut sa.sa_mask);
        libc::sigaction(libc::SIGUSR2, &sa, std::ptr::null_mut());
    }
}

pub fn run_signal_case(ctx: &mut Ctx, c: &SignalCase) -> Result<(), String> {
    install_noop_sigusr2();
    let (ep, mut peer) = make_endpoint(c.endpoint)?;
    let ep2 = ep.clone();
    let kind = c.kind;
    let tid = Arc::new(std::sync::atomic::AtomicI32::new(0));
    let t2 = tid.clone();
    let first = std::thread::Builder::new()
        .name("c10_sig_first".into())
        .spawn(move || {
            t2.store(unsafe { libc::gettid() }, Ordering::SeqCst);
            call(&ep, kind, 2, 0)
        })
        .map_err(|e| e.to_string())?;
    let t0 = Instant::now();
    while peer.frames.len() <= peer.answered && t0.elapsed() < BOUND {
        peer.poll();
        std::thread::sleep(Duration::from_micros(100));
    }
    if peer.frames.len() <= peer.answered {
        return Err(format!("{c:?}: the request never reached the wire"));
    }
    // the caller is blocked in its read: interrupt it
    let t = tid.load(Ordering::SeqCst);
    let t0 = Instant::now();
    while !asleep(t, 4) && t0.elapsed() < BOUND {}
    for _ in 0..c.signals.max(1) {
        unsafe { libc::syscall(libc::SYS_tgkill, libc::getpid(), t, libc::SIGUSR2) };
        std::thread::sleep(Duration::from_millis(2));
    }
    // now the peer answers
    peer.answer_pending(c.endpoint);
    let wait = |h: std::thread::JoinHandle<Result<Option<u32>, String>>, what: &str| -> Result<Result<Option<u32>, String>, String> {
        let t0 = Instant::now();
        while !h.is_finished() {
            if t0.elapsed() > BOUND {
                return Err(format!("{c:?}: {what} has not returned {BOUND:?} after the peer answered"));
            }
            std::thread::sleep(Duration::from_micros(200));
        }
        h.join().map_err(|_| format!("{c:?}: {what} panicked"))
    };
    match wait(first, "the interrupted call")? {
        Ok(Some(v)) if v != 2 => return Err(format!("{c:?}: the interrupted call returned the answer to request {v}")),
        Ok(_) => {}
        Err(e) => return Err(format!("{c:?}: a signal delivered to the thread waiting for its answer made the call fail ({e}) although the peer answered; the transaction was abandoned half way")),
    }
    // a later call on another clone gets its own answer
    let second = std::thread::Builder::new().name("c10_sig_second".into()).spawn(move || call(&ep2, kind, 4, 0)).map_err(|e| e.to_string())?;
    let t0 = Instant::now();
    while peer.frames.len() <= peer.answered && t0.elapsed() < BOUND && !second.is_finished() {
        peer.poll();
        std::thread::sleep(Duration::from_micros(100));
    }
    peer.answer_pending(c.endpoint);
    match wait(second, "a later call on another clone")? {
        Ok(Some(v)) if v != 4 => return Err(format!("{c:?}: after the interrupted call, the next caller received the answer to request {v} instead of its own")),
        Ok(_) => {}
        Err(e) => return Err(format!("{c:?}: after the interrupted call, the next call on another clone failed: {e}")),
    }
    ctx.class("signal_during_reply_wait");
    ctx.nontrivial(&("signal", c.endpoint, c.kind, c.signals));
    Ok(())
}

fn perms(n: usize) -> Vec<Vec<u8>> {
    fn go(rest: Vec<u8>, cur: &mut Vec<u8>, out: &mut Vec<Vec<u8>>) {
        if rest.is_empty() {
            out.push(cur.clone());
            return;
        }
        for i in 0..rest.len() {
            let mut r = rest.clone();
            let x = r.remove(i);
            cur.push(x);
            go(r, cur, out);
            cur.pop();
        }
    }
    let mut out = Vec::new();
    go((0..n as u8).collect(), &mut Vec::new(), &mut out);
    out
}

pub fn run(ctx: &mut Ctx) {
    ctx.rule = "controlled runs: endpoint in {Frontend, Backend proxy, GpuBackend} x every op mix of 2 (quick) and 3 (thorough: all; quick: sampled) \
                callers over {reply-bearing, second reply-bearing code, acknowledged, fire-and-forget} x every release order of parked callers; the \
                first caller is parked at 'request written' (after_send) and again right before 'reply read' (reply_wait), the others are started and allowed to settle (parked / finished / \
                asleep on the lock), the raw peer answers each request with that request's identity. Plus uncontrolled stress (8 threads x 200 mixed \
                calls per endpoint) and a stress over all 27 answer-awaiting Frontend operations (8 threads x 4000 calls, with and without acknowledgements). Plus, per endpoint and answer-awaiting call kind, the peer disconnecting / answering with another message / sending half a header while the answer is awaited: the call must return an error and a later call on another clone must return. Non-trivial = a run in which another caller attempted its call while the first was parked at reply_wait, a fault case, a stress configuration."
        .into();
    ctx.assumptions = vec![
        "atomicity is explored at the granularity of the hold point (one window per call: after the write, before the read)".into(),
        "a caller is 'blocked' when its thread is asleep without being parked at a hold point (thread-state sampling)".into(),
    ];
    ctx.exhaustive = Some(true);
    let kinds = [OpKind::Reply, OpKind::Reply2, OpKind::Acked, OpKind::Forget];
    let mut space = Vec::new();
    for endpoint in [Endpoint::Frontend, Endpoint::BackendProxy, Endpoint::Gpu] {
        for a in kinds {
            for b in kinds {
                for order in perms(2) {
                    space.push(Case { endpoint, ops: vec![a, b], order, vars: vec![] });
                }
                for c3 in kinds {
                    let all3 = ctx.tier == crate::engine::Tier::Thorough;
                    let orders = perms(3);
                    for (oi, order) in orders.into_iter().enumerate() {
                        if all3 || oi == (a as usize + b as usize + c3 as usize) % 6 {
                            space.push(Case { endpoint, ops: vec![a, b, c3], order, vars: vec![] });
                        }
                    }
                }
            }
        }
    }
    let reps = ctx.tier.pick(2usize, 10usize);
    let mut space: Vec<Case> = (0..reps).flat_map(|_| space.clone()).collect();
    // walk through the concrete operations of each kind (8 fire-and-forget GPU requests, 2 reply-bearing ones, 5 back-end requests)
    for (n, case) in space.iter_mut().enumerate() {
        case.vars = (0..case.ops.len()).map(|i| ((n / 3 + i * 3) % 40) as u8).collect();
    }
    ctx.extra.insert("controlled_runs".into(), json!(space.len()));
    ctx.enumerate("controlled", space, |ctx, c| run_case(ctx, c));

    let (threads, calls) = ctx.tier.pick((8u8, 200u32), (16u8, 20_000u32));
    let stress: Vec<StressCase> = [Endpoint::Frontend, Endpoint::BackendProxy, Endpoint::Gpu].into_iter().map(|endpoint| StressCase { endpoint, threads, calls }).collect();
    ctx.enumerate("stress", stress, |ctx, c| run_stress(ctx, c));

    // the peer misbehaves while an answer is awaited: the call returns an error and the lock is released
    let mut faults = Vec::new();
    for endpoint in [Endpoint::Frontend, Endpoint::BackendProxy, Endpoint::Gpu] {
        for kind in kinds {
            if !awaits(endpoint, kind) {
                continue;
            }
            for fault in [Fault::Disconnect, Fault::WrongAnswer, Fault::HalfHeader] {
                faults.push(FaultCase { endpoint, kind, fault });
            }
        }
    }
    ctx.enumerate("peer_fault_completion", faults, |ctx, c| run_fault_case(ctx, c));

    // a signal interrupts the wait for the answer
    let mut sigs = Vec::new();
    for endpoint in [Endpoint::Frontend, Endpoint::BackendProxy, Endpoint::Gpu] {
        for kind in kinds {
            if !awaits(endpoint, kind) || (endpoint == Endpoint::Gpu && kind == OpKind::Reply2) {
                continue;
            }
            for signals in [1u8, 3] {
                sigs.push(SignalCase { endpoint, kind, signals });
            }
        }
    }
    ctx.enumerate("signal_during_reply_wait", sigs, |ctx, c| run_signal_case(ctx, c));

    // every answer-awaiting Frontend operation (27 of them: each send/receive helper of the endpoint is exercised), mixed
    // over clones, with and without negotiated acknowledgements
    let (threads, calls) = ctx.tier.pick((8u8, 4000u32), (16u8, 50_000u32));
    let all: Vec<AllOpsCase> = [true, false].into_iter().map(|need_reply| AllOpsCase { threads, calls, need_reply }).collect();
    ctx.enumerate("all_ops_stress", all, |ctx, c| run_all_ops_stress(ctx, c));
}
