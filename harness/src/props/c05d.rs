//! C05 (b) — daemon level: sequences of well-typed control messages with adversarial 64-bit field
//! values sent to a running VhostUserDaemon (Bitmap = BitmapMmapRegion, 3 queues).  Oracle: no
//! panic in any thread of the daemon (global panic hook; overflow checks and debug assertions on),
//! no crash of the process (crash isolation), the daemon keeps answering after refusals.

use std::fs::File;
use std::os::unix::io::AsRawFd;

use proptest::prelude::*;
use serde::{Deserialize, Serialize};
use serde_json::json;

use crate::daemon_fx::{new_eventfd, BeCfg, Fx, Sess, VMutex, VRw};
use crate::engine::{lat16, lat32, lat64, Ctx};
use crate::fdtrack::memfd;
use crate::spec::{self, fe};

const PAGE: u64 = 4096;

#[derive(Serialize, Deserialize, Debug, Clone, Hash, PartialEq, Eq)]
pub struct AdvRegion {
    pub gpa: u64,
    /// size class: small (pages) or huge (mapping cannot be established)
    pub pages: u8,
    pub huge: Option<u64>,
    pub ua: u64,
    pub off_pages: u8,
}

#[derive(Serialize, Deserialize, Debug, Clone, Hash, PartialEq, Eq)]
pub enum TypedMsg {
    SetOwner,
    ResetOwner,
    ResetDevice,
    SetFeatures(u64),
    SetProtocolFeatures(u64),
    SetMemTable(Vec<AdvRegion>),
    AddMemReg(AdvRegion),
    RemMemReg(AdvRegion),
    SetVringNum(u32, u32),
    SetVringBase(u32, u32),
    SetVringAddr { index: u32, log: bool, desc: u64, used: u64, avail: u64, logaddr: u64 },
    GetVringBase(u32),
    SetVringKick(u8, bool),
    SetVringCall(u8, bool),
    SetVringErr(u8, bool),
    SetVringEnable(u32, bool),
    GetConfig(u32, u32, u32),
    SetConfig(u32, u32, u32),
    SetLogBase { size: u64, off_pages: u8, huge_off: Option<u64> },
    GetQueueNum,
    GetMaxMemSlots,
    GetInflight(u64, u64, u16, u16),
    Kick(u8),
}

#[derive(Serialize, Deserialize, Debug, Clone, Hash, PartialEq, Eq)]
pub struct DaemonCase {
    pub rwlock: bool,
    pub msgs: Vec<TypedMsg>,
}

fn fit(base: u64, size: u64) -> u64 {
    if (base as u128 + size as u128) < (1u128 << 64) {
        base
    } else {
        u64::MAX - size
    }
}

impl AdvRegion {
    /// (gpa, size, ua, off) satisfying the region rules, and the length the backing file needs
    fn resolve(&self) -> ([u64; 4], Option<u64>) {
        match self.huge {
            // sizes the kernel cannot map: no file length can back them
            Some(h) => {
                let size = h.max(1 << 48);
                ([fit(self.gpa, size), size, fit(self.ua, size), fit(self.off_pages as u64 * PAGE, size)], None)
            }
            None => {
                let size = (self.pages as u64 % 64 + 1) * PAGE;
                let off = self.off_pages as u64 % 8 * PAGE;
                ([fit(self.gpa, size), size, fit(self.ua, size), off], Some(off + size))
            }
        }
    }
}

fn run_generic<V: vhost_user_backend::VringT<crate::daemon_fx::GM> + Clone + Send + Sync + 'static>(ctx: &mut Ctx, c: &DaemonCase) -> Result<(), String> {
    let fx: Fx<V> = Fx::new(BeCfg { num_queues: 3, ..Default::default() })?;
    let mut s = Sess::open(fx, None)?;
    let mut keep: Vec<File> = Vec::new();
    let mut kicks: Vec<vmm_sys_util::eventfd::EventFd> = Vec::new();
    let mut refused = 0u32;
    // canaries: a descriptor of the harness opened after every message takes the lowest free number — also one the
    // library has closed too early and will close a second time; the library must never close what it does not own
    let mut canaries: Vec<(std::os::fd::OwnedFd, crate::fdtrack::FileId)> = Vec::new();
    for (i, m) in c.msgs.iter().enumerate() {
        if canaries.len() < 40 {
            let fd = crate::fdtrack::make_fd(crate::fdtrack::FdKind::Memfd);
            if let Some(id) = crate::fdtrack::file_id(fd.as_raw_fd()) {
                canaries.push((fd, id));
            }
        }
        let desc = format!("msg #{i} {m:?}");
        let r: Result<bool, String> = match m {
            TypedMsg::SetOwner => s.acked(fe::SET_OWNER, &[], &[]),
            TypedMsg::ResetOwner => s.acked(fe::RESET_OWNER, &[], &[]),
            TypedMsg::ResetDevice => s.acked(fe::RESET_DEVICE, &[], &[]),
            TypedMsg::SetFeatures(v) => s.acked(fe::SET_FEATURES, &spec::b_u64(*v), &[]),
            TypedMsg::SetProtocolFeatures(v) => {
                // REPLY_ACK stays on so that the harness keeps getting acknowledgements
                s.acked(fe::SET_PROTOCOL_FEATURES, &spec::b_u64(*v | 8 | (1 << 15) | (1 << 1)), &[])
            }
            TypedMsg::SetMemTable(rs) => {
                let mut body = Vec::new();
                let mut fds = Vec::new();
                for r in rs {
                    let (f4, flen) = r.resolve();
                    keep.push(memfd(flen.unwrap_or(PAGE)));
                    fds.push(keep.last().unwrap().as_raw_fd());
                    body.push(f4);
                }
                s.acked(fe::SET_MEM_TABLE, &spec::b_mem_table(&body), &fds)
            }
            TypedMsg::AddMemReg(r) => {
                let (f4, flen) = r.resolve();
                keep.push(memfd(flen.unwrap_or(PAGE)));
                let fd = keep.last().unwrap().as_raw_fd();
                s.acked(fe::ADD_MEM_REG, &spec::b_single_region(&f4), &[fd])
            }
            TypedMsg::RemMemReg(r) => s.acked(fe::REM_MEM_REG, &spec::b_single_region(&r.resolve().0), &[]),
            TypedMsg::SetVringNum(i, n) => s.acked(fe::SET_VRING_NUM, &spec::b_vring_state(*i, *n), &[]),
            TypedMsg::SetVringBase(i, n) => s.acked(fe::SET_VRING_BASE, &spec::b_vring_state(*i, *n), &[]),
            TypedMsg::SetVringAddr { index, log, desc: d, used, avail, logaddr } => {
                s.acked(fe::SET_VRING_ADDR, &spec::b_vring_addr(*index, *log as u32, d & !0xf, used & !0x3, avail & !0x1, *logaddr), &[])
            }
            TypedMsg::GetVringBase(i) => s.get(fe::GET_VRING_BASE, &spec::b_vring_state(*i, 0), &[]).map(|o| o.is_some()),
            TypedMsg::SetVringKick(i, some) | TypedMsg::SetVringCall(i, some) | TypedMsg::SetVringErr(i, some) => {
                let code = match m {
                    TypedMsg::SetVringKick(..) => fe::SET_VRING_KICK,
                    TypedMsg::SetVringCall(..) => fe::SET_VRING_CALL,
                    _ => fe::SET_VRING_ERR,
                };
                if *some {
                    let e = new_eventfd();
                    let r = s.acked(code, &spec::b_u64(*i as u64), &[e.as_raw_fd()]);
                    if code == fe::SET_VRING_KICK {
                        kicks.push(e);
                    }
                    r
                } else {
                    s.acked(code, &spec::b_u64(*i as u64 | 0x100), &[])
                }
            }
            TypedMsg::SetVringEnable(i, on) => s.acked(fe::SET_VRING_ENABLE, &spec::b_vring_state(*i, *on as u32), &[]),
            TypedMsg::GetConfig(off, size, flags) => {
                let (off, size) = (*off % 0x1000, (*size % 0x1000).max(1));
                let size = size.min(0x1000 - off).min(4084);
                s.get(fe::GET_CONFIG, &spec::b_config(off, size, *flags % 4, &vec![0u8; size as usize]), &[]).map(|o| o.is_some())
            }
            TypedMsg::SetConfig(off, size, flags) => {
                let (off, size) = (*off % 0x1000, (*size % 0x1000).max(1));
                let size = size.min(0x1000 - off).min(4084);
                s.acked(fe::SET_CONFIG, &spec::b_config(off, size, *flags % 4, &vec![0x42u8; size as usize]), &[])
            }
            TypedMsg::SetLogBase { size, off_pages, huge_off } => {
                // small windows are backed by a file of that length; huge ones cannot be mapped
                let (size, off, flen) = match huge_off {
                    Some(h) => ((*size).max(1 << 48), fit(*h, (*size).max(1 << 48)), PAGE),
                    None => {
                        let sz = (*size % (64 * PAGE)).max(1);
                        let off = *off_pages as u64 % 4 * PAGE;
                        (sz, off, (off + sz + PAGE - 1) / PAGE * PAGE)
                    }
                };
                keep.push(memfd(flen));
                let fd = keep.last().unwrap().as_raw_fd();
                s.get(fe::SET_LOG_BASE, &spec::b_log(size, off), &[fd]).map(|o| o.is_some())
            }
            TypedMsg::GetQueueNum => s.get(fe::GET_QUEUE_NUM, &[], &[]).map(|o| o.is_some()),
            TypedMsg::GetMaxMemSlots => s.get(fe::GET_MAX_MEM_SLOTS, &[], &[]).map(|o| o.is_some()),
            TypedMsg::GetInflight(a, b, nq, qs) => s.get(fe::GET_INFLIGHT_FD, &spec::b_inflight(*a, *b, (*nq).max(1), (*qs).max(1)), &[]).map(|o| o.is_some()),
            TypedMsg::Kick(k) => {
                if !kicks.is_empty() {
                    let _ = kicks[*k as usize % kicks.len()].write(1);
                }
                Ok(true)
            }
        };
        match r {
            Ok(true) => ctx.class("daemon_msg_accepted"),
            Ok(false) => {
                refused += 1;
                ctx.class("daemon_msg_refused");
            }
            Err(e) => {
                let panics = crate::engine_panic::take();
                if !panics.is_empty() {
                    return Err(format!("{desc}: panic in the daemon: {}", panics[0]));
                }
                return Err(format!("{desc}: daemon stopped answering: {e}"));
            }
        }
        let panics = crate::engine_panic::take();
        if !panics.is_empty() {
            return Err(format!("{desc}: panic in the daemon: {}", panics[0]));
        }
    }
    // worker liveness is not part of C05; it is only counted
    if s.fx.barrier().is_err() {
        ctx.class("daemon_worker_not_answering_at_end");
    }
    ctx.class("daemon_sequence");
    if refused > 0 && c.msgs.len() >= 3 {
        ctx.nontrivial(&("daemon", c.rwlock, &c.msgs));
    }
    ctx.sample(|| json!({"daemon_sequence": c.msgs, "refused": refused}));
    s.close();
    let panics = crate::engine_panic::take();
    if !panics.is_empty() {
        return Err(format!("panic in the daemon during teardown: {}", panics[0]));
    }
    for (k, (fd, id)) in canaries.iter().enumerate() {
        if crate::fdtrack::file_id(fd.as_raw_fd()) != Some(*id) {
            let n = fd.as_raw_fd();
            // do not close a number that is not ours any more
            for (fd, _) in canaries.drain(..) {
                std::mem::forget(fd);
            }
            return Err(format!("descriptor {n} of the harness (opened after message #{k}, never passed to the library) was closed or replaced during the session: the library closed a descriptor it does not own"));
        }
    }
    Ok(())
}

fn adv_region() -> impl Strategy<Value = AdvRegion> {
    (lat64(), any::<u8>(), prop_oneof![6 => Just(None), 1 => lat64().prop_map(Some)], lat64(), any::<u8>())
        .prop_map(|(gpa, pages, huge, ua, off_pages)| AdvRegion { gpa, pages, huge, ua, off_pages })
}

fn small_or_big_index() -> impl Strategy<Value = u32> {
    prop_oneof![4 => 0u32..3, 1 => Just(3u32), 1 => Just(255u32), 1 => lat32()]
}

fn msg_strategy() -> impl Strategy<Value = TypedMsg> {
    prop_oneof![
        1 => Just(TypedMsg::SetOwner),
        1 => Just(TypedMsg::ResetOwner),
        1 => Just(TypedMsg::ResetDevice),
        2 => lat64().prop_map(TypedMsg::SetFeatures),
        1 => prop_oneof![Just(0x1_7000_0000u64), Just(0x4000_0000u64), Just(0u64)].prop_map(TypedMsg::SetFeatures),
        1 => lat64().prop_map(TypedMsg::SetProtocolFeatures),
        3 => proptest::collection::vec(adv_region(), 1..=4).prop_map(TypedMsg::SetMemTable),
        3 => adv_region().prop_map(TypedMsg::AddMemReg),
        2 => adv_region().prop_map(TypedMsg::RemMemReg),
        2 => (small_or_big_index(), prop_oneof![lat32(), (0u32..=65535)]).prop_map(|(i, n)| TypedMsg::SetVringNum(i, n)),
        2 => (small_or_big_index(), lat32()).prop_map(|(i, n)| TypedMsg::SetVringBase(i, n)),
        4 => (small_or_big_index(), any::<bool>(), lat64(), lat64(), lat64(), lat64())
            .prop_map(|(index, log, desc, used, avail, logaddr)| TypedMsg::SetVringAddr { index, log, desc, used, avail, logaddr }),
        2 => small_or_big_index().prop_map(TypedMsg::GetVringBase),
        2 => (any::<u8>(), any::<bool>()).prop_map(|(i, s)| TypedMsg::SetVringKick(i % 5, s)),
        1 => (any::<u8>(), any::<bool>()).prop_map(|(i, s)| TypedMsg::SetVringKick(i, s)),
        1 => (any::<u8>(), any::<bool>()).prop_map(|(i, s)| TypedMsg::SetVringCall(i, s)),
        1 => (any::<u8>(), any::<bool>()).prop_map(|(i, s)| TypedMsg::SetVringErr(i, s)),
        2 => (any::<u8>(), any::<bool>()).prop_map(|(i, s)| TypedMsg::SetVringCall(i % 4, s)),
        1 => (any::<u8>(), any::<bool>()).prop_map(|(i, s)| TypedMsg::SetVringErr(i % 4, s)),
        2 => (small_or_big_index(), any::<bool>()).prop_map(|(i, on)| TypedMsg::SetVringEnable(i, on)),
        1 => (lat32(), lat32(), any::<u32>()).prop_map(|(a, b, c)| TypedMsg::GetConfig(a, b, c)),
        1 => (lat32(), lat32(), any::<u32>()).prop_map(|(a, b, c)| TypedMsg::SetConfig(a, b, c)),
        2 => (lat64(), any::<u8>(), prop_oneof![4 => Just(None), 1 => lat64().prop_map(Some)]).prop_map(|(size, off_pages, huge_off)| TypedMsg::SetLogBase { size, off_pages, huge_off }),
        1 => Just(TypedMsg::GetQueueNum),
        1 => Just(TypedMsg::GetMaxMemSlots),
        1 => (lat64(), lat64(), lat16(), lat16()).prop_map(|(a, b, c, d)| TypedMsg::GetInflight(a, b, c, d)),
        2 => any::<u8>().prop_map(TypedMsg::Kick),
    ]
}

/// regions that really get mapped and translated: user addresses and ring addresses around them
fn related_sequence() -> impl Strategy<Value = Vec<TypedMsg>> {
    (lat64(), 1u8..16, lat64(), proptest::collection::vec((0u8..6, -2i64..3, 0u32..4), 1..8)).prop_map(|(gpa, pages, ua, probes)| {
        let r = AdvRegion { gpa, pages, huge: None, ua, off_pages: 0 };
        let (f4, _) = r.resolve();
        let mut v = vec![TypedMsg::SetFeatures(0x1_7000_0000), TypedMsg::SetMemTable(vec![r.clone()])];
        for (edge, d, idx) in probes {
            let base = match edge {
                0 => f4[2],
                1 => f4[2].wrapping_add(f4[1]),
                2 => f4[2].wrapping_add(f4[1] / 2),
                3 => 0,
                4 => u64::MAX,
                _ => f4[0],
            };
            let a = base.wrapping_add((d * 16) as u64);
            v.push(TypedMsg::SetVringAddr { index: idx, log: false, desc: a, used: f4[2], avail: f4[2].wrapping_add(64), logaddr: 0 });
            v.push(TypedMsg::SetVringAddr { index: idx, log: false, desc: f4[2], used: a, avail: a, logaddr: u64::MAX });
        }
        v.push(TypedMsg::AddMemReg(AdvRegion { gpa: f4[0].wrapping_add(f4[1]), pages: 3, huge: None, ua: f4[2].wrapping_add(f4[1]), off_pages: 1 }));
        v.push(TypedMsg::SetLogBase { size: 1, off_pages: 0, huge_off: None });
        v.push(TypedMsg::SetLogBase { size: 64 * PAGE - 1, off_pages: 1, huge_off: None });
        v.push(TypedMsg::RemMemReg(r));
        v
    })
}

/// descriptor-carrying ring messages on few rings: installs, replacements and removals of kick / call / err descriptors on
/// rings that are stopped, started and running, interleaved with stop and enable
fn ring_fd_sequence() -> impl Strategy<Value = Vec<TypedMsg>> {
    let op = (0u8..3, any::<bool>(), 0u8..8).prop_map(|(r, some, k)| match k {
        0 | 1 => TypedMsg::SetVringKick(r, true),
        2 | 3 => TypedMsg::SetVringCall(r, true),
        4 => TypedMsg::SetVringErr(r, some),
        5 => TypedMsg::SetVringCall(r, some),
        6 => TypedMsg::GetVringBase(r as u32),
        _ => TypedMsg::SetVringEnable(r as u32, some),
    });
    proptest::collection::vec(op, 4..24).prop_map(|mut v| {
        v.insert(0, TypedMsg::SetFeatures(0x1_7000_0000));
        v
    })
}

pub fn run_daemon_case(ctx: &mut Ctx, c: &DaemonCase) -> Result<(), String> {
    if c.rwlock {
        run_generic::<VRw>(ctx, c)
    } else {
        run_generic::<VMutex>(ctx, c)
    }
}

pub fn daemon_case_strategy() -> impl Strategy<Value = DaemonCase> {
    (
        any::<bool>(),
        prop_oneof![
            3 => proptest::collection::vec(msg_strategy(), 1..30),
            1 => related_sequence(),
            1 => ring_fd_sequence(),
        ],
    )
        .prop_map(|(rwlock, msgs)| DaemonCase { rwlock, msgs })
}

pub fn run_daemon_part(ctx: &mut Ctx) {
    let n = ctx.tier.pick(3000u32, 60_000u32);
    ctx.prop_check("daemon_sequences", n, daemon_case_strategy(), |ctx, c| run_daemon_case(ctx, c));
}
