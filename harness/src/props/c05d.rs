//! C05 (b) — daemon-level part; filled in together with the daemon fixture.
use crate::engine::Ctx;
pub fn run_daemon_part(_ctx: &mut Ctx) {}
