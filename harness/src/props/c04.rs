//! C04 — the back-end request server emits exactly the replies the protocol prescribes; the k-th
//! reply answers the k-th request that required one; every well-formed request is consumed exactly.
//!
//! G: histories over the full request alphabet (44 codes), spec-well-formed bodies, NEED_REPLY per
//!    request, scripted handler outcome per request, starting from a fresh connection.
//!    Exhaustive to depth 3 (quick) / 4 (thorough) over a reduced alphabet, random beyond.
//! O: reference protocol model (below) replayed on the same history; output stream compared
//!    element by element; sentinel GET_FEATURES proves consumption.

use proptest::prelude::*;
use serde::{Deserialize, Serialize};
use serde_json::json;

use crate::engine::Ctx;
use crate::gen::wellformed_body;
use crate::rawpeer::RawMsg;
use crate::rec_backend::{config_pattern, Outcome, Rec};
use crate::spec::{self, fe, Body, Gate, Reply};
use crate::srv::{fresh_fds, run_stream, Chunk, Res};

#[derive(Serialize, Deserialize, Debug, Clone, Hash, PartialEq, Eq)]
pub struct Req {
    pub code: u32,
    pub need_reply: bool,
    pub body: Vec<u8>,
    pub nfds: usize,
    pub outcome: Outcome,
}

#[derive(Serialize, Deserialize, Debug, Clone, Hash, PartialEq, Eq)]
pub struct Hist {
    /// virtio features the device (handler) offers
    pub dev_features: u64,
    /// protocol features the device (handler) offers
    pub dev_pf: u64,
    pub reqs: Vec<Req>,
}

#[derive(Debug, Clone)]
pub enum Expect {
    /// exactly this frame (flags must be version|REPLY = 5); body None = any content (spec silent)
    Frame { code: u32, body: Option<Vec<u8>>, nfds: usize },
    /// request rejected before the handler: nothing, or one non-zero ack if an ack was due
    RejectedAck { code: u32, may_ack: bool },
    /// SET_PROTOCOL_FEATURES that itself flips REPLY_ACK: ack (exact value) or nothing
    FlipAck { code: u32, ok: bool },
}

pub const SENTINEL: u64 = 0x5e47_1e1f_0000_0001;

pub struct Model {
    pub offered: u64,
    pub acked_vf: u64,
    pub acked_pf: u64,
}

impl Model {
    pub fn new() -> Self {
        Model { offered: 0, acked_vf: 0, acked_pf: 0 }
    }
    pub fn ack_due(&self) -> bool {
        self.offered & spec::VIRTIO_F_PROTOCOL_FEATURES != 0 && self.acked_pf & (1 << spec::pf::REPLY_ACK) != 0
    }
    pub fn gate_open(&self, g: Gate) -> bool {
        match g {
            Gate::None => true,
            Gate::Pf(bit) => self.acked_pf & (1u64 << bit) != 0,
            Gate::VirtioPf => self.acked_vf & spec::VIRTIO_F_PROTOCOL_FEATURES != 0,
        }
    }
}

/// name of the handler method a request reaches (None: never reaches the handler)
pub fn handler_name(code: u32) -> &'static str {
    match code {
        1 => "get_features",
        2 => "set_features",
        3 => "set_owner",
        4 => "reset_owner",
        5 => "set_mem_table",
        6 => "set_log_base",
        8 => "set_vring_num",
        9 => "set_vring_addr",
        10 => "set_vring_base",
        11 => "get_vring_base",
        12 => "set_vring_kick",
        13 => "set_vring_call",
        14 => "set_vring_err",
        15 => "get_protocol_features",
        16 => "set_protocol_features",
        17 => "get_queue_num",
        18 => "set_vring_enable",
        21 => "set_backend_req_fd",
        24 => "get_config",
        25 => "set_config",
        28 => "postcopy_advise",
        29 => "postcopy_listen",
        30 => "postcopy_end",
        31 => "get_inflight_fd",
        32 => "set_inflight_fd",
        33 => "set_gpu_socket",
        34 => "reset_device",
        36 => "get_max_mem_slots",
        37 => "add_mem_region",
        38 => "remove_mem_region",
        41 => "get_shared_object",
        42 => "set_device_state_fd",
        43 => "check_device_state",
        44 => "get_shmem_config",
        _ => "?",
    }
}

/// The reference model: expected output and handler invocations for a history.
pub fn expected(h: &Hist) -> (Vec<Expect>, Vec<(usize, &'static str)>) {
    let mut m = Model::new();
    let mut out = Vec::new();
    let mut calls = Vec::new();
    for (ri, r) in h.reqs.iter().enumerate() {
        let s = spec::fe_req(r.code).expect("alphabet");
        let ack_due = m.ack_due();
        // requests the server rejects before the handler
        let mut rejected = !spec::fe_implemented(s) || !m.gate_open(s.gate);
        if r.code == fe::SET_VRING_ENABLE && spec::rd_u32(&r.body, 4) > 1 {
            rejected = true;
        }
        if rejected {
            out.push(Expect::RejectedAck { code: r.code, may_ack: r.need_reply && ack_due });
            continue;
        }
        calls.push((ri, handler_name(r.code)));
        let ok = r.outcome.fail.is_none();
        match s.reply {
            Reply::AckOnly => {
                // set_backend_req_fd has no result to fail with
                let ok = ok || r.code == fe::SET_BACKEND_REQ_FD;
                if r.code == fe::SET_FEATURES {
                    m.acked_vf = spec::rd_u64(&r.body, 0);
                }
                if r.code == fe::SET_PROTOCOL_FEATURES {
                    let before = ack_due;
                    m.acked_pf = spec::rd_u64(&r.body, 0);
                    let after = m.ack_due();
                    if before != after {
                        if r.need_reply {
                            out.push(Expect::FlipAck { code: r.code, ok });
                        }
                        continue;
                    }
                }
                if r.need_reply && ack_due {
                    out.push(Expect::Frame { code: r.code, body: Some(spec::b_u64(if ok { 0 } else { 1 })), nfds: 0 });
                }
            }
            Reply::U64 => {
                if ok {
                    let v = match r.code {
                        fe::GET_FEATURES => r.outcome.val.unwrap_or(h.dev_features),
                        // REPLY_ACK is always offered
                        fe::GET_PROTOCOL_FEATURES => r.outcome.val.unwrap_or(h.dev_pf) | (1 << spec::pf::REPLY_ACK),
                        fe::GET_QUEUE_NUM => r.outcome.val.unwrap_or(2),
                        fe::GET_MAX_MEM_SLOTS => r.outcome.val.unwrap_or(32),
                        _ => r.outcome.val.unwrap_or(0),
                    };
                    if r.code == fe::GET_FEATURES {
                        m.offered = v;
                    }
                    out.push(Expect::Frame { code: r.code, body: Some(spec::b_u64(v)), nfds: 0 });
                }
            }
            Reply::VringState => {
                if ok {
                    let idx = spec::rd_u32(&r.body, 0);
                    let i = r.outcome.val.map(|v| v as u32).unwrap_or(idx);
                    out.push(Expect::Frame { code: r.code, body: Some(spec::b_vring_state(i, r.outcome.val2 as u32)), nfds: 0 });
                }
            }
            Reply::Config => {
                let off = spec::rd_u32(&r.body, 0);
                let size = spec::rd_u32(&r.body, 4);
                let flags = spec::rd_u32(&r.body, 8);
                let payload = r.outcome.bytes.clone().unwrap_or_else(|| config_pattern(off, size));
                if ok && payload.len() == size as usize {
                    out.push(Expect::Frame { code: r.code, body: Some(spec::b_config(off, size, flags, &payload)), nfds: 0 });
                } else {
                    // in-band failure encoding: zero-size config, no payload
                    out.push(Expect::Frame { code: r.code, body: Some(spec::b_config(off, 0, flags, &[])), nfds: 0 });
                }
            }
            Reply::InflightFd => {
                if ok {
                    let ms = spec::rd_u64(&r.body, 0);
                    let nq = spec::rd_u16(&r.body, 16);
                    let qs = spec::rd_u16(&r.body, 18);
                    let b = spec::b_inflight(r.outcome.val.unwrap_or(ms), r.outcome.val2, nq, qs);
                    out.push(Expect::Frame { code: r.code, body: Some(b), nfds: 1 });
                }
            }
            Reply::EmptyFd => {
                out.push(Expect::Frame { code: r.code, body: Some(vec![]), nfds: if ok { 1 } else { 0 } });
            }
            Reply::DeviceState => {
                let (v, n) = if !ok {
                    (0x101, 0)
                } else if r.outcome.file {
                    (0, 1)
                } else {
                    (0x100, 0)
                };
                out.push(Expect::Frame { code: r.code, body: Some(spec::b_u64(v)), nfds: n });
            }
            Reply::Status => {
                out.push(Expect::Frame { code: r.code, body: Some(spec::b_u64(if ok { 0 } else { 1 })), nfds: 0 });
            }
            Reply::ShmemConfig => {
                if ok {
                    let n = r.outcome.val.unwrap_or(3) as u32;
                    let sizes: Vec<u64> = (0..256u64).map(|i| r.outcome.val2.wrapping_mul(i + 1)).collect();
                    out.push(Expect::Frame { code: r.code, body: Some(spec::b_shmem_config(n, &sizes)), nfds: 0 });
                }
            }
            Reply::Log => {
                if ok {
                    // payload of the SET_LOG_BASE reply: the spec is silent
                    out.push(Expect::Frame { code: r.code, body: None, nfds: 0 });
                }
            }
        }
    }
    (out, calls)
}

fn frame_matches(e: &Expect, a: &RawMsg) -> Result<bool, String> {
    let (code, flags, size) = spec::parse_hdr(&a.bytes);
    let body = &a.bytes[12..];
    match e {
        Expect::Frame { code: c, body: b, nfds } => {
            if code != *c {
                return Ok(false);
            }
            if flags != 5 {
                return Err(format!("reply to code {c} has flags {flags:#x}, prescribed 0x5 (version 1 | REPLY, NEED_REPLY clear)"));
            }
            if size as usize != body.len() {
                return Err(format!("reply to code {c}: size field {size} but {} payload bytes", body.len()));
            }
            if let Some(b) = b {
                // the 4 trailing bytes of the 24-byte inflight description are struct padding
                // (content unspecified): compared by length only
                let n = if *c == fe::GET_INFLIGHT_FD { 20 } else { usize::MAX };
                if b.len() != body.len() || b.iter().zip(body.iter()).take(n).any(|(x, y)| x != y) {
                    return Ok(false);
                }
            }
            if a.fds_later != 0 {
                return Err(format!("reply to code {c}: descriptors on bytes after the first"));
            }
            Ok(a.fds_first.len() == *nfds)
        }
        Expect::RejectedAck { code: c, may_ack } => {
            Ok(*may_ack && code == *c && flags == 5 && body.len() == 8 && spec::rd_u64(body, 0) != 0 && a.fds_first.is_empty())
        }
        Expect::FlipAck { code: c, ok } => Ok(code == *c
            && flags == 5
            && body.len() == 8
            && (spec::rd_u64(body, 0) == 0) == *ok
            && a.fds_first.is_empty()),
    }
}

/// backtracking match of the actual frames against the expectation list
fn match_all(exp: &[Expect], act: &[RawMsg]) -> Result<(), String> {
    fn go(exp: &[Expect], act: &[RawMsg], depth: usize) -> Result<(), String> {
        match exp.first() {
            None => {
                if act.is_empty() {
                    Ok(())
                } else {
                    let (c, f, s) = spec::parse_hdr(&act[0].bytes);
                    Err(format!("unexpected extra frame #{depth} on the wire: code {c} flags {f:#x} size {s}"))
                }
            }
            Some(e) => {
                let optional = !matches!(e, Expect::Frame { .. });
                let mut first_err = None;
                if let Some(a) = act.first() {
                    match frame_matches(e, a) {
                        Ok(true) => match go(&exp[1..], &act[1..], depth + 1) {
                            Ok(()) => return Ok(()),
                            Err(x) => first_err = Some(x),
                        },
                        Ok(false) => {}
                        Err(x) => return Err(x),
                    }
                }
                if optional {
                    return go(&exp[1..], act, depth);
                }
                Err(first_err.unwrap_or_else(|| match act.first() {
                    Some(a) => {
                        let (c, f, _s) = spec::parse_hdr(&a.bytes);
                        format!(
                            "frame #{depth}: expected {e:?}, wire has code {c} flags {f:#x} body {:x?} nfds {}",
                            &a.bytes[12..a.bytes.len().min(12 + 24)],
                            a.fds_first.len()
                        )
                    }
                    None => format!("frame #{depth}: expected {e:?}, nothing more on the wire"),
                }))
            }
        }
    }
    go(exp, act, 0)
}

pub fn run_hist(ctx: &mut Ctx, h: &Hist) -> Result<(), String> {
    // sentinel: a final GET_FEATURES answered with a distinctive value
    let mut h2 = h.clone();
    h2.reqs.push(Req {
        code: fe::GET_FEATURES,
        need_reply: false,
        body: vec![],
        nfds: 0,
        outcome: Outcome { val: Some(SENTINEL), ..Default::default() },
    });
    // a failing SET_FEATURES is scripted only when it leaves the one bit the model's gates look at (bit 30) unchanged:
    // the statement does not say whether a refused feature set is recorded
    {
        let mut bit30 = false;
        for r in h2.reqs.iter_mut() {
            if r.code == fe::SET_FEATURES {
                let new = spec::rd_u64(&r.body, 0) & spec::VIRTIO_F_PROTOCOL_FEATURES != 0;
                if r.outcome.fail.is_some() && new != bit30 {
                    r.outcome.fail = None;
                }
                bit30 = new;
            }
        }
    }
    let (exp, calls) = expected(&h2);

    let mut rec = Rec::new(h.dev_features, h.dev_pf);
    rec.hold_files = false;
    // the script is consumed only by requests that reach the handler
    for (ri, _) in &calls {
        rec.script.push_back(h2.reqs[*ri].outcome.clone());
    }
    let chunks: Vec<Chunk> = h2
        .reqs
        .iter()
        .map(|r| Chunk {
            bytes: spec::request(r.code, r.need_reply, &r.body),
            fds: fresh_fds(r.nfds, crate::fdtrack::FdKind::Memfd),
        })
        .collect();
    let n = h2.reqs.len();
    let run = run_stream(rec, chunks, n + 3);

    // classification
    let nontrivial = {
        let mut seen_neg = false;
        let mut nt = false;
        let mut failed_before = false;
        for r in &h.reqs {
            let s = spec::fe_req(r.code).unwrap();
            if matches!(r.code, 1 | 2 | 15 | 16) {
                seen_neg = true;
            } else if s.reply == Reply::AckOnly && r.need_reply && seen_neg {
                nt = true;
            }
            if failed_before && s.reply != Reply::AckOnly {
                nt = true;
            }
            if r.outcome.fail.is_some() {
                failed_before = true;
            }
        }
        nt
    };
    if nontrivial {
        let key: Vec<(u32, bool, Option<u8>, u64)> = h
            .reqs
            .iter()
            .map(|r| (r.code, r.need_reply, r.outcome.fail, if matches!(r.code, 2 | 16) { spec::rd_u64(&r.body, 0) } else { 0 }))
            .collect();
        ctx.nontrivial(&(h.dev_features & spec::VIRTIO_F_PROTOCOL_FEATURES, key));
        ctx.class("nontrivial");
    }
    ctx.class(&format!("len_{}", h.reqs.len().min(12)));
    for r in &h.reqs {
        if r.outcome.fail.is_some() {
            ctx.class("req_handler_fails");
        }
        if r.need_reply {
            ctx.class("req_need_reply");
        }
    }
    ctx.sample(|| {
        json!({"dev_features": format!("{:#x}", h.dev_features), "dev_pf": format!("{:#x}", h.dev_pf),
               "reqs": h.reqs.iter().map(|r| json!({"code": r.code, "need_reply": r.need_reply, "fail": r.outcome.fail, "nfds": r.nfds, "body_len": r.body.len()})).collect::<Vec<_>>(),
               "wire_frames": run.out.len()})
    });

    // 1. no panic, every request consumed exactly: n+1 dispatches then a clean Disconnected
    if let Some(Res::Panic(p)) = run.results.iter().find(|r| matches!(r, Res::Panic(_))) {
        return Err(format!("server panicked: {p}"));
    }
    if !run.ended_disconnected || run.results.len() != n + 1 {
        return Err(format!(
            "server did not consume exactly header+declared size per request: {} handle_request calls for {} requests, results {:?}",
            run.results.len(),
            n,
            run.results
        ));
    }
    if !run.out_leftover.is_empty() {
        return Err(format!("server output ends in a partial frame of {} bytes", run.out_leftover.len()));
    }
    // 2. handler invocations as the model says
    let got: Vec<&str> = run.log.iter().map(|c| c.name()).collect();
    let calls: Vec<&str> = calls.iter().map(|c| c.1).collect();
    if got != calls {
        return Err(format!("handler invocations {got:?} differ from the model's {calls:?}"));
    }
    // 3. the output stream equals the prescribed one
    match_all(&exp, &run.out)?;
    // 4. Ok/Err results: a request whose handler failed on a reply kind without in-band encoding
    //    must not have returned Ok (not part of C04's statement; only counted)
    Ok(())
}

fn outcome_for(code: u32) -> BoxedStrategy<Outcome> {
    let never_fail = matches!(code, 16);
    (
        prop_oneof![3 => Just(None), 1 => (0u8..16).prop_map(Some)],
        prop_oneof![2 => Just(None), 1 => crate::engine::lat64().prop_map(Some)],
        crate::engine::lat64(),
        prop_oneof![4 => Just(None), 1 => proptest::collection::vec(any::<u8>(), 0..40).prop_map(Some)],
        any::<bool>(),
    )
        .prop_map(move |(fail, val, val2, bytes, file)| Outcome {
            fail: if never_fail { None } else { fail },
            val: if code == fe::GET_FEATURES || code == fe::GET_PROTOCOL_FEATURES { None } else { val },
            val2,
            bytes,
            file,
        })
        .boxed()
}

pub fn req_strategy() -> BoxedStrategy<Req> {
    // negotiation messages are frequent so that histories reach interesting states
    let code = prop_oneof![
        3 => prop_oneof![Just(1u32), Just(2), Just(15), Just(16)],
        5 => 1u32..=44,
    ];
    code.prop_flat_map(|code| {
        (Just(code), any::<bool>(), wellformed_body(code), outcome_for(code))
            .prop_map(|(code, need_reply, (body, nfds), outcome)| Req { code, need_reply, body, nfds, outcome })
    })
    .boxed()
}

pub fn hist_strategy(maxlen: usize) -> impl Strategy<Value = Hist> {
    (
        prop_oneof![Just(spec::VIRTIO_F_PROTOCOL_FEATURES | 0x1_0000_0003), Just(0x1_0000_0003u64), crate::engine::lat64()],
        prop_oneof![Just(0x3f_ffffu64), Just(0u64), any::<u64>().prop_map(|v| v & 0x3f_ffff)],
        proptest::collection::vec(req_strategy(), 0..=maxlen),
    )
        .prop_map(|(dev_features, dev_pf, reqs)| Hist { dev_features, dev_pf, reqs })
}

/// reduced alphabet for the exhaustive part
fn reduced_alphabet() -> Vec<Req> {
    let ok = Outcome::default();
    let fail = Outcome { fail: Some(0), ..Default::default() };
    let mut a = Vec::new();
    let mk = |code: u32, nr: bool, body: Vec<u8>, nfds: usize, o: &Outcome| Req { code, need_reply: nr, body, nfds, outcome: o.clone() };
    a.push(mk(1, false, vec![], 0, &ok)); // GET_FEATURES
    a.push(mk(2, true, spec::b_u64(spec::VIRTIO_F_PROTOCOL_FEATURES), 0, &ok));
    a.push(mk(2, true, spec::b_u64(0), 0, &ok));
    a.push(mk(2, true, spec::b_u64(1), 0, &fail)); // SET_FEATURES refused by the device (bit 30 clear)
    a.push(mk(15, true, vec![], 0, &ok)); // GET_PROTOCOL_FEATURES
    a.push(mk(16, true, spec::b_u64(0x3f_ffff), 0, &ok)); // all incl. REPLY_ACK
    a.push(mk(16, true, spec::b_u64(0x3f_ffff & !8), 0, &ok)); // without REPLY_ACK
    a.push(mk(16, false, spec::b_u64(8), 0, &ok));
    for nr in [false, true] {
        a.push(mk(3, nr, vec![], 0, &ok)); // SET_OWNER ok
        a.push(mk(3, nr, vec![], 0, &fail)); // SET_OWNER fails
    }
    a.push(mk(11, true, spec::b_vring_state(1, 0), 0, &ok)); // GET_VRING_BASE ok
    a.push(mk(11, true, spec::b_vring_state(1, 0), 0, &fail)); // fails: nothing
    a.push(mk(24, true, spec::b_config(0x100, 4, 0, &[1, 2, 3, 4]), 0, &ok)); // gated, reply with payload
    a.push(mk(24, false, spec::b_config(0x100, 4, 0, &[1, 2, 3, 4]), 0, &fail)); // in-band failure
    a.push(mk(34, true, vec![], 0, &ok)); // RESET_DEVICE (gated ack)
    a.push(mk(43, true, vec![], 0, &fail)); // CHECK_DEVICE_STATE failing: status 1
    a.push(mk(18, true, spec::b_vring_state(0, 1), 0, &ok)); // SET_VRING_ENABLE (virtio gate)
    a.push(mk(12, true, spec::b_u64(0x100), 0, &fail)); // SET_VRING_KICK without fd, fails
    a.push(mk(39, true, spec::b_u64(0), 0, &ok)); // SET_STATUS: not implemented
    a
}

pub fn run(ctx: &mut Ctx) {
    ctx.rule = "histories of spec-well-formed requests over all 44 request codes with NEED_REPLY and a scripted handler \
                outcome per request, from a fresh connection, written by a raw peer and served by the real BackendReqHandler; \
                the wire output is compared frame by frame (backtracking matcher) with a reference protocol model, a sentinel \
                GET_FEATURES proves byte-exact consumption. Exhaustive part: all words up to the stated depth over a reduced \
                alphabet of 22 symbols x {PROTOCOL_FEATURES offered or not}; random part: proptest histories up to length 12. \
                Non-trivial = an ack-type request with NEED_REPLY after a negotiation message, or a handler failure followed by \
                another reply-bearing request; distinct by (code, NEED_REPLY, outcome, negotiated value) sequence."
        .into();
    ctx.assumptions = vec![
        "spec.rs request table and layouts are hand-transcribed from the vhost-user specification (trusted base)".into(),
        "tolerances: the SET_PROTOCOL_FEATURES that itself flips REPLY_ACK may or may not be acked; a request rejected before the handler (closed gate, unimplemented code, enable not in {0,1}) may produce nothing or one non-zero ack when an ack was due".into(),
        "handler failures are not scripted for SET_PROTOCOL_FEATURES, and for SET_FEATURES only when bit 30 stays as it was (the statement does not say what is negotiated after a refused negotiation message)".into(),
        "payload content of the SET_LOG_BASE reply is spec-silent and accepted as is".into(),
    ];

    // exhaustive over the reduced alphabet
    let alpha = reduced_alphabet();
    let depth = ctx.tier.pick(3usize, 4usize);
    ctx.extra.insert("exhaustive_depth".into(), json!(depth));
    ctx.extra.insert("reduced_alphabet".into(), json!(alpha.len()));
    let mut words: Vec<Vec<usize>> = vec![vec![]];
    let mut all: Vec<Vec<usize>> = vec![vec![]];
    for _ in 0..depth {
        let mut next = Vec::new();
        for w in &words {
            for i in 0..alpha.len() {
                let mut x = w.clone();
                x.push(i);
                next.push(x);
            }
        }
        all.extend(next.iter().cloned());
        words = next;
    }
    let space = all.into_iter().flat_map(|w| {
        let alpha = alpha.clone();
        [spec::VIRTIO_F_PROTOCOL_FEATURES | 1, 1u64].into_iter().map(move |df| Hist {
            dev_features: df,
            dev_pf: 0x3f_ffff,
            reqs: w.iter().map(|i| alpha[*i].clone()).collect(),
        })
    });
    ctx.exhaustive = Some(true);
    ctx.enumerate("exhaustive_reduced", space, |ctx, h| run_hist(ctx, h));

    let cases = ctx.tier.pick(30_000u32, 4_000_000u32);
    ctx.prop_check("random_histories", cases, hist_strategy(12), |ctx, h| run_hist(ctx, h));
    // coverage-guided part: the committed libFuzzer corpus (fuzz/corpus/c04_hist) through the same model
    crate::fuzzing::corpus_check(ctx, "c04_hist");
}
