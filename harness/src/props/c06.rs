//! C06 — front-end-side parsers accept only the matching reply and survive hostile peers.
//!
//! G: for every reply-awaiting call of Frontend, Backend proxy and GpuBackend the raw peer answers
//!    with the correct reply transformed by one or two mutators {code, REPLY bit, NEED_REPLY bit,
//!    version, reserved flag bits, size field, body bytes, descriptors added/removed, truncation +
//!    close, random bytes}; for FrontendReqHandler::handle_request: mutated streams over the
//!    back-end request alphabet with 0..=3 descriptors.
//! O: three-valued expectation from the property's own conjunct list (MUST_ACCEPT / MUST_REJECT /
//!    EITHER); "fabricated success" = Ok in a MUST_REJECT class or Ok(v) with v not in the peer's
//!    bytes.  Server side: handler invoked => message well-formed and exactly the prescribed
//!    descriptors; never a panic.

use std::os::unix::io::{AsRawFd, OwnedFd, RawFd};
use std::os::unix::net::UnixStream;
use std::panic::{catch_unwind, AssertUnwindSafe};
use std::sync::{Arc, Mutex};

use proptest::prelude::*;
use serde::{Deserialize, Serialize};
use serde_json::json;
use vhost::vhost_user::gpu_message::*;
use vhost::vhost_user::message::*;
use vhost::vhost_user::{Backend, Error, FrontendReqHandler, GpuBackend, VhostUserFrontendReqHandler};

use crate::engine::{Ctx, LATTICE64};
use crate::fdtrack::{file_id, make_fd, FdKind};
use crate::feops::{make_lent, op_strategy, perform, reply_for, reply_vals, FeOp, FeState, ReplyVals, Ret};
use crate::gen::valid_uuid;
use crate::rawpeer;
use crate::rec_backend::{FeCall, FeRec};
use crate::refpred;
use crate::spec::{self, be};
use crate::srv::{fresh_fds, panic_msg};

#[derive(Serialize, Deserialize, Debug, Clone, Hash, PartialEq, Eq)]
pub enum RMut {
    Code(u32),
    ClearReply,
    SetNeedReply,
    Version(u8),
    ReservedBit(u8),
    SizeField(u32),
    /// overwrite `width` body bytes at a monotone-mapped offset
    Body { off: u16, width: u8, val: u64 },
    /// attach this many descriptors instead of the prescribed number
    Fds(u8),
    /// deliver only the first n bytes (monotone-mapped), then close
    Truncate(u16),
    /// replace everything by random bytes
    Junk(Vec<u8>),
}

#[derive(Clone, Copy, Debug, PartialEq, Eq)]
pub enum Expect {
    MustAccept,
    MustReject,
    Either,
}

fn mut_name(m: &RMut) -> &'static str {
    match m {
        RMut::Code(_) => "code",
        RMut::ClearReply => "clear_reply",
        RMut::SetNeedReply => "set_need_reply",
        RMut::Version(_) => "version",
        RMut::ReservedBit(_) => "reserved_bit",
        RMut::SizeField(_) => "size_field",
        RMut::Body { .. } => "body",
        RMut::Fds(_) => "fds",
        RMut::Truncate(_) => "truncate",
        RMut::Junk(_) => "junk",
    }
}

pub fn rmut_strategy() -> impl Strategy<Value = RMut> {
    let lat = (0..LATTICE64.len()).prop_map(|i| LATTICE64[i]);
    prop_oneof![
        3 => prop_oneof![0u32..=48, any::<u32>()].prop_map(RMut::Code),
        2 => Just(RMut::ClearReply),
        1 => Just(RMut::SetNeedReply),
        2 => prop_oneof![Just(0u8), Just(2u8), Just(3u8)].prop_map(RMut::Version),
        2 => (4u8..32).prop_map(RMut::ReservedBit),
        2 => prop_oneof![Just(0u32), Just(1), Just(8), Just(4095), Just(4096), Just(4097), Just(u32::MAX), any::<u32>()].prop_map(RMut::SizeField),
        4 => (any::<u16>(), prop_oneof![Just(1u8), Just(2), Just(4), Just(8)], prop_oneof![lat, any::<u64>()]).prop_map(|(off, width, val)| RMut::Body { off, width, val }),
        3 => (0u8..=3).prop_map(RMut::Fds),
        2 => any::<u16>().prop_map(RMut::Truncate),
        1 => proptest::collection::vec(any::<u8>(), 0..64).prop_map(RMut::Junk),
    ]
}

/// apply the mutators to (reply bytes, nfds): returns (bytes to deliver, nfds, header-level expectation, truncated?)
pub fn apply(bytes: &[u8], nfds: usize, muts: &[RMut], gpu: bool) -> (Vec<u8>, usize, Expect, bool) {
    let mut b = bytes.to_vec();
    let mut n = nfds;
    let mut e = Expect::MustAccept;
    let _ = &mut e;
    let mut truncated = false;
    let worst = |a: Expect, x: Expect| match (a, x) {
        (Expect::MustReject, _) | (_, Expect::MustReject) => Expect::MustReject,
        (Expect::Either, _) | (_, Expect::Either) => Expect::Either,
        _ => Expect::MustAccept,
    };
    let orig_code = spec::parse_hdr(bytes).0;
    for m in muts {
        // header mutators need a header (an earlier truncation / junk mutator may have removed it)
        if b.len() < 12 && !matches!(m, RMut::Fds(_) | RMut::Junk(_) | RMut::Truncate(_)) {
            continue;
        }
        match m {
            RMut::Code(c) => {
                b[0..4].copy_from_slice(&c.to_ne_bytes());
                if *c != orig_code {
                    e = worst(e, Expect::MustReject);
                }
            }
            RMut::ClearReply => {
                let f = spec::parse_hdr(&b).1 & !4;
                b[4..8].copy_from_slice(&f.to_ne_bytes());
                e = worst(e, Expect::MustReject);
            }
            RMut::SetNeedReply => {
                let f = spec::parse_hdr(&b).1 | 8;
                b[4..8].copy_from_slice(&f.to_ne_bytes());
                // the GPU channel has no such bit: there it is an undefined flag
                e = worst(e, if gpu { Expect::MustReject } else { Expect::Either });
            }
            RMut::Version(v) => {
                if !gpu {
                    let f = (spec::parse_hdr(&b).1 & !3) | (*v as u32 & 3);
                    b[4..8].copy_from_slice(&f.to_ne_bytes());
                    e = worst(e, Expect::MustReject);
                }
            }
            RMut::ReservedBit(bit) => {
                let f = spec::parse_hdr(&b).1 | (1u32 << bit);
                b[4..8].copy_from_slice(&f.to_ne_bytes());
                e = worst(e, Expect::MustReject);
            }
            RMut::SizeField(s) => {
                if *s != spec::parse_hdr(&b).2 {
                    b[8..12].copy_from_slice(&s.to_ne_bytes());
                    e = worst(e, Expect::Either);
                }
            }
            RMut::Body { off, width, val } => {
                if b.len() > 12 {
                    let blen = b.len() - 12;
                    let o = 12 + ((*off as usize * blen) >> 16);
                    let w = (*width as usize).min(b.len() - o);
                    b[o..o + w].copy_from_slice(&val.to_ne_bytes()[..w]);
                }
            }
            RMut::Fds(k) => n = *k as usize,
            RMut::Truncate(k) => {
                let keep = (*k as usize * b.len()) >> 16;
                if keep < b.len() {
                    b.truncate(keep);
                    truncated = true;
                    e = worst(e, Expect::MustReject);
                }
            }
            RMut::Junk(j) => {
                b = j.clone();
                e = worst(e, Expect::Either);
            }
        }
    }
    // the header-level expectation is judged on the final bytes (mutators may cancel each other)
    // (replaced-by-random-bytes replies are judged like any other final bytes; the stream ends after them, so a
    //  reply that is not completely there — no full header, or fewer body bytes than it declares — cannot be accepted)
    //  A lying size field alone stays EITHER (see assumptions), so "fewer than declared" only counts when the
    //  declared size is the one the correct reply has.
    let incomplete = b.len() < 12 || (spec::parse_hdr(&b).2 == spec::parse_hdr(bytes).2 && b.len() < 12 + spec::parse_hdr(&b).2 as usize);
    let e = if truncated || incomplete {
        Expect::MustReject
    } else {
        let (code, flags, size) = spec::parse_hdr(&b);
        let (_, _, osize) = spec::parse_hdr(bytes);
        let mut e = Expect::MustAccept;
        if code != orig_code || flags & 4 == 0 {
            e = worst(e, Expect::MustReject);
        }
        if gpu {
            if flags & !4 != 0 {
                e = worst(e, Expect::MustReject);
            }
        } else {
            if flags & 3 != 1 || flags & !0xf != 0 {
                e = worst(e, Expect::MustReject);
            }
            if flags & 8 != 0 {
                e = worst(e, Expect::Either);
            }
        }
        if size != osize {
            e = worst(e, Expect::Either);
        }
        e
    };
    (b, n, e, truncated)
}

// ------------------------------------------------------------------ Frontend replies

#[derive(Serialize, Deserialize, Debug, Clone)]
pub struct FeReplyCase {
    pub op: FeOp,
    pub rv: ReplyVals,
    pub need_reply: bool,
    pub muts: Vec<RMut>,
}

/// expectation contributed by the (possibly mutated) body and descriptor count, and the value a success must carry
fn fe_body_expect(op: &FeOp, st: &FeState, body: &[u8], nfds: usize, ids: &[crate::fdtrack::FileId]) -> (Expect, Option<Ret>) {
    let id0 = ids.first().copied();
    let no_fd = |e: Expect| if nfds != 0 { Expect::MustReject } else { e };
    let u64_at = |o: usize| if body.len() >= o + 8 { Some(spec::rd_u64(body, o)) } else { None };
    if op.awaits_ack(st) {
        return match u64_at(0) {
            Some(0) if body.len() == 8 => (no_fd(Expect::MustAccept), Some(Ret::Unit)),
            Some(_) if body.len() == 8 => (Expect::MustReject, None),
            _ => (Expect::Either, None),
        };
    }
    match op {
        FeOp::GetFeatures | FeOp::GetMaxMemSlots if body.len() == 8 => (no_fd(Expect::MustAccept), Some(Ret::U64(u64_at(0).unwrap()))),
        FeOp::GetProtocolFeatures if body.len() == 8 => (no_fd(Expect::MustAccept), Some(Ret::U64(u64_at(0).unwrap() & 0x3f_ffff))),
        FeOp::GetQueueNum if body.len() == 8 => {
            let v = u64_at(0).unwrap();
            (no_fd(if v <= 0x8000 { Expect::MustAccept } else { Expect::Either }), Some(Ret::U64(v)))
        }
        FeOp::GetVringBase(_) if body.len() == 8 => (no_fd(Expect::MustAccept), Some(Ret::U64(spec::rd_u32(body, 4) as u64))),
        FeOp::CheckDeviceState if body.len() == 8 => {
            if u64_at(0) == Some(0) {
                (no_fd(Expect::MustAccept), Some(Ret::Unit))
            } else {
                (Expect::MustReject, None)
            }
        }
        FeOp::SetDeviceStateFd(_) if body.len() == 8 => match (u64_at(0).unwrap(), nfds) {
            (0, 1) => (Expect::MustAccept, Some(Ret::OptFile(Some(id0)))),
            (0x100, 0) => (Expect::MustAccept, Some(Ret::OptFile(None))),
            _ => (Expect::MustReject, None),
        },
        FeOp::GetConfig { off, size, flags } if body.len() >= 12 => {
            let (o, s, f) = (spec::rd_u32(body, 0), spec::rd_u32(body, 4), spec::rd_u32(body, 8));
            if refpred::config(o, s, f) != Some(true) || nfds != 0 {
                (Expect::MustReject, None)
            } else if (o, s) == (*off, *size) && body.len() == 12 + *size as usize {
                // flags are echoed by a conforming back end; a different (valid) value is not judged
                let e = if f == *flags { Expect::MustAccept } else { Expect::Either };
                (e, Some(Ret::Config { off: o, size: s, flags: f, payload: body[12..].to_vec() }))
            } else {
                (Expect::Either, None)
            }
        }
        FeOp::GetInflightFd(..) if body.len() == 24 => {
            let (ms, mo, nq, qs) = (spec::rd_u64(body, 0), spec::rd_u64(body, 8), spec::rd_u16(body, 16), spec::rd_u16(body, 18));
            if refpred::inflight(ms, mo, nq, qs) == Some(false) || nfds != 1 {
                (Expect::MustReject, None)
            } else {
                (Expect::MustAccept, Some(Ret::Inflight([ms, mo], nq, qs, id0)))
            }
        }
        FeOp::GetSharedObject(_) | FeOp::PostcopyAdvise if body.is_empty() => {
            if nfds == 1 {
                (Expect::MustAccept, Some(Ret::File(id0)))
            } else {
                (Expect::MustReject, None)
            }
        }
        FeOp::GetShmemConfig if body.len() == 2056 => {
            let n = spec::rd_u32(body, 0);
            let sizes: Vec<u64> = (0..256).map(|i| spec::rd_u64(body, 8 + 8 * i)).collect();
            (no_fd(Expect::MustAccept), Some(Ret::Shmem(n, sizes)))
        }
        FeOp::SetLogBase { .. } if body.len() == 16 => {
            if refpred::log(spec::rd_u64(body, 0), spec::rd_u64(body, 8)) == Some(false) || nfds != 0 {
                (Expect::MustReject, None)
            } else {
                (Expect::MustAccept, Some(Ret::Unit))
            }
        }
        _ => (Expect::Either, None),
    }
}

fn combine(a: Expect, b: Expect) -> Expect {
    match (a, b) {
        (Expect::MustReject, _) | (_, Expect::MustReject) => Expect::MustReject,
        (Expect::Either, _) | (_, Expect::Either) => Expect::Either,
        _ => Expect::MustAccept,
    }
}

pub fn run_fe_reply(ctx: &mut Ctx, c: &FeReplyCase) -> Result<(), String> {
    let st = super::c01::state_for(&c.op, c.need_reply, true);
    if crate::feops::locally_rejected(&c.op, &st) || crate::feops::oversized(&c.op) || !super::c02::protocol_valid(&c.op) {
        ctx.class("not_applicable");
        return Ok(());
    }
    let pristine: (Vec<u8>, usize) = match reply_for(&c.op, &st, &c.rv) {
        Some((b, n, _)) => (b, n),
        None if c.op.awaits_ack(&st) => (spec::reply(c.op.code(), &spec::b_u64(0)), 0),
        None => {
            ctx.class("no_answer_awaited");
            return Ok(());
        }
    };
    let (bytes, nfds, hdr_expect, truncated) = apply(&pristine.0, pristine.1, &c.muts, false);
    let (mut f, peer) = super::c01::frontend_in_state(&st);
    let fds: Vec<OwnedFd> = fresh_fds(nfds, FdKind::Memfd);
    let ids: Vec<_> = fds.iter().filter_map(|x| file_id(x.as_raw_fd())).collect();
    let raw: Vec<RawFd> = fds.iter().map(|x| x.as_raw_fd()).collect();
    if !bytes.is_empty() {
        rawpeer::send_all(peer.as_raw_fd(), &bytes, &raw).map_err(|e| e.to_string())?;
    }
    drop(fds);
    // nothing more will come: a parser waiting for more bytes gets end-of-stream instead of blocking
    rawpeer::shutdown_wr(&peer);
    let mut lent = make_lent(&c.op);
    let r = catch_unwind(AssertUnwindSafe(|| perform(&mut f, &c.op, &mut lent)));
    let r = match r {
        Ok(r) => r,
        Err(p) => return Err(format!("Frontend::{} panicked on reply {:x?} with {nfds} descriptors: {}", c.op.name(), &bytes[..bytes.len().min(40)], panic_msg(p))),
    };
    // expectation
    // the reply is the first message of the delivered bytes: header plus as many body bytes as it declares
    let declared = if bytes.len() >= 12 { 12 + spec::parse_hdr(&bytes).2 as usize } else { usize::MAX };
    let complete = !truncated && bytes.len() >= 12;
    let (body_expect, want) = if complete { fe_body_expect(&c.op, &st, &bytes[12..declared.min(bytes.len())], nfds, &ids) } else { (Expect::MustReject, None) };
    let expect = combine(hdr_expect, body_expect);
    ctx.class(match expect {
        Expect::MustAccept => "fe_must_accept",
        Expect::MustReject => "fe_must_reject",
        Expect::Either => "fe_either",
    });
    if expect == Expect::MustReject || (r.is_ok() && nfds > 0) {
        ctx.nontrivial(&("fe", c.op.name(), c.muts.iter().map(mut_name).collect::<Vec<_>>(), nfds));
    }
    ctx.sample(|| json!({"endpoint": "frontend", "op": c.op.name(), "mutators": c.muts, "nfds": nfds, "expect": format!("{expect:?}"), "result_ok": r.is_ok()}));
    let desc = format!("Frontend::{}({:?}) answered with {:x?}{} and {nfds} descriptors (mutators {:?})", c.op.name(), c.op, &bytes[..bytes.len().min(48)], if bytes.len() > 48 { ".." } else { "" }, c.muts);
    match (expect, &r) {
        (Expect::MustReject, Ok(v)) => Err(format!("{desc}: this is not a reply to that request, yet the call returned Ok({v:?})")),
        (Expect::MustAccept, Err(e)) => Err(format!("{desc}: a matching, valid reply was rejected: {e}")),
        (Expect::MustAccept, Ok(v)) | (Expect::Either, Ok(v)) => match want {
            Some(w) if *v != w => Err(format!("{desc}: returned {v:?}, the bytes encode {w:?} (fabricated value)")),
            _ => Ok(()),
        },
        _ => Ok(()),
    }
}

// ------------------------------------------------------------------ Backend proxy and GPU proxy

#[derive(Serialize, Deserialize, Debug, Clone)]
pub struct ProxyCase {
    /// 0..5: Backend proxy request kinds; 5..9: GPU calls
    pub kind: u8,
    pub val: u64,
    pub muts: Vec<RMut>,
}

pub fn run_proxy(ctx: &mut Ctx, c: &ProxyCase) -> Result<(), String> {
    let (peer, theirs) = UnixStream::pair().map_err(|e| e.to_string())?;
    let kind = c.kind % 9;
    let gpu = kind >= 5;
    let (pristine, code): (Vec<u8>, u32) = if !gpu {
        let code = [be::SHARED_OBJECT_ADD, be::SHARED_OBJECT_REMOVE, be::SHARED_OBJECT_LOOKUP, be::SHMEM_MAP, be::SHMEM_UNMAP][kind as usize];
        (spec::reply(code, &spec::b_u64(0)), code)
    } else {
        match kind {
            5 => (spec::msg(spec::gpu::GET_PROTOCOL_FEATURES, 4, &spec::b_u64(c.val)), spec::gpu::GET_PROTOCOL_FEATURES),
            6 => (spec::msg(spec::gpu::GET_DISPLAY_INFO, 4, &(0..spec::GPU_DISPLAY_INFO_SIZE).map(|i| (i as u8).wrapping_add(c.val as u8)).collect::<Vec<_>>()), spec::gpu::GET_DISPLAY_INFO),
            7 => (spec::msg(spec::gpu::GET_EDID, 4, &(0..spec::GPU_EDID_RESP_SIZE).map(|i| (i as u8).wrapping_mul(3).wrapping_add(c.val as u8)).collect::<Vec<_>>()), spec::gpu::GET_EDID),
            _ => (spec::msg(spec::gpu::DMABUF_UPDATE, 4, &[]), spec::gpu::DMABUF_UPDATE),
        }
    };
    let (bytes, nfds, hdr_expect, truncated) = apply(&pristine, 0, &c.muts, gpu);
    let fds = fresh_fds(nfds, FdKind::Memfd);
    let raw: Vec<RawFd> = fds.iter().map(|x| x.as_raw_fd()).collect();
    if !bytes.is_empty() {
        rawpeer::send_all(peer.as_raw_fd(), &bytes, &raw).map_err(|e| e.to_string())?;
    }
    drop(fds);
    rawpeer::shutdown_wr(&peer);
    let fd = make_fd(FdKind::Memfd);
    let junk = c.muts.iter().any(|m| matches!(m, RMut::Junk(_)));
    let complete = !truncated && !junk && bytes.len() >= 12;
    // result as (ok?, value carried)
    let r: Result<Result<Option<u64>, String>, String> = catch_unwind(AssertUnwindSafe(|| {
        if !gpu {
            let b = Backend::from_stream(theirs);
            b.set_reply_ack_flag(true);
            b.set_shared_object_flag(true);
            b.set_shmem_flag(true);
            let mut u = VhostUserSharedMsg::default();
            u.uuid = uuid::Uuid::from_bytes([4; 16]);
            let mm = VhostUserMMap { shmid: 0, padding: [0; 7], fd_offset: 0, shm_offset: 0, len: 0x1000, flags: 0 };
            match kind {
                0 => b.shared_object_add(&u),
                1 => b.shared_object_remove(&u),
                2 => b.shared_object_lookup(&u, &fd),
                3 => b.shmem_map(&mm, &fd),
                _ => b.shmem_unmap(&mm),
            }
            .map(Some)
            .map_err(|e| e.to_string())
        } else {
            let g = GpuBackend::from_stream(theirs);
            match kind {
                5 => g.get_protocol_features().map(|v| Some(v.value)).map_err(|e| e.to_string()),
                6 => g.get_display_info().map(|d| Some(d.hdr.fence_id)).map_err(|e| e.to_string()),
                7 => g.get_edid(&VhostUserGpuEdidRequest { scanout_id: 1 }).map(|d| Some(d.size as u64)).map_err(|e| e.to_string()),
                _ => g.update_dmabuf_scanout(&VhostUserGpuUpdate { scanout_id: 1, x: 0, y: 0, width: 1, height: 1 }).map(|_| None).map_err(|e| e.to_string()),
            }
        }
    }))
    .map_err(|p| format!("proxy call kind {kind} panicked on reply {:x?}: {}", &bytes[..bytes.len().min(40)], panic_msg(p)));
    let r = r?;
    let body = if complete { &bytes[12..] } else { &[][..] };
    let pristine_body_len = pristine.len() - 12;
    let (body_expect, want): (Expect, Option<Option<u64>>) = if !complete {
        (if truncated { Expect::MustReject } else { Expect::Either }, None)
    } else if nfds != 0 {
        (Expect::MustReject, None)
    } else if body.len() != pristine_body_len {
        (Expect::Either, None)
    } else if !gpu {
        if spec::rd_u64(body, 0) == 0 {
            (Expect::MustAccept, Some(Some(0)))
        } else {
            (Expect::MustReject, None)
        }
    } else {
        let v = match kind {
            5 => Some(spec::rd_u64(body, 0)),
            6 => Some(spec::rd_u64(body, 8)),
            7 => Some(spec::rd_u32(body, 24) as u64),
            _ => None,
        };
        (Expect::MustAccept, Some(v))
    };
    let expect = combine(hdr_expect, body_expect);
    ctx.class(match expect {
        Expect::MustAccept => "proxy_must_accept",
        Expect::MustReject => "proxy_must_reject",
        Expect::Either => "proxy_either",
    });
    if expect == Expect::MustReject {
        ctx.nontrivial(&("proxy", kind, c.muts.iter().map(mut_name).collect::<Vec<_>>(), nfds));
    }
    let desc = format!("{} call kind {kind} (code {code}) answered with {:x?} and {nfds} descriptors (mutators {:?})", if gpu { "GpuBackend" } else { "Backend proxy" }, &bytes[..bytes.len().min(40)], c.muts);
    match (expect, &r) {
        (Expect::MustReject, Ok(v)) => Err(format!("{desc}: not a reply to that request, yet the call returned Ok({v:?})")),
        (Expect::MustAccept, Err(e)) => Err(format!("{desc}: a matching reply was rejected: {e}")),
        (_, Ok(v)) => match want {
            Some(w) if *v != w => Err(format!("{desc}: returned {v:?}, the bytes encode {w:?}")),
            _ => Ok(()),
        },
        _ => Ok(()),
    }
}

// ------------------------------------------------------------------ FrontendReqHandler under hostile streams

#[derive(Serialize, Deserialize, Debug, Clone, Hash, PartialEq, Eq)]
pub struct BrChunk {
    pub code: u32,
    pub need_reply: bool,
    pub body: Vec<u8>,
    pub nfds: u8,
    pub mutation: crate::stream::Mutation,
    pub tail: Vec<u8>,
}

#[derive(Serialize, Deserialize, Debug, Clone)]
pub struct BrStream {
    pub reply_ack: bool,
    pub chunks: Vec<BrChunk>,
}

fn br_body(code: u32) -> BoxedStrategy<Vec<u8>> {
    use crate::engine::lat64;
    match code {
        6 | 7 | 8 => prop_oneof![8 => valid_uuid().prop_map(|u| u.to_vec()), 1 => Just(vec![0u8; 16]), 1 => Just(vec![0xffu8; 16])].boxed(),
        9 | 10 => (any::<u8>(), lat64(), lat64(), lat64(), prop_oneof![4 => 0u64..2, 1 => lat64()]).prop_map(|(id, a, b, l, f)| spec::b_mmap(id, a, b, l, f)).boxed(),
        2 => Just(vec![]).boxed(),
        _ => proptest::collection::vec(any::<u8>(), 0..48).boxed(),
    }
}

pub fn br_chunk_strategy() -> impl Strategy<Value = BrChunk> {
    br_chunk()
}

fn br_chunk() -> impl Strategy<Value = BrChunk> {
    prop_oneof![6 => 1u32..=10, 1 => 0u32..16]
        .prop_flat_map(|code| (Just(code), any::<bool>(), br_body(code.clamp(1, 10)), prop_oneof![4 => Just(255u8), 1 => 0u8..=3], crate::stream::mutation_strategy(), prop_oneof![5 => Just(vec![]), 1 => proptest::collection::vec(any::<u8>(), 1..20)]))
        .prop_map(|(code, need_reply, body, nfds, mutation, tail)| {
            let prescribed = if code == 8 || code == 9 { 1 } else { 0 };
            BrChunk { code, need_reply, body, nfds: if nfds == 255 { prescribed } else { nfds }, mutation, tail }
        })
}

fn fe_call_matches_at(b: &[u8], p: usize, c: &FeCall) -> bool {
    if p + 12 > b.len() {
        return false;
    }
    let (code, flags, size) = spec::parse_hdr(&b[p..]);
    // a request: version 1, no reserved bits, and not flagged as a reply
    if flags & 3 != 1 || flags & !0xf != 0 || flags & 4 != 0 || size > 4096 || p + 12 + size as usize > b.len() {
        return false;
    }
    let body = &b[p + 12..p + 12 + size as usize];
    let uuid_ok = |u: &[u8; 16]| refpred::shared_msg(u) == Some(true) && body == u;
    let mmap_ok = |m: &[u64; 5]| body.len() == 40 && body[0] as u64 == m[0] && spec::rd_u64(body, 8) == m[1] && spec::rd_u64(body, 16) == m[2] && spec::rd_u64(body, 24) == m[3] && spec::rd_u64(body, 32) == m[4] && refpred::mmap(m[1], m[2], m[3], m[4]) != Some(false);
    match c {
        FeCall::ConfigChange => code == be::CONFIG_CHANGE_MSG && size == 0,
        FeCall::SharedObjectAdd(u) => code == be::SHARED_OBJECT_ADD && uuid_ok(u),
        FeCall::SharedObjectRemove(u) => code == be::SHARED_OBJECT_REMOVE && uuid_ok(u),
        FeCall::SharedObjectLookup(u, _) => code == be::SHARED_OBJECT_LOOKUP && uuid_ok(u),
        FeCall::ShmemMap(m, _) => code == be::SHMEM_MAP && mmap_ok(m),
        FeCall::ShmemUnmap(m) => code == be::SHMEM_UNMAP && mmap_ok(m),
    }
}

/// raw bytes (with `nfds` descriptors attached at a monotone-mapped offset) into the FrontendReqHandler
pub fn run_br_raw(ctx: &mut Ctx, reply_ack: bool, bytes: &[u8], nfds: usize, fd_at: u16) -> Result<(), String> {
    let rec = Arc::new(Mutex::new(FeRec::new()));
    let mut server = FrontendReqHandler::new(rec.clone()).map_err(|e| format!("{e:?}"))?;
    server.set_reply_ack_flag(reply_ack);
    let tx = crate::daemon_fx::dup_fd(server.get_tx_raw_fd());
    let k = (fd_at as usize * bytes.len()) >> 16;
    if k > 0 {
        rawpeer::send_all(tx.as_raw_fd(), &bytes[..k], &[]).map_err(|e| e.to_string())?;
    }
    if k < bytes.len() {
        let fds = fresh_fds(nfds, FdKind::Memfd);
        let raw: Vec<RawFd> = fds.iter().map(|f| f.as_raw_fd()).collect();
        rawpeer::send_all(tx.as_raw_fd(), &bytes[k..], &raw).map_err(|e| e.to_string())?;
    }
    unsafe { libc::shutdown(tx.as_raw_fd(), libc::SHUT_WR) };
    let max = bytes.len() / 12 + 4;
    for _ in 0..max {
        match catch_unwind(AssertUnwindSafe(|| server.handle_request())) {
            Ok(Ok(_)) => {}
            Ok(Err(Error::Disconnected)) => break,
            Ok(Err(_)) => {}
            Err(p) => return Err(format!("FrontendReqHandler::handle_request panicked on raw bytes: {}", panic_msg(p))),
        }
    }
    let log = rec.lock().map(|g| g.log.clone()).unwrap_or_default();
    let mut from = 0;
    for (i, call) in log.iter().enumerate() {
        let mut found = None;
        let mut p = from;
        while p + 12 <= bytes.len() {
            if fe_call_matches_at(bytes, p, call) {
                found = Some(p);
                break;
            }
            p += 1;
        }
        match found {
            Some(p) => from = p + 12,
            None => return Err(format!("front-end handler invocation #{i} {call:?} is not explained by any well-formed request in the raw bytes {:x?}", &bytes[..bytes.len().min(64)])),
        }
    }
    ctx.class("br_raw");
    ctx.class_n("br_handler_invocations", log.len() as u64);
    if !log.is_empty() {
        ctx.nontrivial(&("br_raw", log.len(), bytes.len() / 16));
    }
    Ok(())
}

pub fn run_br_stream(ctx: &mut Ctx, c: &BrStream) -> Result<(), String> {
    let rec = Arc::new(Mutex::new(FeRec::new()));
    let mut server = FrontendReqHandler::new(rec.clone()).map_err(|e| format!("{e:?}"))?;
    server.set_reply_ack_flag(c.reply_ack);
    let tx = crate::daemon_fx::dup_fd(server.get_tx_raw_fd());
    let mut all = Vec::new();
    for ch in &c.chunks {
        let cs = crate::stream::ChunkSpec { code: ch.code, need_reply: ch.need_reply, body: ch.body.clone(), nfds: ch.nfds as usize, mutation: ch.mutation.clone(), nfds_override: None, fd_at: 0, tail: ch.tail.clone() };
        let bytes = cs.bytes();
        let fds = fresh_fds(ch.nfds as usize, FdKind::Memfd);
        let raw: Vec<RawFd> = fds.iter().map(|f| f.as_raw_fd()).collect();
        rawpeer::send_all(tx.as_raw_fd(), &bytes, &raw).map_err(|e| e.to_string())?;
        all.extend_from_slice(&bytes);
        ctx.class(&format!("br_mut_{}", super::c05::mut_name(&ch.mutation)));
    }
    unsafe { libc::shutdown(tx.as_raw_fd(), libc::SHUT_WR) };
    let max = all.len() / 12 + 4;
    let mut ended = false;
    for _ in 0..max {
        match catch_unwind(AssertUnwindSafe(|| server.handle_request())) {
            Ok(Ok(_)) => {}
            Ok(Err(Error::Disconnected)) => {
                ended = true;
                break;
            }
            Ok(Err(_)) => {}
            Err(p) => return Err(format!("FrontendReqHandler::handle_request panicked: {}", panic_msg(p))),
        }
    }
    let _ = ended;
    let log = rec.lock().unwrap().log.clone();
    // every handler invocation is explained by a well-formed request in the stream, at increasing offsets
    let mut from = 0;
    for (i, call) in log.iter().enumerate() {
        let mut found = None;
        let mut p = from;
        while p + 12 <= all.len() {
            if fe_call_matches_at(&all, p, call) {
                found = Some(p);
                break;
            }
            p += 1;
        }
        match found {
            Some(p) => from = p + 12,
            None => return Err(format!("front-end handler invocation #{i} {call:?} is not explained by any well-formed request in the sent bytes (chunks {:?})", c.chunks.iter().map(|c| (c.code, c.nfds, super::c05::mut_name(&c.mutation))).collect::<Vec<_>>())),
        }
    }
    if c.chunks.iter().any(|ch| ch.mutation != crate::stream::Mutation::None || ch.nfds > 0) {
        ctx.nontrivial(&("br", c.reply_ack, c.chunks.iter().map(|c| (c.code, c.nfds, super::c05::mut_name(&c.mutation))).collect::<Vec<_>>()));
    }
    ctx.class_n("br_handler_invocations", log.len() as u64);
    ctx.sample(|| json!({"endpoint": "frontend-request-server", "chunks": c.chunks.iter().map(|c| json!({"code": c.code, "nfds": c.nfds, "mutation": c.mutation})).collect::<Vec<_>>(), "handler_calls": log.len()}));
    Ok(())
}

pub fn run(ctx: &mut Ctx) {
    ctx.rule = "(1) every reply-awaiting Frontend call (12 reply-bearing operations and the acknowledged set-operations) with the conforming reply \
                transformed by 0..2 mutators; (2) the five Backend-proxy requests and four GpuBackend calls likewise; the peer half-closes after the \
                (mutated) reply so that a parser waiting for more sees end-of-stream; (3) FrontendReqHandler::handle_request on streams of 1..5 \
                mutated back-end requests with 0..=3 descriptors. Expectation per case: MUST_REJECT if REPLY is clear, the code differs, version / \
                reserved bits are wrong, the body is invalid, a status is non-zero, descriptors are not exactly as defined, or the reply is truncated; \
                EITHER for size-field-only changes, NEED_REPLY on a reply, values the endpoint may refuse for other reasons; MUST_ACCEPT otherwise, \
                and an accepted value must equal the bytes sent. Non-trivial = MUST_REJECT cases and accepted replies with descriptors."
        .into();
    ctx.assumptions = vec![
        "a reply whose only defect is the size field, or that carries NEED_REPLY, may be accepted or refused (the statement lists REPLY flag, code, body validity and descriptors)".into(),
        "for the request server: each handler invocation must be explained by a well-formed request literally present in the sent bytes (same oracle as C05)".into(),
    ];
    let n = ctx.tier.pick(20_000u32, 4_000_000u32);
    let target = op_strategy().prop_filter("call must await an answer", |op| !matches!(op, FeOp::SetLogFd | FeOp::SetLogBase { region: None, .. } | FeOp::SetProtocolFeatures(_)));
    let fes = (target, reply_vals(), any::<bool>(), proptest::collection::vec(rmut_strategy(), 0..=2)).prop_map(|(op, rv, need_reply, muts)| FeReplyCase { op, rv, need_reply, muts });
    ctx.prop_check("frontend_replies", n, fes, |ctx, c| run_fe_reply(ctx, c));

    let n = ctx.tier.pick(10_000u32, 2_000_000u32);
    let ps = (0u8..9, crate::engine::lat64(), proptest::collection::vec(rmut_strategy(), 0..=2)).prop_map(|(kind, val, muts)| ProxyCase { kind, val, muts });
    ctx.prop_check("proxy_replies", n, ps, |ctx, c| run_proxy(ctx, c));

    let n = ctx.tier.pick(6_000u32, 2_000_000u32);
    let ss = (any::<bool>(), proptest::collection::vec(br_chunk(), 1..=5)).prop_map(|(reply_ack, chunks)| BrStream { reply_ack, chunks });
    ctx.prop_check("frontend_request_server_streams", n, ss, |ctx, c| run_br_stream(ctx, c));

    // coverage-guided part: the committed libFuzzer corpora (fuzz/corpus/<target>) through the same oracles
    crate::fuzzing::corpus_check(ctx, "c06_reply");
    crate::fuzzing::corpus_check(ctx, "c06_bereq");
}
