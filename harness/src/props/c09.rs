//! C09 — every descriptor received is handed over exactly once or closed; none leak.
//!
//! G: the C05 stream generator with 0..=40 descriptors attached to any chunk at any byte, for
//!    BackendReqHandler and FrontendReqHandler, crossed with teardown after every prefix; the C06
//!    reply mutations with 0..=3 descriptors for the Frontend reply paths; C02 sessions (lent
//!    descriptors); daemon sequences (kick/call/err/mem/log/request-channel descriptors).
//! O: the set of open descriptor numbers of the process before the scenario == after everything
//!    was dropped (exact set equality); every identity delivered to a handler was sent and is
//!    delivered at most once; lent descriptors stay open; daemon level: differential against the
//!    same fixture with an empty session.

use std::collections::{BTreeSet, HashSet};
use std::os::unix::io::{AsRawFd, OwnedFd, RawFd};
use std::os::unix::net::UnixStream;
use std::panic::{catch_unwind, AssertUnwindSafe};
use std::sync::{Arc, Mutex};

use proptest::prelude::*;
use serde::{Deserialize, Serialize};
use serde_json::json;
use vhost::vhost_user::{BackendReqHandler, FrontendReqHandler};

use super::c05::{build_chunks, stream_case_strategy, StreamCase};
use crate::engine::Ctx;
use crate::fdtrack::{file_id, snapshot, FdKind, FileId};
use crate::rawpeer;
use crate::rec_backend::{FeRec, Rec};
use crate::srv::fresh_fds;

fn open_set() -> BTreeSet<RawFd> {
    snapshot().keys().copied().collect()
}

fn diff(base: &BTreeSet<RawFd>, after: &BTreeSet<RawFd>) -> Option<String> {
    if base == after {
        return None;
    }
    let leaked: Vec<String> = after.difference(base).map(|fd| format!("{fd} -> {}", std::fs::read_link(format!("/proc/self/fd/{fd}")).map(|p| p.display().to_string()).unwrap_or_default())).collect();
    let closed: Vec<&RawFd> = base.difference(after).collect();
    Some(format!("descriptors left open: [{}]; descriptors of the harness that were closed: {closed:?}", leaked.join(", ")))
}

#[derive(Serialize, Deserialize, Debug, Clone)]
pub struct BeCase {
    pub stream: StreamCase,
    /// teardown after this many handle_request calls (monotone-mapped onto 0..=max)
    pub cut: u16,
}

pub fn run_be(ctx: &mut Ctx, c: &BeCase) -> Result<(), String> {
    let base = open_set();
    let res = (|| -> Result<(), String> {
        let (chunks, all) = build_chunks(&c.stream.neg, &c.stream.chunks);
        let sent: HashSet<FileId> = chunks.iter().flat_map(|ch| ch.fds.iter().filter_map(|f| file_id(f.as_raw_fd()))).collect();
        let nsent = sent.len();
        let (peer, srv) = UnixStream::pair().map_err(|e| e.to_string())?;
        let mut rec = Rec::new(c.stream.neg.dev_features, c.stream.neg.dev_pf);
        rec.hold_files = true;
        let rec = Arc::new(Mutex::new(rec));
        let mut server = BackendReqHandler::from_stream(srv, rec.clone());
        for ch in chunks {
            let raw: Vec<RawFd> = ch.fds.iter().map(|f| f.as_raw_fd()).collect();
            rawpeer::send_all(peer.as_raw_fd(), &ch.bytes, &raw).map_err(|e| e.to_string())?;
            drop(ch.fds);
        }
        rawpeer::shutdown_wr(&peer);
        let max = all.len() / 12 + 4;
        let cut = (c.cut as usize * (max + 1)) >> 16;
        let mut calls = 0;
        for _ in 0..cut {
            calls += 1;
            match catch_unwind(AssertUnwindSafe(|| server.handle_request())) {
                Ok(Err(vhost::vhost_user::Error::Disconnected)) if rawpeer::fionread(server.as_raw_fd()) == 0 => break,
                Ok(_) => {}
                Err(_) => return Err("handle_request panicked".into()),
            }
        }
        // what the handler got: every identity was sent, none is delivered twice
        let delivered: Vec<FileId> = {
            let r = rec.lock().unwrap();
            r.held.iter().filter_map(|f| file_id(f.as_raw_fd())).collect()
        };
        let mut seen = HashSet::new();
        for id in &delivered {
            if !sent.contains(id) {
                return Err(format!("handler received a descriptor {id:?} that was never sent"));
            }
            if !seen.insert(*id) {
                return Err(format!("descriptor {id:?} was delivered to the handler twice"));
            }
        }
        // before teardown: a sent identity may be open only through a handler-owned descriptor
        let held_fds: HashSet<RawFd> = rec.lock().unwrap().held.iter().map(|f| f.as_raw_fd()).collect();
        // descriptors handed over inside a request-channel / GPU proxy object are owned by that object
        let mut in_objects = {
            let r = rec.lock().unwrap();
            r.backends.len() + r.gpu_backends.len()
        };
        for (fd, id) in snapshot() {
            if sent.contains(&id) && !held_fds.contains(&fd) && !base.contains(&fd) {
                if in_objects > 0 {
                    in_objects -= 1;
                    continue;
                }
                // the library keeps nothing across handle_request calls
                return Err(format!("after {calls} handle_request calls descriptor {fd} ({id:?}) is open but was neither delivered to the handler nor closed"));
            }
        }
        let rejected_with_fds = c.stream.chunks.iter().any(|s| s.nfds_sent() > 0 && !s.pristine());
        let over = c.stream.chunks.iter().any(|s| s.nfds_sent() > 32);
        let off0 = c.stream.chunks.iter().any(|s| s.nfds_sent() > 0 && s.fd_at != 0);
        if rejected_with_fds || over || off0 || (cut < max && nsent > 0) {
            ctx.nontrivial(&("be", c.stream.chunks.iter().map(|s| (s.code, super::c05::mut_name(&s.mutation), s.nfds_sent().min(33), s.fd_at != 0)).collect::<Vec<_>>(), cut.min(8)));
        }
        ctx.class(if cut < max { "be_teardown_mid_stream" } else { "be_stream_consumed" });
        ctx.class_n("be_descriptors_sent", nsent as u64);
        ctx.class_n("be_descriptors_delivered", delivered.len() as u64);
        ctx.sample(|| json!({"endpoint": "backend-server", "chunks": c.stream.chunks.iter().map(|s| json!({"code": s.code, "nfds": s.nfds_sent(), "fd_at": s.fd_at, "mutation": s.mutation})).collect::<Vec<_>>(), "teardown_after_calls": calls, "delivered": delivered.len(), "sent": nsent}));
        drop(server);
        drop(peer);
        {
            let mut r = rec.lock().unwrap();
            r.held.clear();
            r.backends.clear();
            r.gpu_backends.clear();
        }
        Ok(())
    })();
    res?;
    if let Some(d) = diff(&base, &open_set()) {
        return Err(format!("back-end server: after dropping both endpoints and the handler's files: {d}"));
    }
    Ok(())
}

#[derive(Serialize, Deserialize, Debug, Clone)]
pub struct FeSrvCase {
    pub stream: super::c06::BrStream,
    pub cut: u16,
}

pub fn run_fe_srv(ctx: &mut Ctx, c: &FeSrvCase) -> Result<(), String> {
    let base = open_set();
    {
        let rec = Arc::new(Mutex::new(FeRec::new()));
        let mut server = FrontendReqHandler::new(rec.clone()).map_err(|e| format!("{e:?}"))?;
        server.set_reply_ack_flag(c.stream.reply_ack);
        let tx = crate::daemon_fx::dup_fd(server.get_tx_raw_fd());
        let mut total = 0usize;
        let mut sent: HashSet<FileId> = HashSet::new();
        for ch in &c.stream.chunks {
            let cs = crate::stream::ChunkSpec { code: ch.code, need_reply: ch.need_reply, body: ch.body.clone(), nfds: ch.nfds as usize, mutation: ch.mutation.clone(), nfds_override: None, fd_at: 0, tail: ch.tail.clone() };
            let bytes = cs.bytes();
            let fds = fresh_fds(ch.nfds as usize, FdKind::Memfd);
            sent.extend(fds.iter().filter_map(|f| file_id(f.as_raw_fd())));
            let raw: Vec<RawFd> = fds.iter().map(|f| f.as_raw_fd()).collect();
            rawpeer::send_all(tx.as_raw_fd(), &bytes, &raw).map_err(|e| e.to_string())?;
            total += bytes.len();
        }
        unsafe { libc::shutdown(tx.as_raw_fd(), libc::SHUT_WR) };
        let max = total / 12 + 4;
        let cut = (c.cut as usize * (max + 1)) >> 16;
        for _ in 0..cut {
            if catch_unwind(AssertUnwindSafe(|| server.handle_request())).is_err() {
                return Err("FrontendReqHandler::handle_request panicked".into());
            }
            // a descriptor lent to the handler is closed once the call is over
            let lent: Vec<RawFd> = rec.lock().unwrap().lent.clone();
            for (fd, id) in snapshot() {
                if sent.contains(&id) && !base.contains(&fd) && fd != tx.as_raw_fd() {
                    return Err(format!("front-end request server: descriptor {fd} ({id:?}) received with a request is still open after handle_request returned (lent to the handler: {lent:?})"));
                }
            }
        }
        if !sent.is_empty() {
            ctx.nontrivial(&("fesrv", c.stream.chunks.iter().map(|c| (c.code, c.nfds, super::c05::mut_name(&c.mutation))).collect::<Vec<_>>(), cut.min(6)));
        }
        ctx.class(if cut < max { "fesrv_teardown_mid_stream" } else { "fesrv_stream_consumed" });
        drop(server);
        drop(tx);
    }
    if let Some(d) = diff(&base, &open_set()) {
        return Err(format!("front-end request server: after dropping the endpoint: {d}"));
    }
    Ok(())
}

/// Frontend reply paths (C06 mutations with descriptors) and sessions (C02): back to the baseline
pub fn run_fe_reply(ctx: &mut Ctx, c: &super::c06::FeReplyCase) -> Result<(), String> {
    let base = open_set();
    {
        let mut scratch = Ctx::new("C09", ctx.tier, ctx.seed, "exploration");
        // the C06 judgement itself is not C09's business: only the descriptor accounting
        let _ = super::c06::run_fe_reply(&mut scratch, c);
    }
    let nf = c.muts.iter().filter_map(|m| if let super::c06::RMut::Fds(k) = m { Some(*k) } else { None }).last();
    if nf.unwrap_or(0) > 0 {
        ctx.nontrivial(&("fereply", c.op.name(), &c.muts));
    }
    ctx.class("fe_reply_path");
    if let Some(d) = diff(&base, &open_set()) {
        return Err(format!("Frontend::{} with reply mutators {:?}: after the call and dropping the endpoint: {d}", c.op.name(), c.muts));
    }
    Ok(())
}

pub fn run_session(ctx: &mut Ctx, c: &super::c02::SessCase) -> Result<(), String> {
    let base = open_set();
    {
        let mut scratch = Ctx::new("C09", ctx.tier, ctx.seed, "exploration");
        let _ = super::c02::run_session(&mut scratch, c);
    }
    ctx.class("session");
    ctx.nontrivial(&("sess", c.ops.iter().map(|o| o.name()).collect::<Vec<_>>()));
    if let Some(d) = diff(&base, &open_set()) {
        return Err(format!("session {:?}: after both endpoints were dropped: {d}", c.ops.iter().map(|o| o.name()).collect::<Vec<_>>()));
    }
    Ok(())
}

/// daemon level: differential against an empty session on the same kind of fixture
pub fn run_daemon(ctx: &mut Ctx, c: &super::c05d::DaemonCase) -> Result<(), String> {
    let empty = super::c05d::DaemonCase { rwlock: c.rwlock, msgs: vec![] };
    let delta = |case: &super::c05d::DaemonCase, ctx: &mut Ctx| -> Result<(usize, Vec<String>), String> {
        let base = open_set();
        {
            let mut scratch = Ctx::new("C09", ctx.tier, ctx.seed, "exploration");
            super::c05d::run_daemon_case(&mut scratch, case)?;
        }
        let after = open_set();
        let extra: Vec<String> = after.difference(&base).map(|fd| std::fs::read_link(format!("/proc/self/fd/{fd}")).map(|p| p.display().to_string()).unwrap_or_default()).collect();
        Ok((extra.len(), extra))
    };
    let (d0, _) = delta(&empty, ctx)?;
    let (d1, extra) = delta(c, ctx)?;
    ctx.class("daemon_sequence");
    if c.msgs.len() >= 2 {
        ctx.nontrivial(&("daemon", c.rwlock, &c.msgs));
    }
    ctx.extra.insert("daemon_fixture_baseline_delta".into(), json!(d0));
    if d1 != d0 {
        return Err(format!("daemon: {d1} descriptors remain open after the session and dropping the daemon, an empty session on the same fixture leaves {d0}: {extra:?}"));
    }
    // memfds / eventfds sent by the harness must be gone in any case
    if extra.iter().any(|p| p.contains("memfd:") || p.contains("eventfd")) && d0 == 0 {
        return Err(format!("daemon: descriptors that arrived over the socket remain open: {extra:?}"));
    }
    Ok(())
}

pub fn run(ctx: &mut Ctx) {
    ctx.rule = "(1) C05's mutated streams with 0..=40 descriptors per chunk at byte 0 or a random byte against BackendReqHandler, torn down after a \
                generated number of handle_request calls (0 .. all); (2) mutated back-end-request streams with 0..=3 descriptors against \
                FrontendReqHandler, likewise; (3) Frontend calls answered with C06's mutated replies carrying 0..=3 descriptors; (4) C02 sessions \
                with lent descriptors; (5) daemon message sequences with kick/call/err/memory/log/request-channel descriptors. Every scenario \
                starts from a snapshot of /proc/self/fd and must return to exactly that set after all endpoints, handler-owned files and harness \
                copies are dropped. Non-trivial = descriptors on a rejected message, more than 32 descriptors, descriptors not on byte 0, teardown \
                with unread messages that carry descriptors."
        .into();
    ctx.assumptions = vec![
        "descriptor identity = (st_dev, st_ino, eventfd-id); the harness sends fresh memfds so identities are unique".into(),
        "the daemon level is differential: descriptors the fixture itself leaves open with an empty session (the exit-event consumer handed to the worker's epoll set) are not counted".into(),
        "single-threaded scenarios; for sessions and daemons all threads are joined before the final snapshot".into(),
    ];
    let n = ctx.tier.pick(6000u32, 600_000u32);
    let bes = (stream_case_strategy(), prop_oneof![1 => Just(u16::MAX), 1 => any::<u16>(), 1 => 0u16..8000]).prop_map(|(stream, cut)| BeCase { stream, cut });
    ctx.prop_check("backend_server_streams", n, bes, |ctx, c| run_be(ctx, c));

    let n = ctx.tier.pick(3000u32, 400_000u32);
    let fss = (any::<bool>(), proptest::collection::vec(super::c06::br_chunk_strategy(), 1..=5), any::<u16>()).prop_map(|(reply_ack, chunks, cut)| FeSrvCase { stream: super::c06::BrStream { reply_ack, chunks }, cut });
    ctx.prop_check("frontend_request_server_streams", n, fss, |ctx, c| run_fe_srv(ctx, c));

    let n = ctx.tier.pick(6000u32, 400_000u32);
    let target = crate::feops::op_strategy().prop_filter("call must await an answer", |op| !matches!(op, crate::feops::FeOp::SetLogFd | crate::feops::FeOp::SetLogBase { region: None, .. } | crate::feops::FeOp::SetProtocolFeatures(_)));
    let frs = (target, crate::feops::reply_vals(), any::<bool>(), proptest::collection::vec(prop_oneof![2 => (0u8..=3).prop_map(super::c06::RMut::Fds), 1 => super::c06::rmut_strategy()], 0..=2))
        .prop_map(|(op, rv, need_reply, muts)| super::c06::FeReplyCase { op, rv, need_reply, muts });
    ctx.prop_check("frontend_reply_paths", n, frs, |ctx, c| run_fe_reply(ctx, c));

    let n = ctx.tier.pick(500u32, 60_000u32);
    let ss = (super::c02::neg_strategy(), proptest::collection::vec(crate::feops::op_strategy(), 1..16)).prop_map(|(neg, ops)| super::c02::SessCase { neg, ops });
    ctx.prop_check("sessions", n, ss, |ctx, c| run_session(ctx, c));

    let n = ctx.tier.pick(300u32, 30_000u32);
    ctx.prop_check("daemon_sequences", n, super::c05d::daemon_case_strategy(), |ctx, c| run_daemon(ctx, c));
}
