//! C09 — every descriptor received is handed over exactly once or closed; none leak.
//!
//! G: the C05 stream generator with 0..=40 descriptors attached to any chunk at any byte, for
//!    BackendReqHandler and FrontendReqHandler, crossed with teardown after every prefix; the C06
//!    reply mutations with 0..=3 descriptors for the Frontend reply paths; C02 sessions (lent
//!    descriptors); daemon sequences (kick/call/err/mem/log/request-channel descriptors).
//! O: the set of open descriptor numbers of the process before the scenario == after everything
//!    was dropped (exact set equality); every identity delivered to a handler was sent and is
//!    delivered at most once; lent descriptors stay open; daemon level: differential against the
//!    same fixture with an empty session.

use std::collections::{BTreeSet, HashSet};
use std::os::unix::io::{AsRawFd, OwnedFd, RawFd};
use std::os::unix::net::UnixStream;
use std::panic::{catch_unwind, AssertUnwindSafe};
use std::sync::{Arc, Mutex};

use proptest::prelude::*;
use serde::{Deserialize, Serialize};
use serde_json::json;
use vhost::vhost_user::{BackendReqHandler, FrontendReqHandler};

use super::c05::{build_chunks, stream_case_strategy, StreamCase};
use crate::engine::Ctx;
use crate::fdtrack::{file_id, snapshot, FdKind, FileId};
use crate::rawpeer;
use crate::rec_backend::{FeRec, Rec};
use crate::srv::fresh_fds;

fn open_set() -> BTreeSet<RawFd> {
    snapshot().keys().copied().collect()
}

fn diff(base: &BTreeSet<RawFd>, after: &BTreeSet<RawFd>) -> Option<String> {
    if base == after {
        return None;
    }
    let leaked: Vec<String> = after.difference(base).map(|fd| format!("{fd} -> {}", std::fs::read_link(format!("/proc/self/fd/{fd}")).map(|p| p.display().to_string()).unwrap_or_default())).collect();
    let closed: Vec<&RawFd> = base.difference(after).collect();
    Some(format!("descriptors left open: [{}]; descriptors of the harness that were closed: {closed:?}", leaked.join(", ")))
}

#[derive(Serialize, Deserialize, Debug, Clone)]
pub struct BeCase {
    pub stream: StreamCase,
    /// teardown after this many handle_request calls (monotone-mapped onto 0..=max)
    pub cut: u16,
}

pub fn run_be(ctx: &mut Ctx, c: &BeCase) -> Result<(), String> {
    let base = open_set();
    let res = (|| -> Result<(), String> {
        let (chunks, all) = build_chunks(&c.stream.neg, &c.stream.chunks);
        let sent: HashSet<FileId> = chunks.iter().flat_map(|ch| ch.fds.iter().filter_map(|f| file_id(f.as_raw_fd()))).collect();
        let nsent = sent.len();
        let (peer, srv) = UnixStream::pair().map_err(|e| e.to_string())?;
        let mut rec = Rec::new(c.stream.neg.dev_features, c.stream.neg.dev_pf);
        rec.hold_files = true;
        let rec = Arc::new(Mutex::new(rec));
        let mut server = BackendReqHandler::from_stream(srv, rec.clone());
        for ch in chunks {
            let raw: Vec<RawFd> = ch.fds.iter().map(|f| f.as_raw_fd()).collect();
            rawpeer::send_all(peer.as_raw_fd(), &ch.bytes, &raw).map_err(|e| e.to_string())?;
            drop(ch.fds);
        }
        rawpeer::shutdown_wr(&peer);
        let max = all.len() / 12 + 4;
        let cut = (c.cut as usize * (max + 1)) >> 16;
        let mut calls = 0;
        for _ in 0..cut {
            calls += 1;
            match catch_unwind(AssertUnwindSafe(|| server.handle_request())) {
                Ok(Err(vhost::vhost_user::Error::Disconnected)) if rawpeer::fionread(server.as_raw_fd()) == 0 => break,
                Ok(_) => {}
                Err(_) => return Err("handle_request panicked".into()),
            }
        }
        // what the handler got: every identity was sent, none is delivered twice
        let delivered: Vec<FileId> = {
            let r = rec.lock().unwrap();
            r.held.iter().filter_map(|f| file_id(f.as_raw_fd())).collect()
        };
        let mut seen = HashSet::new();
        for id in &delivered {
            if !sent.contains(id) {
                return Err(format!("handler received a descriptor {id:?} that was never sent"));
            }
            if !seen.insert(*id) {
                return Err(format!("descriptor {id:?} was delivered to the handler twice"));
            }
        }
        // before teardown: a sent identity may be open only through a handler-owned descriptor
        let held_fds: HashSet<RawFd> = rec.lock().unwrap().held.iter().map(|f| f.as_raw_fd()).collect();
        // descriptors handed over inside a request-channel / GPU proxy object are owned by that object
        let mut in_objects = {
            let r = rec.lock().unwrap();
            r.backends.len() + r.gpu_backends.len()
        };
        for (fd, id) in snapshot() {
            if sent.contains(&id) && !held_fds.contains(&fd) && !base.contains(&fd) {
                if in_objects > 0 {
                    in_objects -= 1;
                    continue;
                }
                // the library keeps nothing across handle_request calls
                return Err(format!("after {calls} handle_request calls descriptor {fd} ({id:?}) is open but was neither delivered to the handler nor closed"));
            }
        }
        let rejected_with_fds = c.stream.chunks.iter().any(|s| s.nfds_sent() > 0 && !s.pristine());
        let over = c.stream.chunks.iter().any(|s| s.nfds_sent() > 32);
        let off0 = c.stream.chunks.iter().any(|s| s.nfds_sent() > 0 && s.fd_at != 0);
        if rejected_with_fds || over || off0 || (cut < max && nsent > 0) {
            ctx.nontrivial(&("be", c.stream.chunks.iter().map(|s| (s.code, super::c05::mut_name(&s.mutation), s.nfds_sent().min(33), s.fd_at != 0)).collect::<Vec<_>>(), cut.min(8)));
        }
        ctx.class(if cut < max { "be_teardown_mid_stream" } else { "be_stream_consumed" });
        ctx.class_n("be_descriptors_sent", nsent as u64);
        ctx.class_n("be_descriptors_delivered", delivered.len() as u64);
        ctx.sample(|| json!({"endpoint": "backend-server", "chunks": c.stream.chunks.iter().map(|s| json!({"code": s.code, "nfds": s.nfds_sent(), "fd_at": s.fd_at, "mutation": s.mutation})).collect::<Vec<_>>(), "teardown_after_calls": calls, "delivered": delivered.len(), "sent": nsent}));
        drop(server);
        drop(peer);
        {
            let mut r = rec.lock().unwrap();
            r.held.clear();
            r.backends.clear();
            r.gpu_backends.clear();
        }
        Ok(())
    })();
    res?;
    if let Some(d) = diff(&base, &open_set()) {
        return Err(format!("back-end server: after dropping both endpoints and the handler's files: {d}"));
    }
    Ok(())
}

#[derive(Serialize, Deserialize, Debug, Clone)]
pub struct FeSrvCase {
    pub stream: super::c06::BrStream,
    pub cut: u16,
}

pub fn run_fe_srv(ctx: &mut Ctx, c: &FeSrvCase) -> Result<(), String> {
    let base = open_set();
    {
        let rec = Arc::new(Mutex::new(FeRec::new()));
        let mut server = FrontendReqHandler::new(rec.clone()).map_err(|e| format!("{e:?}"))?;
        server.set_reply_ack_flag(c.stream.reply_ack);
        let tx = crate::daemon_fx::dup_fd(server.get_tx_raw_fd());
        let mut total = 0usize;
        let mut sent: HashSet<FileId> = HashSet::new();
        for ch in &c.stream.chunks {
            let cs = crate::stream::ChunkSpec { code: ch.code, need_reply: ch.need_reply, body: ch.body.clone(), nfds: ch.nfds as usize, mutation: ch.mutation.clone(), nfds_override: None, fd_at: 0, tail: ch.tail.clone() };
            let bytes = cs.bytes();
            let fds = fresh_fds(ch.nfds as usize, FdKind::Memfd);
            sent.extend(fds.iter().filter_map(|f| file_id(f.as_raw_fd())));
            let raw: Vec<RawFd> = fds.iter().map(|f| f.as_raw_fd()).collect();
            rawpeer::send_all(tx.as_raw_fd(), &bytes, &raw).map_err(|e| e.to_string())?;
            total += bytes.len();
        }
        unsafe { libc::shutdown(tx.as_raw_fd(), libc::SHUT_WR) };
        let max = total / 12 + 4;
        let cut = (c.cut as usize * (max + 1)) >> 16;
        for _ in 0..cut {
            if catch_unwind(AssertUnwindSafe(|| server.handle_request())).is_err() {
                return Err("FrontendReqHandler::handle_request panicked".into());
            }
            // a descriptor lent to the handler is closed once the call is over
            let lent: Vec<RawFd> = rec.lock().unwrap().lent.clone();
            for (fd, id) in snapshot() {
                if sent.contains(&id) && !base.contains(&fd) && fd != tx.as_raw_fd() {
                    return Err(format!("front-end request server: descriptor {fd} ({id:?}) received with a request is still open after handle_request returned (lent to the handler: {lent:?})"));
                }
            }
        }
        if !sent.is_empty() {
            ctx.nontrivial(&("fesrv", c.stream.chunks.iter().map(|c| (c.code, c.nfds, super::c05::mut_name(&c.mutation))).collect::<Vec<_>>(), cut.min(6)));
        }
        ctx.class(if cut < max { "fesrv_teardown_mid_stream" } else { "fesrv_stream_consumed" });
        drop(server);
        drop(tx);
    }
    if let Some(d) = diff(&base, &open_set()) {
        return Err(format!("front-end request server: after dropping the endpoint: {d}"));
    }
    Ok(())
}

/// Frontend reply paths (C06 mutations with descriptors) and sessions (C02): back to the baseline
pub fn run_fe_reply(ctx: &mut Ctx, c: &super::c06::FeReplyCase) -> Result<(), String> {
    let base = open_set();
    {
        let mut scratch = Ctx::new("C09", ctx.tier, ctx.seed, "exploration");
        // the C06 judgement itself is not C09's business: only the descriptor accounting
        let _ = super::c06::run_fe_reply(&mut scratch, c);
    }
    let nf = c.muts.iter().filter_map(|m| if let super::c06::RMut::Fds(k) = m { Some(*k) } else { None }).last();
    if nf.unwrap_or(0) > 0 {
        ctx.nontrivial(&("fereply", c.op.name(), &c.muts));
    }
    ctx.class("fe_reply_path");
    if let Some(d) = diff(&base, &open_set()) {
        return Err(format!("Frontend::{} with reply mutators {:?}: after the call and dropping the endpoint: {d}", c.op.name(), c.muts));
    }
    Ok(())
}

pub fn run_session(ctx: &mut Ctx, c: &super::c02::SessCase) -> Result<(), String> {
    let base = open_set();
    {
        let mut scratch = Ctx::new("C09", ctx.tier, ctx.seed, "exploration");
        let _ = super::c02::run_session(&mut scratch, c);
    }
    ctx.class("session");
    ctx.nontrivial(&("sess", c.ops.iter().map(|o| o.name()).collect::<Vec<_>>()));
    if let Some(d) = diff(&base, &open_set()) {
        return Err(format!("session {:?}: after both endpoints were dropped: {d}", c.ops.iter().map(|o| o.name()).collect::<Vec<_>>()));
    }
    Ok(())
}

/// daemon level: differential against an empty session on the same kind of fixture
pub fn run_daemon(ctx: &mut Ctx, c: &super::c05d::DaemonCase) -> Result<(), String> {
    let empty = super::c05d::DaemonCase { rwlock: c.rwlock, msgs: vec![] };
    let delta = |case: &super::c05d::DaemonCase, ctx: &mut Ctx| -> Result<(usize, Vec<String>), String> {
        let base = open_set();
        {
            let mut scratch = Ctx::new("C09", ctx.tier, ctx.seed, "exploration");
            super::c05d::run_daemon_case(&mut scratch, case)?;
        }
        let after = open_set();
        let extra: Vec<String> = after.difference(&base).map(|fd| std::fs::read_link(format!("/proc/self/fd/{fd}")).map(|p| p.display().to_string()).unwrap_or_default()).collect();
        Ok((extra.len(), extra))
    };
    let (d0, _) = delta(&empty, ctx)?;
    let (d1, extra) = delta(c, ctx)?;
    ctx.class("daemon_sequence");
    if c.msgs.len() >= 2 {
        ctx.nontrivial(&("daemon", c.rwlock, &c.msgs));
    }
    ctx.extra.insert("daemon_fixture_baseline_delta".into(), json!(d0));
    if d1 != d0 {
        return Err(format!("daemon: {d1} descriptors remain open after the session and dropping the daemon, an empty session on the same fixture leaves {d0}: {extra:?}"));
    }
    // memfds / eventfds sent by the harness must be gone in any case
    if extra.iter().any(|p| p.contains("memfd:") || p.contains("eventfd")) && d0 == 0 {
        return Err(format!("daemon: descriptors that arrived over the socket remain open: {extra:?}"));
    }
    Ok(())
}

// ------------------------------------------------------------------ descriptors lent to Frontend calls

#[derive(Serialize, Deserialize, Debug, Clone)]
pub struct LentCase {
    pub st: crate::feops::FeState,
    pub op: crate::feops::FeOp,
    pub rv: crate::feops::ReplyVals,
    /// 0/1: the matching answer is waiting; 2: only a zero acknowledgement; 3: nothing (the call fails where it waits)
    pub answer: u8,
}

/// Any Frontend call, in any negotiation state, successful or not: the descriptors the caller lent (memory, log,
/// ring eventfds, inflight, request channel) are still open and still the same objects afterwards.
pub fn run_lent(ctx: &mut Ctx, c: &LentCase) -> Result<(), String> {
    use crate::spec;
    if crate::feops::oversized(&c.op) {
        ctx.class("lent_not_applicable");
        return Ok(());
    }
    let (mut f, peer) = super::c01::frontend_in_state(&c.st);
    let mut lent = crate::feops::make_lent(&c.op);
    if lent.ids.is_empty() {
        ctx.class("lent_no_descriptor");
        return Ok(());
    }
    match c.answer {
        0 | 1 => {
            let (bytes, nfds) = match crate::feops::reply_for(&c.op, &c.st, &c.rv) {
                Some((b, n, _)) => (b, n),
                None => (spec::reply(c.op.code(), &spec::b_u64(0)), 0),
            };
            let fds: Vec<OwnedFd> = fresh_fds(nfds, FdKind::Memfd);
            let raw: Vec<RawFd> = fds.iter().map(|x| x.as_raw_fd()).collect();
            let _ = rawpeer::send_all(peer.as_raw_fd(), &bytes, &raw);
        }
        2 => {
            let _ = rawpeer::send_all(peer.as_raw_fd(), &spec::reply(c.op.code(), &spec::b_u64(0)), &[]);
        }
        _ => {}
    }
    rawpeer::shutdown_wr(&peer);
    let r = catch_unwind(AssertUnwindSafe(|| crate::feops::perform(&mut f, &c.op, &mut lent)));
    let outcome = match &r {
        Ok(Ok(_)) => "ok",
        Ok(Err(_)) => "err",
        Err(_) => "panic",
    };
    let shmfd = c.st.acked_pf & spec::pf::mask(spec::pf::LOG_SHMFD) != 0;
    ctx.class(if outcome == "ok" { "lent_call_ok" } else { "lent_call_failed" });
    ctx.nontrivial(&("lent", c.op.name(), outcome, shmfd, crate::feops::locally_rejected(&c.op, &c.st), c.st.need_reply));
    ctx.sample(|| json!({"scenario": "lent", "op": c.op.name(), "acked_pf": c.st.acked_pf, "answer": c.answer, "outcome": outcome, "lent": lent.ids.len()}));
    let mut bad = None;
    for (i, (fd, id)) in lent.owned.iter().zip(lent.ids.iter()).enumerate() {
        if file_id(fd.as_raw_fd()) != Some(*id) {
            bad = Some(format!("descriptor #{i} ({})", fd.as_raw_fd()));
        }
    }
    if let (Some(e), Some(id)) = (&lent.eventfd, lent.ids.last()) {
        if file_id(e.as_raw_fd()) != Some(*id) {
            bad = Some(format!("eventfd {}", e.as_raw_fd()));
        }
    }
    if let Some(b) = bad {
        // the numbers may already belong to other objects: do not close them again
        std::mem::forget(lent);
        return Err(format!("Frontend::{}({:?}) in state {:?} (call result: {outcome}): {b} lent for transmission was closed or replaced by the library", c.op.name(), c.op, c.st));
    }
    Ok(())
}

#[derive(Serialize, Deserialize, Debug, Clone)]
pub struct ProxyLentCase {
    /// false: shared_object_lookup, true: shmem_map
    pub map: bool,
    /// 0: back-end proxy; 1 / 2: GPU proxy set_dmabuf_scanout / set_dmabuf_scanout2 (fire-and-forget, peer open or gone)
    #[serde(default)]
    pub gpu: u8,
    pub reply_ack: bool,
    pub so_flag: bool,
    pub shmem_flag: bool,
    /// 0: zero acknowledgement waiting, 1: non-zero acknowledgement, 2: nothing
    pub answer: u8,
    pub kind: u8,
}

/// The back-end-to-front-end proxy is lent a descriptor by SHARED_OBJECT_LOOKUP and SHMEM_MAP: open and unchanged
/// after the call, in every flag combination, whatever the call returns; nothing else stays open.
pub fn run_proxy_lent(ctx: &mut Ctx, c: &ProxyLentCase) -> Result<(), String> {
    use crate::spec::{self, be};
    use vhost::vhost_user::message::{VhostUserMMap, VhostUserSharedMsg};
    let base = open_set();
    let fd = crate::fdtrack::make_fd([FdKind::Memfd, FdKind::Eventfd, FdKind::Pipe, FdKind::Socket][(c.kind % 4) as usize]);
    let id = file_id(fd.as_raw_fd());
    let outcome;
    {
        let (peer, theirs) = UnixStream::pair().map_err(|e| e.to_string())?;
        let code = if c.map { be::SHMEM_MAP } else { be::SHARED_OBJECT_LOOKUP };
        match c.answer {
            0 => drop(rawpeer::send_all(peer.as_raw_fd(), &spec::reply(code, &spec::b_u64(0)), &[])),
            1 => drop(rawpeer::send_all(peer.as_raw_fd(), &spec::reply(code, &spec::b_u64(22)), &[])),
            _ => {}
        }
        rawpeer::shutdown_wr(&peer);
        if c.gpu != 0 && c.answer == 1 {
            drop(peer.shutdown(std::net::Shutdown::Both));
        }
        let r = catch_unwind(AssertUnwindSafe(|| {
            if c.gpu != 0 {
                use vhost::vhost_user::gpu_message::{VhostUserGpuDMABUFScanout, VhostUserGpuDMABUFScanout2};
                let g = vhost::vhost_user::GpuBackend::from_stream(theirs);
                let sc = VhostUserGpuDMABUFScanout { scanout_id: 1, width: 4, height: 4, fd_width: 4, fd_height: 4, fd_stride: 16, ..Default::default() };
                return if c.gpu == 1 { g.set_dmabuf_scanout(&sc, Some(&fd)).is_ok() } else { g.set_dmabuf_scanout2(&VhostUserGpuDMABUFScanout2 { dmabuf_scanout: sc, modifier: 7 }, Some(&fd)).is_ok() };
            }
            let b = vhost::vhost_user::Backend::from_stream(theirs);
            b.set_reply_ack_flag(c.reply_ack);
            b.set_shared_object_flag(c.so_flag);
            b.set_shmem_flag(c.shmem_flag);
            let mut u = VhostUserSharedMsg::default();
            u.uuid = uuid::Uuid::from_bytes([4; 16]);
            let mm = VhostUserMMap { shmid: 0, padding: [0; 7], fd_offset: 0, shm_offset: 0, len: 0x1000, flags: 0 };
            use vhost::vhost_user::VhostUserFrontendReqHandler;
            if c.map {
                b.shmem_map(&mm, &fd).is_ok()
            } else {
                b.shared_object_lookup(&u, &fd).is_ok()
            }
        }));
        outcome = match r {
            Ok(true) => "ok",
            Ok(false) => "err",
            Err(_) => "panic",
        };
        if file_id(fd.as_raw_fd()) != id {
            std::mem::forget(fd);
            return Err(format!("{} {} (reply_ack {}, shared-object flag {}, shmem flag {}, answer {}, result {outcome}): the descriptor lent for transmission was closed or replaced by the library", if c.gpu != 0 { "GpuBackend set_dmabuf_scanout" } else { "Backend proxy" }, if c.gpu != 0 { "" } else if c.map { "shmem_map" } else { "shared_object_lookup" }, c.reply_ack, c.so_flag, c.shmem_flag, c.answer));
        }
    }
    drop(fd);
    ctx.class("proxy_lent");
    ctx.nontrivial(&("proxylent", c.gpu, c.map, c.reply_ack, c.so_flag, c.shmem_flag, c.answer, outcome));
    if let Some(d) = diff(&base, &open_set()) {
        return Err(format!("Backend proxy call {c:?} (result {outcome}): after the call and dropping the proxy: {d}"));
    }
    Ok(())
}

pub fn run(ctx: &mut Ctx) {
    ctx.rule = "(1) C05's mutated streams with 0..=40 descriptors per chunk at byte 0 or a random byte against BackendReqHandler, torn down after a \
                generated number of handle_request calls (0 .. all); (2) mutated back-end-request streams with 0..=3 descriptors against \
                FrontendReqHandler, likewise; (3) Frontend calls answered with C06's mutated replies carrying 0..=3 descriptors; (4) C02 sessions \
                with lent descriptors; (4b) single Frontend calls that lend descriptors (memory, log, ring eventfds, inflight, request channel, device state) in generated negotiation states, answered correctly / with a bare acknowledgement / not at all: every lent descriptor is still open and the same object after the call, whatever its result; (4c) the same for the descriptor lent to the back-end proxy by shared_object_lookup / shmem_map in every flag combination and to the GPU proxy by set_dmabuf_scanout / set_dmabuf_scanout2 (peer open or gone); (5) daemon message sequences with kick/call/err/memory/log/request-channel descriptors. Every scenario \
                starts from a snapshot of /proc/self/fd and must return to exactly that set after all endpoints, handler-owned files and harness \
                copies are dropped. Non-trivial = descriptors on a rejected message, more than 32 descriptors, descriptors not on byte 0, teardown \
                with unread messages that carry descriptors."
        .into();
    ctx.assumptions = vec![
        "descriptor identity = (st_dev, st_ino, eventfd-id); the harness sends fresh memfds so identities are unique".into(),
        "the daemon level is differential: descriptors the fixture itself leaves open with an empty session (the exit-event consumer handed to the worker's epoll set) are not counted".into(),
        "single-threaded scenarios; for sessions and daemons all threads are joined before the final snapshot".into(),
    ];
    let n = ctx.tier.pick(6000u32, 600_000u32);
    let bes = (stream_case_strategy(), prop_oneof![1 => Just(u16::MAX), 1 => any::<u16>(), 1 => 0u16..8000]).prop_map(|(stream, cut)| BeCase { stream, cut });
    ctx.prop_check("backend_server_streams", n, bes, |ctx, c| run_be(ctx, c));

    let n = ctx.tier.pick(3000u32, 400_000u32);
    let fss = (any::<bool>(), proptest::collection::vec(super::c06::br_chunk_strategy(), 1..=5), any::<u16>()).prop_map(|(reply_ack, chunks, cut)| FeSrvCase { stream: super::c06::BrStream { reply_ack, chunks }, cut });
    ctx.prop_check("frontend_request_server_streams", n, fss, |ctx, c| run_fe_srv(ctx, c));

    let n = ctx.tier.pick(6000u32, 400_000u32);
    let target = crate::feops::op_strategy().prop_filter("call must await an answer", |op| !matches!(op, crate::feops::FeOp::SetLogFd | crate::feops::FeOp::SetLogBase { region: None, .. } | crate::feops::FeOp::SetProtocolFeatures(_)));
    let frs = (target, crate::feops::reply_vals(), any::<bool>(), proptest::collection::vec(prop_oneof![2 => (0u8..=3).prop_map(super::c06::RMut::Fds), 1 => super::c06::rmut_strategy()], 0..=2))
        .prop_map(|(op, rv, need_reply, muts)| super::c06::FeReplyCase { op, rv, need_reply, muts });
    ctx.prop_check("frontend_reply_paths", n, frs, |ctx, c| run_fe_reply(ctx, c));

    let n = ctx.tier.pick(500u32, 60_000u32);
    let ss = (super::c02::neg_strategy(), proptest::collection::vec(crate::feops::op_strategy(), 1..16)).prop_map(|(neg, ops)| super::c02::SessCase { neg, ops });
    ctx.prop_check("sessions", n, ss, |ctx, c| run_session(ctx, c));


    let n = ctx.tier.pick(4000u32, 400_000u32);
    let st = (
        prop_oneof![Just(2u64), Just(255), Just(256), Just(0x8000)],
        prop_oneof![1 => Just(0u64), 3 => Just(crate::spec::VIRTIO_F_PROTOCOL_FEATURES | 1 << 32)],
        any::<bool>(),
        prop_oneof![2 => Just(0u64), 3 => any::<u64>().prop_map(|v| v & 0x3f_ffff), 2 => Just(0x3f_ffffu64)],
        any::<bool>(),
    )
        .prop_map(|(max_queue, offered_vf, ackvf, acked_pf, need_reply)| crate::feops::FeState { max_queue, offered_vf, acked_vf: if ackvf { offered_vf } else { 0 }, acked_pf: if offered_vf != 0 { acked_pf } else { 0 }, need_reply });
    // construction, not rejection: a generated call that lends nothing is replaced by one of two that do
    let with_fd = (crate::feops::op_strategy(), any::<bool>(), crate::feops::queue_index()).prop_map(|(op, alt, q)| {
        use crate::feops::FeOp as O;
        if matches!(op, O::SetMemTable(_) | O::AddMemRegion(_) | O::SetLogBase { region: Some(_), .. } | O::SetLogFd | O::SetVringCall(_) | O::SetVringKick(_) | O::SetVringErr(_) | O::SetBackendReqFd | O::SetInflightFd(..) | O::SetDeviceStateFd(_)) {
            op
        } else if alt {
            O::SetLogBase { base: 0x4000, region: Some((0x1000, 0)) }
        } else {
            O::SetVringKick(q)
        }
    });
    let ls = (st, with_fd, crate::feops::reply_vals(), 0u8..4).prop_map(|(st, op, rv, answer)| LentCase { st, op, rv, answer });
    ctx.prop_check("lent_descriptors", n, ls, |ctx, c| run_lent(ctx, c));

    let n = ctx.tier.pick(600u32, 40_000u32);
    let ps = (any::<bool>(), any::<bool>(), any::<bool>(), any::<bool>(), 0u8..3, 0u8..4, prop_oneof![2 => Just(0u8), 1 => Just(1u8), 1 => Just(2u8)]).prop_map(|(map, reply_ack, so_flag, shmem_flag, answer, kind, gpu)| ProxyLentCase { map, gpu, reply_ack, so_flag, shmem_flag, answer, kind });
    ctx.prop_check("proxy_lent_descriptors", n, ps, |ctx, c| run_proxy_lent(ctx, c));

    let n = ctx.tier.pick(300u32, 30_000u32);
    ctx.prop_check("daemon_sequences", n, super::c05d::daemon_case_strategy(), |ctx, c| run_daemon(ctx, c));
}
