//! C16 — daemon shutdown and teardown always complete, whatever the timing.
//!
//! G: fault/schedule enumeration: position of the shutdown request relative to the daemon thread
//!    (idle, parked before the read [hook], blocked in the header read with a partial header,
//!    between header and body, inside the handler, parked after a request [hook], blocked writing
//!    a reply, after the thread exited, parked before the final socket shutdown [hook]) x 1..=3
//!    callers (concurrent / sequential) x events interleaved between the two steps of a shutdown
//!    request [hook]; without shutdown: peer close at every byte offset of a request, for wait()
//!    and serve(); request errors; drop.
//! O: wait() == Ok in bounded time, peer reads EOF, restart works; the stated results for cuts.

use std::io::Read;
use std::os::unix::io::AsRawFd;
use std::os::unix::net::UnixStream;
use std::sync::atomic::Ordering;
use std::sync::Arc;
use std::time::{Duration, Instant};

use serde::{Deserialize, Serialize};
use serde_json::json;
use vhost_user_backend::VringT;

use crate::daemon_fx::{new_eventfd, sock_path, thread_states, BeCfg, Fx, VMutex, VRw, GM};
use crate::engine::Ctx;
use crate::rawclient::RawClient;
use crate::rawpeer;
use crate::sched::Sched;
use crate::spec::{self, fe};

#[derive(Serialize, Deserialize, Debug, Clone, Copy, Hash, PartialEq, Eq)]
pub enum Pos {
    Idle,
    HoldBeforeRead,
    PartialHeader,
    BetweenHeaderAndBody,
    InsideHandler,
    HoldAfterRequest,
    ReplyWriteBlocked,
    AfterPeerGone,
    HoldBeforeFinalShutdown,
}

#[derive(Serialize, Deserialize, Debug, Clone, Copy, Hash, PartialEq, Eq)]
pub enum Between {
    None,
    PeerClose,
    DaemonError,
    SecondCaller,
    /// like SecondCaller, and wait() is called (and must return) while the first caller is still stalled between its two steps
    SecondCallerThenWait,
    /// wait() is started while a caller sits between the two steps of its shutdown request
    WaitMeanwhile,
    /// wait() is already blocked when the shutdown request is issued (main thread waits, another thread shuts down)
    WaitFirst,
}

#[derive(Serialize, Deserialize, Debug, Clone, Copy, Hash, PartialEq, Eq)]
pub struct ShutCase {
    pub pos: Pos,
    pub callers: u8,
    pub concurrent: bool,
    pub between: Between,
    pub rwlock: bool,
    pub workers: u8,
    /// the (sequential) shutdown requests go through VhostUserDaemon::request_shutdown() instead of a ShutdownHandle
    #[serde(default)]
    pub via_daemon: bool,
}

#[derive(Serialize, Deserialize, Debug, Clone, Hash, PartialEq, Eq)]
pub struct CutCase {
    pub code: u32,
    pub cut: usize,
    pub serve: bool,
    pub rwlock: bool,
    /// the peer only shuts down its sending direction and keeps reading: it must observe end-of-stream once the daemon
    /// has stopped serving (before anybody calls wait())
    #[serde(default)]
    pub half_close: bool,
}

const BOUND: Duration = Duration::from_secs(10);

fn daemon_tid() -> Option<i32> {
    for e in std::fs::read_dir("/proc/self/task").ok()?.flatten() {
        if let Ok(c) = std::fs::read_to_string(e.path().join("comm")) {
            if c.trim() == "vverif-daemon" {
                return e.file_name().to_str()?.parse().ok();
            }
        }
    }
    None
}

/// run `f` in a helper thread; Err if it does not finish within BOUND
/// Is some thread other than the harness's main thread runnable right now?  A thread that is runnable but has not
/// finished is either starved (overloaded machine, descheduled virtual CPU: observed as a thread in state R with no
/// CPU time for more than 10 s) or spinning; a thread that waits for something that will never come is asleep.
fn others_runnable() -> bool {
    thread_states().iter().any(|(st, name)| *st == 'R' && name != "vverif")
}

/// The time limit of every "returns in bounded time" judgement: BOUND, extended up to 6 x BOUND for as long as some
/// thread is still runnable (so that starvation is not taken for blocking; a spinning thread is reported after 60 s).
fn out_of_time(t0: Instant) -> bool {
    let el = t0.elapsed();
    let r = el > BOUND && !(el < BOUND * 6 && others_runnable());
    r
}

fn bounded<T: Send + 'static>(what: &str, f: impl FnOnce() -> T + Send + 'static) -> Result<T, String> {
    let h = std::thread::Builder::new().name("c16_helper".into()).spawn(f).map_err(|e| e.to_string())?;
    let t0 = Instant::now();
    while !h.is_finished() {
        if out_of_time(t0) {
            return Err(format!("{what} did not return within {}s; threads: {:?}", t0.elapsed().as_secs(), thread_states()));
        }
        std::thread::sleep(Duration::from_micros(200));
    }
    h.join().map_err(|_| format!("{what} panicked"))
}

fn peer_sees_eof(peer: &UnixStream) -> Result<(), String> {
    let _ = peer.set_read_timeout(Some(BOUND));
    let mut buf = [0u8; 4096];
    let mut p = peer;
    loop {
        match p.read(&mut buf) {
            Ok(0) => return Ok(()),
            Ok(_) => continue, // leftover replies
            Err(e) if e.kind() == std::io::ErrorKind::WouldBlock || e.kind() == std::io::ErrorKind::TimedOut => {
                return Err("peer does not observe end-of-stream (read still pending after 10s)".into())
            }
            Err(e) if e.kind() == std::io::ErrorKind::ConnectionReset => return Ok(()),
            Err(e) => return Err(format!("peer read: {e}")),
        }
    }
}

fn restart_works<V: VringT<GM> + Clone + Send + Sync + 'static>(fx: &mut Fx<V>) -> Result<(), String> {
    fx.connect().map_err(|e| format!("daemon cannot accept a new connection: {e}"))?;
    let cl = RawClient::new(fx.peer.as_ref().unwrap().try_clone().unwrap());
    cl.get(fe::GET_FEATURES, &[], &[]).map_err(|e| format!("new connection does not serve GET_FEATURES: {e}"))?;
    Ok(())
}

fn run_shut_generic<V: VringT<GM> + Clone + Send + Sync + 'static>(ctx: &mut Ctx, c: &ShutCase) -> Result<(), String> {
    let masks: Vec<u64> = (0..c.workers.max(1)).map(|t| 1u64 << t).collect();
    let mut fx: Fx<V> = Fx::new(BeCfg { num_queues: 3, queues_per_thread: masks, ..Default::default() })?;
    let sched = Sched::install();
    let res = (|| -> Result<(), String> {
        match c.pos {
            Pos::HoldBeforeRead => sched.arm("daemon.before_read", "vverif-daemon"),
            Pos::HoldAfterRequest => sched.arm("daemon.after_request", "vverif-daemon"),
            Pos::HoldBeforeFinalShutdown => sched.arm("daemon.before_final_shutdown", "vverif-daemon"),
            _ => {}
        }
        fx.connect()?;
        let peer = fx.peer.take().unwrap();
        let handle = fx.daemon.as_ref().unwrap().shutdown_handle().ok_or("no shutdown handle on a started daemon")?;
        let mut parked_daemon = None;
        // bring the daemon thread to the position
        match c.pos {
            Pos::Idle => {}
            Pos::HoldBeforeRead => {
                parked_daemon = Some(sched.wait_parked(|p| p.name == "daemon.before_read", BOUND).ok_or("daemon thread did not reach before_read")?);
            }
            Pos::PartialHeader => {
                rawpeer::send_all(peer.as_raw_fd(), &spec::request(fe::SET_FEATURES, false, &spec::b_u64(0))[..5], &[]).map_err(|e| e.to_string())?;
            }
            Pos::BetweenHeaderAndBody => {
                rawpeer::send_all(peer.as_raw_fd(), &spec::request(fe::SET_FEATURES, false, &spec::b_u64(0))[..12], &[]).map_err(|e| e.to_string())?;
            }
            Pos::InsideHandler => {
                let cl = RawClient::new(peer.try_clone().unwrap());
                cl.negotiate(|f| f, |p| p).map_err(|e| e.to_string())?;
                fx.be.block_set_config.store(true, Ordering::SeqCst);
                cl.send(fe::SET_CONFIG, true, &spec::b_config(0x100, 4, 0, &[1, 2, 3, 4]), &[]).map_err(|e| e.to_string())?;
                let t0 = Instant::now();
                while !fx.be.in_set_config.load(Ordering::SeqCst) {
                    if out_of_time(t0) {
                        return Err("request did not reach the back end's set_config".into());
                    }
                    std::thread::yield_now();
                }
            }
            Pos::HoldAfterRequest => {
                rawpeer::send_all(peer.as_raw_fd(), &spec::request(fe::GET_FEATURES, false, &[]), &[]).map_err(|e| e.to_string())?;
                parked_daemon = Some(sched.wait_parked(|p| p.name == "daemon.after_request", BOUND).ok_or("daemon thread did not reach after_request")?);
            }
            Pos::ReplyWriteBlocked => {
                let cl = RawClient::new(peer.try_clone().unwrap());
                cl.negotiate(|f| f, |p| p).map_err(|e| e.to_string())?;
                peer.set_nonblocking(true).map_err(|e| e.to_string())?;
                // flood with GET_CONFIG (4 KiB replies) without reading: the daemon thread ends up blocked in sendmsg
                let req = spec::request(fe::GET_CONFIG, false, &spec::b_config(0, 4084, 0, &vec![0u8; 4084]));
                let tid = daemon_tid();
                let t0 = Instant::now();
                loop {
                    match rawpeer::send_with_fds(peer.as_raw_fd(), &req, &[]) {
                        Ok(_) => {}
                        Err(e) if e.kind() == std::io::ErrorKind::WouldBlock => {
                            if tid.map(|t| crate::sched::asleep(t, 10)).unwrap_or(true) {
                                break;
                            }
                        }
                        Err(e) => return Err(format!("flood: {e}")),
                    }
                    if out_of_time(t0) {
                        return Err("could not fill the reply path".into());
                    }
                }
                peer.set_nonblocking(false).map_err(|e| e.to_string())?;
                ctx.class("reply_path_filled");
            }
            Pos::AfterPeerGone | Pos::HoldBeforeFinalShutdown => {}
        }
        // peers that go away before the request
        let mut peer = Some(peer);
        if matches!(c.pos, Pos::AfterPeerGone | Pos::HoldBeforeFinalShutdown) {
            peer.take(); // close: the daemon thread sees Disconnected and leaves its loop
            if c.pos == Pos::HoldBeforeFinalShutdown {
                parked_daemon = Some(sched.wait_parked(|p| p.name == "daemon.before_final_shutdown", BOUND).ok_or("daemon thread did not reach before_final_shutdown")?);
            } else {
                // wait until the thread has really gone
                let t0 = Instant::now();
                while daemon_tid().is_some() && t0.elapsed() < BOUND {
                    std::thread::sleep(Duration::from_micros(200));
                }
            }
        }

        // the shutdown request(s)
        let mut parked_caller = None;
        let mut early_wait = None;
        let start_wait = |fx: &mut Fx<V>| -> Result<std::thread::JoinHandle<(crate::daemon_fx::DaemonAny<V>, Result<(), String>)>, String> {
            let mut d = fx.daemon.take().unwrap();
            std::thread::Builder::new()
                .name("c16_waiter".into())
                .spawn(move || {
                    let r = d.wait().map_err(|e| format!("{e:?}"));
                    (d, r)
                })
                .map_err(|e| e.to_string())
        };
        if c.between == Between::WaitFirst {
            let h = start_wait(&mut fx)?;
            // let it block in join (quiescence probe on the waiter thread)
            let t0 = Instant::now();
            while !h.is_finished() && t0.elapsed() < Duration::from_millis(200) {
                if let Some((_, _)) = thread_states().iter().find(|(st, n)| n == "c16_waiter" && *st == 'S') {
                    break;
                }
                std::thread::yield_now();
            }
            early_wait = Some(h);
        }
        if !matches!(c.between, Between::None | Between::WaitFirst) {
            sched.arm("shutdown.between", "c16_caller");
            let h = handle.clone();
            std::thread::Builder::new().name("c16_caller0".into()).spawn(move || h.shutdown()).map_err(|e| e.to_string())?;
            parked_caller = Some(sched.wait_parked(|p| p.name == "shutdown.between", BOUND).ok_or("caller did not reach shutdown.between")?);
            sched.disarm("shutdown.between");
            match c.between {
                Between::PeerClose => {
                    peer.take();
                }
                Between::DaemonError => {
                    if let Some(p) = &peer {
                        // a gated request without negotiation: the daemon thread stops with an error
                        let _ = rawpeer::send_all(p.as_raw_fd(), &spec::request(fe::GET_QUEUE_NUM, false, &[]), &[]);
                    }
                }
                Between::SecondCaller => {
                    let h = handle.clone();
                    bounded("second shutdown caller", move || h.shutdown())?;
                }
                Between::SecondCallerThenWait => {
                    let h = handle.clone();
                    bounded("second shutdown caller", move || h.shutdown())?;
                    // the second caller's request is complete: a following wait() returns although the first caller is
                    // still stalled between setting the flag and shutting the socket down.  (Stalls of the daemon thread
                    // that the harness itself imposed for the position are lifted first; only the caller stays parked.)
                    for name in ["daemon.before_read", "daemon.after_request", "daemon.before_final_shutdown"] {
                        sched.disarm(name);
                    }
                    if let Some(p) = parked_daemon.take() {
                        sched.release(p.id);
                    }
                    for p in sched.parked().into_iter().filter(|p| p.name.starts_with("daemon.")) {
                        sched.release(p.id);
                    }
                    fx.be.block_set_config.store(false, Ordering::SeqCst);
                    let h = start_wait(&mut fx)?;
                    let t0 = Instant::now();
                    while !h.is_finished() {
                        if out_of_time(t0) {
                            return Err(format!("wait() following the completed shutdown request of a second caller did not return within {}s while the first caller is stalled between its two steps", BOUND.as_secs()));
                        }
                        std::thread::sleep(Duration::from_micros(200));
                    }
                    early_wait = Some(h);
                }
                Between::WaitMeanwhile => {
                    let h = start_wait(&mut fx)?;
                    let t0 = Instant::now();
                    while !h.is_finished() && t0.elapsed() < Duration::from_millis(200) {
                        if thread_states().iter().any(|(st, n)| n == "c16_waiter" && *st == 'S') {
                            break;
                        }
                        std::thread::yield_now();
                    }
                    early_wait = Some(h);
                }
                Between::None | Between::WaitFirst => {}
            }
        }
        let ncall = c.callers.clamp(1, 3) as usize - if !matches!(c.between, Between::None | Between::WaitFirst) { 1 } else { 0 };
        if c.concurrent {
            let mut hs = Vec::new();
            for k in 0..ncall {
                let h = handle.clone();
                hs.push(std::thread::Builder::new().name(format!("c16_conc{k}")).spawn(move || h.shutdown()).map_err(|e| e.to_string())?);
            }
            let t0 = Instant::now();
            for h in hs {
                while !h.is_finished() {
                    if out_of_time(t0) {
                        return Err("concurrent shutdown() call did not return".into());
                    }
                    std::thread::yield_now();
                }
                let _ = h.join();
            }
        } else {
            for _ in 0..ncall {
                if c.via_daemon && fx.daemon.is_some() {
                    fx.daemon.as_ref().unwrap().request_shutdown();
                    ctx.class("request_via_daemon_object");
                    continue;
                }
                let h = handle.clone();
                bounded("shutdown()", move || h.shutdown())?;
            }
        }
        // let parked parties go on
        if let Some(p) = parked_caller {
            sched.release(p.id);
        }
        if let Some(p) = parked_daemon {
            sched.disarm_all();
            sched.release(p.id);
        }
        sched.disarm_all();
        sched.release_all();
        fx.be.block_set_config.store(false, Ordering::SeqCst);

        // wait() must succeed in bounded time
        let (d, r) = match early_wait {
            Some(h) => {
                let t0 = Instant::now();
                while !h.is_finished() {
                    if out_of_time(t0) {
                        return Err(format!("wait() overlapping a shutdown request did not return within {}s; threads: {:?}", BOUND.as_secs(), thread_states()));
                    }
                    std::thread::sleep(Duration::from_micros(200));
                }
                h.join().map_err(|_| "wait panicked".to_string())?
            }
            None => {
                let mut d = fx.daemon.take().unwrap();
                bounded("wait() after a shutdown request", move || {
                    let r = d.wait().map_err(|e| format!("{e:?}"));
                    (d, r)
                })?
            }
        };
        fx.daemon = Some(d);
        if let Err(e) = r {
            return Err(format!("wait() after a shutdown request returned Err({e})"));
        }
        if let Some(p) = &peer {
            peer_sees_eof(p)?;
        }
        drop(peer);
        restart_works(&mut fx)?;
        Ok(())
    })();
    sched.uninstall();
    fx.be.block_set_config.store(false, Ordering::SeqCst);
    let nontrivial = !matches!(c.pos, Pos::Idle | Pos::AfterPeerGone) || c.between != Between::None || c.callers > 1;
    if nontrivial {
        ctx.nontrivial(c);
    }
    ctx.class(&format!("pos_{:?}", c.pos));
    ctx.sample(|| json!({"shutdown_case": c}));
    let td = fx.teardown_checked(10);
    res?;
    td
}

pub fn run_shut(ctx: &mut Ctx, c: &ShutCase) -> Result<(), String> {
    if c.rwlock {
        run_shut_generic::<VRw>(ctx, c)
    } else {
        run_shut_generic::<VMutex>(ctx, c)
    }
}

pub fn request_bytes(code: u32) -> (Vec<u8>, bool) {
    // (message, has a reply without NEED_REPLY)
    match code {
        fe::GET_FEATURES => (spec::request(code, false, &[]), true),
        fe::SET_OWNER => (spec::request(code, false, &[]), false),
        fe::SET_FEATURES => (spec::request(code, false, &spec::b_u64(1 << 32)), false),
        fe::SET_VRING_NUM => (spec::request(code, false, &spec::b_vring_state(0, 64)), false),
        fe::GET_VRING_BASE => (spec::request(code, false, &spec::b_vring_state(0, 0)), true),
        fe::SET_VRING_ADDR => (spec::request(code, false, &spec::b_vring_addr(0, 0, 0x1000, 0x2000, 0x3000, 0)), false),
        fe::GET_PROTOCOL_FEATURES => (spec::request(code, false, &[]), true),
        fe::SET_PROTOCOL_FEATURES => (spec::request(code, false, &spec::b_u64(0x8)), false),
        _ => (spec::request(fe::SET_OWNER, false, &[]), false),
    }
}

fn run_cut_generic<V: VringT<GM> + Clone + Send + Sync + 'static>(ctx: &mut Ctx, c: &CutCase) -> Result<(), String> {
    let (msg, has_reply) = request_bytes(c.code);
    let cut = c.cut.min(msg.len());
    let base_threads = thread_states().len();
    let mut fx: Fx<V> = Fx::new(BeCfg { num_queues: 2, queues_per_thread: vec![1, 2], ..Default::default() })?;
    let res = (|| -> Result<(), String> {
        if c.serve {
            let path = sock_path();
            let mut d = fx.daemon.take().unwrap();
            let p2 = path.clone();
            let h = std::thread::Builder::new().name("c16_serve".into()).spawn(move || {
                let r = d.serve(&p2).map_err(|e| format!("{e:?}"));
                (d, r)
            }).map_err(|e| e.to_string())?;
            // connect as soon as the listener exists
            let t0 = Instant::now();
            let peer = loop {
                match UnixStream::connect(&path) {
                    Ok(s) => break s,
                    Err(_) if t0.elapsed() < BOUND => std::thread::sleep(Duration::from_micros(200)),
                    Err(e) => return Err(format!("cannot connect to serve(): {e}")),
                }
            };
            if cut > 0 {
                rawpeer::send_all(peer.as_raw_fd(), &msg[..cut], &[]).map_err(|e| e.to_string())?;
            }
            drop(peer);
            let t0 = Instant::now();
            while !h.is_finished() {
                if out_of_time(t0) {
                    return Err(format!("serve() did not return within {}s after the peer closed", BOUND.as_secs()));
                }
                std::thread::sleep(Duration::from_micros(200));
            }
            let (d, r) = h.join().map_err(|_| "serve panicked".to_string())?;
            fx.daemon = Some(d);
            let _ = std::fs::remove_file(&path);
            if cut < 12 {
                if let Err(e) = &r {
                    return Err(format!("serve(): peer closed {} -> Err({e}), clean and partial-header disconnects must map to success", if cut == 0 { "at a message boundary".to_string() } else { format!("after {cut} header bytes") }));
                }
            }
            // every worker's exit event raised: the workers end although the daemon object is still alive
            let t0 = Instant::now();
            loop {
                let workers = thread_states().iter().filter(|(_, n)| n == "vring_worker").count();
                // other (leaked) fixtures do not exist in this process at this point
                if workers == 0 {
                    break;
                }
                if out_of_time(t0) {
                    return Err(format!("after serve() returned, {workers} worker threads are still running: exit events were not raised"));
                }
                std::thread::sleep(Duration::from_micros(500));
            }
            ctx.class(if r.is_ok() { "serve_ok" } else { "serve_err" });
        } else {
            fx.connect()?;
            let peer = fx.peer.take().unwrap();
            if cut > 0 {
                rawpeer::send_all(peer.as_raw_fd(), &msg[..cut], &[]).map_err(|e| e.to_string())?;
            }
            if c.half_close {
                let _ = peer.shutdown(std::net::Shutdown::Write);
                ctx.class("peer_half_close");
                peer_sees_eof(&peer).map_err(|e| format!("peer shut down its sending side after {cut} of {} request bytes and keeps reading: {e}", msg.len()))?;
            }
            drop(peer);
            let mut d = fx.daemon.take().unwrap();
            let (d, r) = bounded("wait() after the peer closed", move || {
                let r = d.wait().map_err(|e| format!("{e:?}"));
                (d, r)
            })?;
            fx.daemon = Some(d);
            let must_err = cut < msg.len() || !has_reply;
            if must_err && r.is_ok() {
                return Err(format!(
                    "wait() without a shutdown request returned Ok although the peer disconnected {}",
                    if cut == 0 { "before sending anything".to_string() } else if cut < msg.len() { format!("after {cut} of {} bytes of a request", msg.len()) } else { "after a complete request without reply".into() }
                ));
            }
            // a stream that ends inside a message is not a clean disconnect (the daemon is a receiver too)
            if let Err(e) = &r {
                if cut > 0 && cut < msg.len() && e.contains("Disconnected") {
                    return Err(format!("the peer closed after {cut} of {} bytes of a request and wait() reports a clean disconnect: {e}", msg.len()));
                }
            }
            ctx.class(if r.is_ok() { "wait_ok" } else { "wait_err" });
            restart_works(&mut fx)?;
        }
        Ok(())
    })();
    if cut > 0 && cut < msg.len() {
        ctx.nontrivial(c);
    }
    ctx.sample(|| json!({"cut_case": c, "request_len": msg.len()}));
    let td = fx.teardown_checked(10);
    res?;
    td?;
    // dropping the daemon terminates the workers
    let t0 = Instant::now();
    while thread_states().len() > base_threads && !out_of_time(t0) {
        std::thread::sleep(Duration::from_micros(500));
    }
    if thread_states().len() > base_threads {
        return Err(format!("after dropping the daemon {} threads remain (before: {base_threads})", thread_states().len()));
    }
    Ok(())
}

pub fn run_cut(ctx: &mut Ctx, c: &CutCase) -> Result<(), String> {
    if c.rwlock {
        run_cut_generic::<VRw>(ctx, c)
    } else {
        run_cut_generic::<VMutex>(ctx, c)
    }
}

/// daemon stops because of a request error: the peer must observe end-of-stream
#[derive(Serialize, Deserialize, Debug, Clone, Hash, PartialEq, Eq)]
pub struct ErrCase {
    pub kind: u8,
}

pub fn run_err(ctx: &mut Ctx, c: &ErrCase) -> Result<(), String> {
    let mut fx: Fx<VRw> = Fx::new(BeCfg { num_queues: 2, ..Default::default() })?;
    fx.connect()?;
    let peer = fx.peer.take().unwrap();
    let bad = match c.kind % 5 {
        0 => spec::request(fe::GET_QUEUE_NUM, false, &[]),                     // gate closed
        1 => spec::request(fe::SET_VRING_NUM, true, &spec::b_vring_state(9, 8)), // index out of range
        2 => spec::msg(fe::SET_OWNER, 0x2, &[]),                                // wrong version
        3 => spec::request(fe::SET_STATUS, false, &spec::b_u64(0)),             // not implemented
        _ => spec::request(fe::SET_VRING_ADDR, false, &spec::b_vring_addr(0, 0, 0x1000, 0x2000, 0x3000, 0)), // no memory table
    };
    rawpeer::send_all(peer.as_raw_fd(), &bad, &[]).map_err(|e| e.to_string())?;
    let r = peer_sees_eof(&peer).map_err(|e| format!("daemon stopped serving after request error kind {}: {e}", c.kind % 5));
    ctx.nontrivial(c);
    ctx.class("request_error");
    drop(peer);
    let mut d = fx.daemon.take().unwrap();
    let (d, _) = bounded("wait() after a request error", move || {
        let r = d.wait().map_err(|e| format!("{e:?}"));
        (d, r)
    })?;
    fx.daemon = Some(d);
    r?;
    restart_works(&mut fx)?;
    fx.teardown_checked(10)
}

/// dropping the daemon (no wait, no shutdown request, peer still connected) ends all its threads
#[derive(Serialize, Deserialize, Debug, Clone, Hash, PartialEq, Eq)]
pub struct DropCase {
    pub mid_message: bool,
    pub workers: u8,
    pub rwlock: bool,
    /// a custom event source of worker 0 became ready before the drop and the device's handler fails for it
    /// every time without consuming it
    #[serde(default)]
    pub failing_source: bool,
}

fn run_drop_generic<V: VringT<GM> + Clone + Send + Sync + 'static>(ctx: &mut Ctx, c: &DropCase) -> Result<(), String> {
    let base_threads = thread_states().len();
    let masks: Vec<u64> = (0..c.workers.max(1)).map(|t| 1u64 << t).collect();
    let mut fx: Fx<V> = Fx::new(BeCfg { num_queues: 3, queues_per_thread: masks, ..Default::default() })?;
    fx.connect()?;
    let peer = fx.peer.take().unwrap();
    if c.mid_message {
        rawpeer::send_all(peer.as_raw_fd(), &spec::request(fe::SET_FEATURES, false, &spec::b_u64(0))[..14], &[]).map_err(|e| e.to_string())?;
    }
    let failing = new_eventfd();
    if c.failing_source {
        let id = fx.be.barrier_id() + 1;
        let before = fx.be.handle_event_calls.load(std::sync::atomic::Ordering::SeqCst);
        fx.be.fail_event_id.store(id, std::sync::atomic::Ordering::SeqCst);
        fx.daemon.as_ref().unwrap().register_listener(0, failing.as_raw_fd(), id).map_err(|e| format!("register_listener({id}): {e}"))?;
        failing.write(1).map_err(|e| e.to_string())?;
        // the handler has failed at least once before the daemon is dropped
        let t0 = Instant::now();
        while fx.be.handle_event_calls.load(std::sync::atomic::Ordering::SeqCst) == before && t0.elapsed() < BOUND {
            std::thread::sleep(Duration::from_micros(200));
        }
        ctx.class("drop_with_failing_event_source");
    }
    let d = fx.daemon.take().unwrap();
    bounded(if c.failing_source { "drop(daemon) with an event source whose handler keeps failing" } else { "drop(daemon)" }, move || drop(d))?;
    let t0 = Instant::now();
    let mut left;
    loop {
        left = thread_states();
        if left.len() <= base_threads {
            // /proc/self/task is not a snapshot: a listing taken while threads come and go can miss one.  Believe
            // "all gone" only if a second listing agrees.
            std::thread::sleep(Duration::from_millis(1));
            left = thread_states();
            if left.len() <= base_threads {
                break;
            }
            ctx.class("thread_listing_transiently_short");
            if std::env::var("VERIF_DEBUG_C16").is_ok() {
                eprintln!("C16DEBUG transient short listing, now {left:?}");
            }
        }
        if out_of_time(t0) {
            break;
        }
        std::thread::sleep(Duration::from_micros(500));
    }
    ctx.nontrivial(c);
    ctx.class("drop_while_connected");
    if left.len() > base_threads {
        // the leaked daemon thread would block later scenarios' thread accounting: stop here
        ctx.fatal_violation(
            format!("after dropping a connected daemon (peer idle{}), {} threads remain (before: {base_threads}): {:?}", if c.mid_message { ", mid-message" } else { "" }, left.len(), left),
            c,
        );
    }
    peer_sees_eof(&peer)?;
    Ok(())
}

pub fn run_drop(ctx: &mut Ctx, c: &DropCase) -> Result<(), String> {
    if c.rwlock {
        run_drop_generic::<VRw>(ctx, c)
    } else {
        run_drop_generic::<VMutex>(ctx, c)
    }
}

pub fn run(ctx: &mut Ctx) {
    ctx.rule = "enumeration of shutdown scenarios: 9 positions of the request relative to the daemon thread (3 of them pinned with hold points) x \
                callers 1..=3 (sequential / concurrent) x event interleaved between the two steps of a shutdown request {none, peer close, daemon \
                request error, second caller} x vring kind x 1..=3 workers (sampled by rotation); peer close at every byte offset 0..=len of 8 \
                request kinds for wait() and serve(); 5 kinds of request errors; every scenario ends with a restart on a new connection and a \
                drop whose completion and thread count are checked. Non-trivial = the shutdown lands strictly inside request processing or \
                races with another event; a cut strictly inside a message. Distinct scenarios."
        .into();
    ctx.assumptions = vec![
        "bounded time is judged with a 10 s limit per blocking call on an otherwise idle process (normal completion is sub-millisecond)".into(),
        "peer close exactly after a complete request that has a reply: wait() may be Ok (EPIPE) or Err, not asserted".into(),
        "serve(): result for a cut inside the body is not asserted (the statement names clean and partial-header disconnects)".into(),
    ];
    ctx.exhaustive = Some(true);
    let poss = [
        Pos::Idle,
        Pos::HoldBeforeRead,
        Pos::PartialHeader,
        Pos::BetweenHeaderAndBody,
        Pos::InsideHandler,
        Pos::HoldAfterRequest,
        Pos::ReplyWriteBlocked,
        Pos::AfterPeerGone,
        Pos::HoldBeforeFinalShutdown,
    ];
    let mut space = Vec::new();
    let mut k = 0u32;
    for pos in poss {
        for callers in 1..=3u8 {
            for concurrent in [false, true] {
                if callers == 1 && concurrent {
                    continue;
                }
                for between in [Between::None, Between::PeerClose, Between::DaemonError, Between::SecondCaller, Between::SecondCallerThenWait, Between::WaitMeanwhile, Between::WaitFirst] {
                    // events that need a live peer make no sense once the peer is gone
                    if matches!(pos, Pos::AfterPeerGone | Pos::HoldBeforeFinalShutdown) && matches!(between, Between::PeerClose | Between::DaemonError) {
                        continue;
                    }
                    // a wait() that starts before the request only overlaps it while the daemon thread is alive
                    if pos == Pos::AfterPeerGone && between == Between::WaitFirst {
                        continue;
                    }
                    // a daemon parked at a hold point / blocked cannot produce a request error meanwhile
                    if between == Between::DaemonError && !matches!(pos, Pos::Idle) {
                        continue;
                    }
                    k += 1;
                    space.push(ShutCase { pos, callers, concurrent, between, rwlock: k % 2 == 0, workers: (k % 3) as u8 + 1, via_daemon: false });
                    if between == Between::None && !concurrent {
                        space.push(ShutCase { pos, callers, concurrent, between, rwlock: k % 2 == 1, workers: (k % 3) as u8 + 1, via_daemon: true });
                    }
                }
            }
        }
    }
    let reps = ctx.tier.pick(5usize, 400usize);
    let space: Vec<ShutCase> = (0..reps).flat_map(|r| space.iter().map(move |c| ShutCase { rwlock: (c.rwlock as usize + r) % 2 == 0, workers: ((c.workers as usize + r) % 3) as u8 + 1, ..*c })).collect();
    ctx.extra.insert("shutdown_scenarios".into(), json!(space.len()));
    ctx.enumerate("shutdown_positions", space, |ctx, c| run_shut(ctx, c));

    let mut cuts = Vec::new();
    let codes = [fe::GET_FEATURES, fe::SET_OWNER, fe::SET_FEATURES, fe::SET_VRING_NUM, fe::GET_VRING_BASE, fe::SET_VRING_ADDR, fe::GET_PROTOCOL_FEATURES, fe::SET_PROTOCOL_FEATURES];
    for (ci, code) in codes.iter().enumerate() {
        let len = request_bytes(*code).0.len();
        for cut in 0..=len {
            for serve in [false, true] {
                if serve && ctx.tier == crate::engine::Tier::Quick && ci >= 3 {
                    continue;
                }
                cuts.push(CutCase { code: *code, cut, serve, rwlock: (cut + ci) % 2 == 0, half_close: false });
                if !serve {
                    cuts.push(CutCase { code: *code, cut, serve, rwlock: (cut + ci) % 2 == 1, half_close: true });
                }
            }
        }
    }
    ctx.extra.insert("cut_scenarios".into(), json!(cuts.len()));
    ctx.enumerate("peer_close_at_every_offset", cuts, |ctx, c| run_cut(ctx, c));

    ctx.enumerate("request_errors", (0..5u8).map(|kind| ErrCase { kind }), |ctx, c| run_err(ctx, c));

    let drops: Vec<DropCase> = (0..24u8).map(|k| DropCase { mid_message: k % 2 == 1, workers: k % 3 + 1, rwlock: k % 4 < 2, failing_source: k >= 12 }).collect();
    ctx.enumerate("drop_while_connected", drops, |ctx, c| run_drop(ctx, c));
}
