//! C07 — feature-dependent operations are impossible before the feature is negotiated.
//!
//! G: exhaustive: all 2^10 acknowledged subsets of the gating protocol-feature bits (2^11 with
//!    PAGEFAULT in the postcopy build) x {PROTOCOL_FEATURES offered / acknowledged or not} x every
//!    gated operation, on the front-end endpoint (raw peer counts bytes) and on the back-end
//!    request server (raw peer sends the negotiation that acknowledges exactly the subset, then the
//!    gated request); the three Backend-proxy flags x 5 requests; all negotiation orders up to
//!    length 4 (incl. acknowledging and un-acknowledging a bit) followed by a gated operation.
//! O: one-directional as the statement: bit not acknowledged at that point => Err and nothing on
//!    the wire (front end) / Err and handler not invoked (back end).  REPLY_ACK is always offered.

use std::os::unix::io::AsRawFd;
use std::os::unix::net::UnixStream;

use proptest::prelude::*;
use serde::{Deserialize, Serialize};
use serde_json::json;
use vhost::vhost_user::message::{VhostUserMMap, VhostUserSharedMsg};
use vhost::vhost_user::{Backend, VhostUserFrontendReqHandler};

use crate::engine::Ctx;
use crate::feops::{make_lent, perform, FeOp, FeState, Reg};
use crate::fdtrack::FdKind;
use crate::rawpeer;
use crate::rec_backend::Rec;
use crate::spec::{self, fe, pf, Gate};
use crate::srv::{fresh_fds, run_stream, Chunk, Res};

pub fn gating_bits() -> Vec<u32> {
    let mut v = vec![pf::MQ, pf::LOG_SHMFD, pf::BACKEND_REQ, pf::CONFIG, pf::INFLIGHT_SHMFD, pf::RESET_DEVICE, pf::CONFIGURE_MEM_SLOTS, pf::SHARED_OBJECT, pf::DEVICE_STATE, pf::SHMEM];
    if cfg!(feature = "postcopy") {
        v.push(pf::PAGEFAULT);
    }
    v
}

fn subset_mask(bits: &[u32], idx: u32) -> u64 {
    bits.iter().enumerate().filter(|(i, _)| idx >> i & 1 == 1).map(|(_, b)| 1u64 << b).sum()
}

fn reg() -> Reg {
    Reg { f: [0x1000, 0x2000, 0x7000_0000, 0], kind: FdKind::Memfd, share: false }
}

/// every gated front-end operation with its gating bit
pub fn gated_fe_ops() -> Vec<(FeOp, Option<u32>)> {
    let mut v = vec![
        (FeOp::GetQueueNum, Some(pf::MQ)),
        (FeOp::SetLogBase { base: 0x1000, region: Some((0x1000, 0)) }, Some(pf::LOG_SHMFD)),
        (FeOp::SetBackendReqFd, Some(pf::BACKEND_REQ)),
        (FeOp::GetConfig { off: 0x100, size: 8, flags: 0 }, Some(pf::CONFIG)),
        (FeOp::SetConfig { off: 0x100, flags: 1, buf: vec![1, 2, 3, 4] }, Some(pf::CONFIG)),
        (FeOp::GetInflightFd([0x1000, 0], 2, 64), Some(pf::INFLIGHT_SHMFD)),
        (FeOp::SetInflightFd([0x1000, 0], 2, 64), Some(pf::INFLIGHT_SHMFD)),
        (FeOp::ResetDevice, Some(pf::RESET_DEVICE)),
        (FeOp::GetMaxMemSlots, Some(pf::CONFIGURE_MEM_SLOTS)),
        (FeOp::AddMemRegion(reg()), Some(pf::CONFIGURE_MEM_SLOTS)),
        (FeOp::RemoveMemRegion(reg()), Some(pf::CONFIGURE_MEM_SLOTS)),
        (FeOp::GetSharedObject([7; 16]), Some(pf::SHARED_OBJECT)),
        (FeOp::SetDeviceStateFd(0), Some(pf::DEVICE_STATE)),
        (FeOp::CheckDeviceState, Some(pf::DEVICE_STATE)),
        (FeOp::GetShmemConfig, Some(pf::SHMEM)),
        // gated by VHOST_USER_F_PROTOCOL_FEATURES
        (FeOp::GetProtocolFeatures, None),
        (FeOp::SetProtocolFeatures(0x3f_ffff), None),
        (FeOp::SetVringEnable(0, true), None),
    ];
    if cfg!(feature = "postcopy") {
        v.push((FeOp::PostcopyAdvise, Some(pf::PAGEFAULT)));
        v.push((FeOp::PostcopyListen, Some(pf::PAGEFAULT)));
        v.push((FeOp::PostcopyEnd, Some(pf::PAGEFAULT)));
    }
    v
}

#[derive(Serialize, Deserialize, Debug, Clone, Hash, PartialEq, Eq)]
pub struct FeGate {
    pub st: FeState,
    pub op_idx: usize,
}

/// is the operation's own gate closed in this state?
fn fe_gate_closed(op: &FeOp, bit: Option<u32>, st: &FeState) -> bool {
    match bit {
        Some(b) => st.acked_pf & (1 << b) == 0,
        None => match op {
            FeOp::SetVringEnable(..) => st.acked_vf & spec::VIRTIO_F_PROTOCOL_FEATURES == 0,
            _ => st.offered_vf & spec::VIRTIO_F_PROTOCOL_FEATURES == 0,
        },
    }
}

pub fn run_fe_gate(ctx: &mut Ctx, c: &FeGate) -> Result<(), String> {
    let ops = gated_fe_ops();
    let (op, bit) = &ops[c.op_idx % ops.len()];
    let closed = fe_gate_closed(op, *bit, &c.st);
    if !closed {
        ctx.class("fe_gate_open_no_claim");
        return Ok(());
    }
    let (mut f, peer) = super::c01::frontend_in_state(&c.st);
    let mut lent = make_lent(op);
    // an operation that wrongly goes out would wait for an answer: pre-queue one so the check cannot hang
    {
        let open = FeState { acked_pf: 0x3f_ffff, ..c.st.clone() };
        let fds = fresh_fds(1, FdKind::Memfd);
        let bytes = match crate::feops::reply_for(op, &open, &Default::default()) {
            Some((b, _, _)) => b,
            None => spec::reply(op.code(), &spec::b_u64(0)),
        };
        let _ = rawpeer::send_all(peer.as_raw_fd(), &bytes, &[fds[0].as_raw_fd()]);
    }
    let r = perform(&mut f, op, &mut lent);
    let (msgs, leftover) = rawpeer::drain_messages(peer.as_raw_fd()).map_err(|e| e.to_string())?;
    ctx.class("fe_gate_closed");
    if bit.map(|b| c.st.acked_pf & !(1u64 << b) != 0).unwrap_or(c.st.acked_pf != 0) {
        ctx.nontrivial(&("fe", c.op_idx, c.st.acked_pf, c.st.offered_vf >> 30 & 1, c.st.acked_vf >> 30 & 1));
    }
    let desc = format!("front end: {}({op:?}) with acknowledged protocol features {:#x}, offered virtio {:#x}, acknowledged virtio {:#x}", op.name(), c.st.acked_pf, c.st.offered_vf, c.st.acked_vf);
    if let FeOp::SetLogBase { .. } = op {
        // without LOG_SHMFD no SET_LOG_BASE carrying a descriptor or a log-region body may be written
        for m in &msgs {
            let (code, _, size) = spec::parse_hdr(&m.bytes);
            if code == fe::SET_LOG_BASE && (!m.fds_first.is_empty() || size == 16) {
                return Err(format!("{desc}: a SET_LOG_BASE with a log region / descriptor was written although LOG_SHMFD is not acknowledged"));
            }
        }
        return Ok(());
    }
    if r.is_ok() {
        return Err(format!("{desc}: the operation was not refused"));
    }
    if !msgs.is_empty() || !leftover.is_empty() {
        return Err(format!("{desc}: refused, but {} message(s) / {} bytes were written", msgs.len(), leftover.len()));
    }
    Ok(())
}

/// front-end negotiation order: a word of negotiation calls, then a gated operation
#[derive(Serialize, Deserialize, Debug, Clone, Hash, PartialEq, Eq)]
pub struct FeOrder {
    /// 0: get_features answered with PROTOCOL_FEATURES, 1: answered without, 2: set_features with the bit,
    /// 3: set_features without, 4: set_protocol_features(all), 5: set_protocol_features(none),
    /// 6: get_protocol_features answered with every bit
    pub word: Vec<u8>,
    pub op_idx: usize,
}

pub fn run_fe_order(ctx: &mut Ctx, c: &FeOrder) -> Result<(), String> {
    let (ours, theirs) = UnixStream::pair().map_err(|e| e.to_string())?;
    let mut f = vhost::vhost_user::Frontend::from_stream(theirs, 4);
    let mut st = FeState { max_queue: 4, ..Default::default() };
    let vf = spec::VIRTIO_F_PROTOCOL_FEATURES | 1 << 32;
    for w in &c.word {
        let (op, reply) = match w % 7 {
            0 => (FeOp::GetFeatures, Some(vf)),
            1 => (FeOp::GetFeatures, Some(1u64 << 32)),
            2 => (FeOp::SetFeatures(vf), None),
            3 => (FeOp::SetFeatures(1 << 32), None),
            4 => (FeOp::SetProtocolFeatures(0x3f_ffff), None),
            5 => (FeOp::SetProtocolFeatures(0), None),
            // the back end offers every protocol feature; nothing is acknowledged by asking
            _ => (FeOp::GetProtocolFeatures, Some(0x3f_ffff)),
        };
        if crate::feops::locally_rejected(&op, &st) {
            // the exchange itself is refused until PROTOCOL_FEATURES was offered: must not touch the wire
            let mut lent = make_lent(&op);
            let r = perform(&mut f, &op, &mut lent);
            let n: usize = rawpeer::drain(ours.as_raw_fd(), 4096).map_err(|e| e.to_string())?.iter().map(|p| p.bytes.len()).sum();
            if r.is_ok() || n != 0 {
                return Err(format!("front end: {} before PROTOCOL_FEATURES was offered (history {:?}): result {r:?}, {n} bytes written", op.name(), c.word));
            }
            continue;
        }
        if let Some(v) = reply {
            rawpeer::send_all(ours.as_raw_fd(), &spec::reply(op.code(), &spec::b_u64(v)), &[]).map_err(|e| e.to_string())?;
        }
        let mut lent = make_lent(&op);
        perform(&mut f, &op, &mut lent).map_err(|e| format!("negotiation call {} failed: {e}", op.name()))?;
        st.apply(&op, reply);
        let _ = rawpeer::drain(ours.as_raw_fd(), 4096);
    }
    let ops = gated_fe_ops();
    let (op, bit) = &ops[c.op_idx % ops.len()];
    if !fe_gate_closed(op, *bit, &st) {
        ctx.class("fe_order_gate_open_no_claim");
        return Ok(());
    }
    let fds = fresh_fds(1, FdKind::Memfd);
    let open = FeState { acked_pf: 0x3f_ffff, ..st.clone() };
    let bytes = match crate::feops::reply_for(op, &open, &Default::default()) {
        Some((b, _, _)) => b,
        None => spec::reply(op.code(), &spec::b_u64(0)),
    };
    let _ = rawpeer::send_all(ours.as_raw_fd(), &bytes, &[fds[0].as_raw_fd()]);
    let mut lent = make_lent(op);
    let r = perform(&mut f, op, &mut lent);
    let (msgs, leftover) = rawpeer::drain_messages(ours.as_raw_fd()).map_err(|e| e.to_string())?;
    ctx.class("fe_order_gate_closed");
    if c.word.len() >= 2 {
        ctx.nontrivial(&("feord", &c.word, c.op_idx));
    }
    if let FeOp::SetLogBase { .. } = op {
        if msgs.iter().any(|m| !m.fds_first.is_empty() || spec::parse_hdr(&m.bytes).2 == 16) {
            return Err(format!("front end after {:?}: SET_LOG_BASE with a log region was written without LOG_SHMFD", c.word));
        }
        return Ok(());
    }
    if r.is_ok() || !msgs.is_empty() || !leftover.is_empty() {
        return Err(format!("front end after negotiation calls {:?} (state {st:?}): {}({op:?}) gave {r:?} and {} message(s) on the wire", c.word, op.name(), msgs.len()));
    }
    Ok(())
}

// ------------------------------------------------------------------ back-end request server

/// gated requests of the back-end server: (code, body, nfds, gate)
pub fn gated_be_reqs() -> Vec<(u32, Vec<u8>, usize, Gate)> {
    let mut v: Vec<(u32, Vec<u8>, usize, Gate)> = vec![
        (fe::GET_QUEUE_NUM, vec![], 0, Gate::Pf(pf::MQ)),
        (fe::SET_LOG_BASE, spec::b_log(0x1000, 0), 1, Gate::Pf(pf::LOG_SHMFD)),
        (fe::SET_BACKEND_REQ_FD, vec![], 1, Gate::Pf(pf::BACKEND_REQ)),
        (fe::GET_CONFIG, spec::b_config(0x100, 4, 0, &[0; 4]), 0, Gate::Pf(pf::CONFIG)),
        (fe::SET_CONFIG, spec::b_config(0x100, 4, 0, &[1, 2, 3, 4]), 0, Gate::Pf(pf::CONFIG)),
        (fe::GET_INFLIGHT_FD, spec::b_inflight(0x1000, 0, 2, 64), 0, Gate::Pf(pf::INFLIGHT_SHMFD)),
        (fe::SET_INFLIGHT_FD, spec::b_inflight(0x1000, 0, 2, 64), 1, Gate::Pf(pf::INFLIGHT_SHMFD)),
        (fe::RESET_DEVICE, vec![], 0, Gate::Pf(pf::RESET_DEVICE)),
        (fe::GET_MAX_MEM_SLOTS, vec![], 0, Gate::Pf(pf::CONFIGURE_MEM_SLOTS)),
        (fe::ADD_MEM_REG, spec::b_single_region(&[0x1000, 0x1000, 0x7000_0000, 0]), 1, Gate::Pf(pf::CONFIGURE_MEM_SLOTS)),
        (fe::REM_MEM_REG, spec::b_single_region(&[0x1000, 0x1000, 0x7000_0000, 0]), 0, Gate::Pf(pf::CONFIGURE_MEM_SLOTS)),
        (fe::GET_SHARED_OBJECT, vec![9; 16], 0, Gate::Pf(pf::SHARED_OBJECT)),
        (fe::GET_SHMEM_CONFIG, vec![], 0, Gate::Pf(pf::SHMEM)),
        (fe::SET_VRING_ENABLE, spec::b_vring_state(0, 1), 0, Gate::VirtioPf),
    ];
    if cfg!(feature = "postcopy") {
        v.push((fe::POSTCOPY_ADVISE, vec![], 0, Gate::Pf(pf::PAGEFAULT)));
        v.push((fe::POSTCOPY_LISTEN, vec![], 0, Gate::Pf(pf::PAGEFAULT)));
        v.push((fe::POSTCOPY_END, vec![], 0, Gate::Pf(pf::PAGEFAULT)));
    }
    v
}

/// a negotiation message of the raw peer
#[derive(Serialize, Deserialize, Debug, Clone, Copy, Hash, PartialEq, Eq)]
pub enum NegMsg {
    GetFeatures,
    SetFeatures(u64),
    GetProtocolFeatures,
    SetProtocolFeatures(u64),
}

#[derive(Serialize, Deserialize, Debug, Clone, Hash, PartialEq, Eq)]
pub struct BeGate {
    pub dev_features: u64,
    pub history: Vec<NegMsg>,
    pub req_idx: usize,
    /// the gated request carries NEED_REPLY
    #[serde(default)]
    pub need_reply: bool,
}

pub fn run_be_gate(ctx: &mut Ctx, c: &BeGate) -> Result<(), String> {
    let reqs = gated_be_reqs();
    let (code, body, nfds, gate) = reqs[c.req_idx % reqs.len()].clone();
    // what has been acknowledged at the point of the gated request
    let mut acked_pf = 0u64;
    let mut acked_vf = 0u64;
    let mut chunks = Vec::new();
    for m in &c.history {
        let bytes = match m {
            NegMsg::GetFeatures => spec::request(fe::GET_FEATURES, false, &[]),
            NegMsg::SetFeatures(v) => {
                acked_vf = *v;
                spec::request(fe::SET_FEATURES, false, &spec::b_u64(*v))
            }
            NegMsg::GetProtocolFeatures => spec::request(fe::GET_PROTOCOL_FEATURES, false, &[]),
            NegMsg::SetProtocolFeatures(v) => {
                acked_pf = *v;
                spec::request(fe::SET_PROTOCOL_FEATURES, false, &spec::b_u64(*v))
            }
        };
        chunks.push(Chunk { bytes, fds: vec![] });
    }
    let closed = match gate {
        Gate::Pf(b) => acked_pf & (1 << b) == 0,
        Gate::VirtioPf => acked_vf & spec::VIRTIO_F_PROTOCOL_FEATURES == 0,
        Gate::None => false,
    };
    if !closed {
        ctx.class("be_gate_open_no_claim");
        return Ok(());
    }
    chunks.push(Chunk { bytes: spec::request(code, c.need_reply, &body), fds: fresh_fds(nfds, FdKind::Memfd) });
    let nh = c.history.len();
    let mut rec = Rec::new(c.dev_features, 0x3f_ffff);
    rec.hold_files = false;
    let run = run_stream(rec, chunks, nh + 3);
    ctx.class("be_gate_closed");
    let other_bits = match gate {
        Gate::Pf(b) => acked_pf & !(1u64 << b) != 0,
        _ => acked_pf != 0,
    };
    if other_bits || nh >= 3 {
        ctx.nontrivial(&("be", c.req_idx, acked_pf, acked_vf >> 30 & 1, &c.history));
    }
    let desc = format!("back-end server: request code {code}{} after negotiation {:?} (acknowledged protocol features {acked_pf:#x}, virtio {acked_vf:#x})", if c.need_reply { " with NEED_REPLY" } else { "" }, c.history);
    if run.results.iter().any(|r| matches!(r, Res::Panic(_))) {
        return Err(format!("{desc}: panic"));
    }
    match run.results.get(nh) {
        Some(Res::Err(_)) => {}
        other => return Err(format!("{desc}: the gated request was not rejected (result {other:?})")),
    }
    // the handler saw the negotiation messages only
    if run.log.len() != nh {
        return Err(format!("{desc}: the handler was invoked for the gated request: {:?}", run.log.iter().map(|c| c.name()).collect::<Vec<_>>()));
    }
    Ok(())
}

// ------------------------------------------------------------------ REPLY_ACK always offered

pub fn run_reply_ack_offered(ctx: &mut Ctx, dev_pf: &u64) -> Result<(), String> {
    let mut rec = Rec::new(spec::VIRTIO_F_PROTOCOL_FEATURES, *dev_pf & 0x3f_ffff);
    rec.hold_files = false;
    let run = run_stream(rec, vec![Chunk { bytes: spec::request(fe::GET_PROTOCOL_FEATURES, false, &[]), fds: vec![] }], 3);
    ctx.class("reply_ack_offer");
    ctx.nontrivial(&("ra", dev_pf & 0x3f_ffff));
    let m = run.out.first().ok_or("no reply to GET_PROTOCOL_FEATURES")?;
    let v = spec::rd_u64(&m.bytes, 12);
    if v & (1 << pf::REPLY_ACK) == 0 {
        return Err(format!("device offers protocol features {:#x}: GET_PROTOCOL_FEATURES reply {v:#x} lacks REPLY_ACK", dev_pf & 0x3f_ffff));
    }
    Ok(())
}

// ------------------------------------------------------------------ Backend proxy flags

#[derive(Serialize, Deserialize, Debug, Clone, Hash, PartialEq, Eq)]
pub struct ProxyGate {
    pub reply_ack: bool,
    pub shared_object: bool,
    pub shmem: bool,
    pub req: u8,
}

pub fn run_proxy_gate(ctx: &mut Ctx, c: &ProxyGate) -> Result<(), String> {
    let (peer, theirs) = UnixStream::pair().map_err(|e| e.to_string())?;
    let b = Backend::from_stream(theirs);
    b.set_reply_ack_flag(c.reply_ack);
    b.set_shared_object_flag(c.shared_object);
    b.set_shmem_flag(c.shmem);
    let needs_shared = c.req % 5 < 3;
    let enabled = if needs_shared { c.shared_object } else { c.shmem };
    if enabled {
        ctx.class("proxy_gate_open_no_claim");
        return Ok(());
    }
    let mut u = VhostUserSharedMsg::default();
    u.uuid = uuid::Uuid::from_bytes([3; 16]);
    let mm = VhostUserMMap { shmid: 0, padding: [0; 7], fd_offset: 0, shm_offset: 0, len: 0x1000, flags: 0 };
    let fd = crate::fdtrack::make_fd(FdKind::Memfd);
    // a wrongly sent request would wait for an ack: pre-queue one so that the check cannot hang
    let code = [spec::be::SHARED_OBJECT_ADD, spec::be::SHARED_OBJECT_REMOVE, spec::be::SHARED_OBJECT_LOOKUP, spec::be::SHMEM_MAP, spec::be::SHMEM_UNMAP][c.req as usize % 5];
    let _ = rawpeer::send_all(peer.as_raw_fd(), &spec::reply(code, &spec::b_u64(0)), &[]);
    let r = match c.req % 5 {
        0 => b.shared_object_add(&u),
        1 => b.shared_object_remove(&u),
        2 => b.shared_object_lookup(&u, &fd),
        3 => b.shmem_map(&mm, &fd),
        _ => b.shmem_unmap(&mm),
    };
    let pieces = rawpeer::drain(peer.as_raw_fd(), 4096).map_err(|e| e.to_string())?;
    let n: usize = pieces.iter().map(|p| p.bytes.len()).sum();
    ctx.class("proxy_gate_closed");
    ctx.nontrivial(c);
    if r.is_ok() || n != 0 {
        return Err(format!("Backend proxy request kind {} with flags {c:?}: result {:?}, {n} bytes written although the feature is not enabled", c.req % 5, r.map(|_| ())));
    }
    Ok(())
}

fn neg_words(depth: usize) -> Vec<Vec<NegMsg>> {
    let all = 0x3f_ffffu64;
    let alpha = [
        NegMsg::GetFeatures,
        NegMsg::SetFeatures(spec::VIRTIO_F_PROTOCOL_FEATURES | 1),
        NegMsg::SetFeatures(1),
        NegMsg::GetProtocolFeatures,
        NegMsg::SetProtocolFeatures(all),
        NegMsg::SetProtocolFeatures(0),
        NegMsg::SetProtocolFeatures(8),
    ];
    let mut out = vec![vec![]];
    let mut cur = vec![vec![]];
    for _ in 0..depth {
        let mut next = Vec::new();
        for w in &cur {
            for a in alpha {
                let mut x: Vec<NegMsg> = w.clone();
                x.push(a);
                next.push(x);
            }
        }
        out.extend(next.iter().cloned());
        cur = next;
    }
    out
}

pub fn run(ctx: &mut Ctx) {
    ctx.rule = "exhaustive: every acknowledged subset of the gating protocol-feature bits x PROTOCOL_FEATURES offered/acknowledged x every gated \
                operation, on the Frontend (raw peer counts bytes) and on the BackendReqHandler (raw peer negotiates exactly the subset, then sends \
                the gated request); every negotiation word up to length 4 over {GET_FEATURES, SET_FEATURES with/without PROTOCOL_FEATURES, \
                GET_PROTOCOL_FEATURES, SET_PROTOCOL_FEATURES all/none} followed by every gated request (incl. acknowledge-then-un-acknowledge); the \
                2^3 Backend proxy flag settings x 5 requests; GET_PROTOCOL_FEATURES for device feature sets. Only the refusing direction is \
                judged. Non-trivial = (subset, operation) pairs where the operation's own bit is clear while another gating bit is set, or a \
                negotiation history of length >= 3."
        .into();
    ctx.assumptions = vec!["the accepting direction (bit acknowledged => operation works) is C02's; here a set bit creates no obligation".into()];
    ctx.exhaustive = Some(true);
    let bits = gating_bits();
    let nops = gated_fe_ops().len();
    // front end: subsets x (offered, acked) x ops
    let mut fes = Vec::new();
    let gating_all: u64 = bits.iter().map(|b| 1u64 << b).sum();
    let nongating = 0x3f_ffff & !gating_all;
    for idx2 in 0..(2u32 << bits.len()) {
        let idx = idx2 >> 1;
        // every subset twice: alone, and with every non-gating protocol feature acknowledged as well
        let m = subset_mask(&bits, idx) | if idx2 & 1 == 1 { nongating } else { 0 };
        for (offered, acked) in [(false, false), (true, false), (true, true)] {
            let vf = spec::VIRTIO_F_PROTOCOL_FEATURES | 1 << 32;
            // a front end that was never offered PROTOCOL_FEATURES cannot have acknowledged protocol features
            let st = FeState { max_queue: 4, offered_vf: if offered { vf } else { 1 << 32 }, acked_vf: if acked { vf } else { 1 << 32 }, acked_pf: if offered { m } else { 0 }, need_reply: idx % 2 == 1 };
            for op_idx in 0..nops {
                fes.push(FeGate { st: st.clone(), op_idx });
            }
        }
    }
    ctx.extra.insert("frontend_cases".into(), json!(fes.len()));
    ctx.enumerate("frontend_subsets", fes, |ctx, c| {
        let r = run_fe_gate(ctx, c);
        if c.op_idx == 0 && c.st.acked_pf % 37 == 0 {
            ctx.sample(|| json!({"endpoint": "frontend", "state": c.st, "op": gated_fe_ops()[c.op_idx].0.name()}));
        }
        r
    });

    // front end: negotiation orders
    let mut words: Vec<Vec<u8>> = vec![vec![]];
    let mut cur: Vec<Vec<u8>> = vec![vec![]];
    for _ in 0..ctx.tier.pick(3usize, 4usize) {
        let mut next = Vec::new();
        for w in &cur {
            for a in 0..7u8 {
                let mut x = w.clone();
                x.push(a);
                next.push(x);
            }
        }
        words.extend(next.iter().cloned());
        cur = next;
    }
    let mut fos = Vec::new();
    for w in words {
        for op_idx in 0..nops {
            fos.push(FeOrder { word: w.clone(), op_idx });
        }
    }
    ctx.extra.insert("frontend_order_cases".into(), json!(fos.len()));
    ctx.enumerate("frontend_orders", fos, |ctx, c| run_fe_order(ctx, c));

    // back-end server: subsets
    let nreq = gated_be_reqs().len();
    let mut bes = Vec::new();
    for idx2 in 0..(2u32 << bits.len()) {
        let idx = idx2 >> 1;
        let m = subset_mask(&bits, idx) | if idx2 & 1 == 1 { nongating & !8 } else { 0 };
        for vf_pf in [false, true] {
            let hist = vec![
                NegMsg::GetFeatures,
                NegMsg::SetFeatures(if vf_pf { spec::VIRTIO_F_PROTOCOL_FEATURES | 1 } else { 1 }),
                NegMsg::GetProtocolFeatures,
                NegMsg::SetProtocolFeatures(m | if idx % 2 == 0 { 8 } else { 0 }),
            ];
            for req_idx in 0..nreq {
                for need_reply in [false, true] {
                    bes.push(BeGate { dev_features: spec::VIRTIO_F_PROTOCOL_FEATURES | 0x1_0000_0003, history: hist.clone(), req_idx, need_reply });
                }
            }
        }
    }
    ctx.extra.insert("backend_subset_cases".into(), json!(bes.len()));
    ctx.enumerate("backend_subsets", bes, |ctx, c| run_be_gate(ctx, c));

    // back-end server: negotiation orders
    let depth = ctx.tier.pick(4usize, 5usize);
    let mut ords = Vec::new();
    for w in neg_words(depth) {
        for req_idx in 0..nreq {
            for df in [spec::VIRTIO_F_PROTOCOL_FEATURES | 3, 3u64] {
                ords.push(BeGate { dev_features: df, history: w.clone(), req_idx, need_reply: (ords.len() / 2) % 2 == 1 });
            }
        }
    }
    ctx.extra.insert("backend_order_cases".into(), json!(ords.len()));
    let mut k = 0u32;
    ctx.enumerate("backend_orders", ords, |ctx, c| {
        let r = run_be_gate(ctx, c);
        k += 1;
        if k % 4001 == 0 {
            ctx.sample(|| json!({"endpoint": "backend-server", "history": c.history, "request_code": gated_be_reqs()[c.req_idx].0}));
        }
        r
    });

    // proxy flags
    let mut ps = Vec::new();
    for f in 0..8u8 {
        for req in 0..5u8 {
            ps.push(ProxyGate { reply_ack: f & 1 != 0, shared_object: f & 2 != 0, shmem: f & 4 != 0, req });
        }
    }
    ctx.enumerate("proxy_flags", ps, |ctx, c| run_proxy_gate(ctx, c));

    // REPLY_ACK offered irrespective of the device's own feature set
    let mut sets: Vec<u64> = vec![0, 0x3f_ffff, 0x3f_ffff & !8];
    sets.extend((0..22).map(|b| 1u64 << b));
    sets.extend((0..22).map(|b| 0x3f_ffff & !(1u64 << b) & !8));
    ctx.enumerate("reply_ack_always_offered", sets, |ctx, s| run_reply_ack_offered(ctx, s));
    let n = ctx.tier.pick(2000u32, 2_000_000u32);
    ctx.prop_check("reply_ack_random_sets", n, any::<u64>(), |ctx, s| run_reply_ack_offered(ctx, s));
}
