//! C08 — message framing is independent of stream segmentation; truncation is an error.
//!
//! G: one spec-encoded instance of every request the back-end server implements, of every
//!    back-end-initiated request, and of every reply/ack kind (front end, proxy, GPU), descriptors
//!    on byte 0; every split into 2 segments, every split into 3 segments for short messages (a
//!    selection for long ones), byte-by-byte delivery; every cut offset (peer half-closes; for the back-end server also: peer leaves a reply unread and closes completely, so the read fails with ECONNRESET) followed by a half-close;
//!    sender side: bursts of maximum-size messages on a non-blocking socket with a minimal send
//!    buffer against a slow reader.
//! O: segmented delivery gives the same result and handler log as unsplit delivery (and is
//!    accepted); a cut gives Err, `Disconnected` only at offset 0, nothing dispatched, no hang; the
//!    sender's bytes equal the concatenated spec encodings, descriptors only on byte 0 of a message.

use std::os::unix::io::{AsRawFd, OwnedFd, RawFd};
use std::os::unix::net::UnixStream;
use std::sync::{Arc, Mutex};
use std::time::{Duration, Instant};

use serde::{Deserialize, Serialize};
use serde_json::json;
use vhost::vhost_user::gpu_message::{VhostUserGpuEdidRequest, VhostUserGpuUpdate};
use vhost::vhost_user::message::*;
use vhost::vhost_user::{Backend, BackendReqHandler, Error, Frontend, FrontendReqHandler, GpuBackend, VhostUserFrontend, VhostUserFrontendReqHandler};
use vhost::{VhostBackend, VhostUserDirtyLogRegion, VhostUserMemoryRegionInfo};

use crate::engine::Ctx;
use crate::fdtrack::{file_id, make_fd, memfd, FdKind};
use crate::rawpeer;
use crate::rec_backend::{FeRec, Rec};
use crate::spec::{self, be, fe};
use crate::srv::{err_name, fresh_fds};

pub const F3_SIG: &str = "C08/F3-request-body-delivered-in-two-segments-gives-InvalidMessage";
const BOUND: Duration = Duration::from_secs(10);

#[derive(Serialize, Deserialize, Debug, Clone, Hash, PartialEq, Eq)]
pub enum Target {
    /// request `idx` of the back-end server message set
    BeServer(usize),
    /// request `idx` of the front-end (back-end initiated) server message set
    FeServer(usize),
    /// reply to front-end call `idx`
    FeCall(usize),
    /// acknowledgement read by the Backend proxy
    ProxyAck,
    /// reply to GPU proxy call `idx`
    GpuCall(usize),
}

#[derive(Serialize, Deserialize, Debug, Clone, Hash, PartialEq, Eq)]
pub struct Case {
    pub target: Target,
    /// split points (strictly increasing, inside the message); empty = unsplit
    pub splits: Vec<usize>,
    /// Some(k): deliver only the first k bytes, then half-close
    pub cut: Option<usize>,
    /// (back-end server, with `cut`) the peer leaves a reply unread and closes completely after the cut bytes: the
    /// receiver's read then fails with ECONNRESET instead of returning 0
    #[serde(default)]
    pub unread_close: bool,
}

#[derive(Debug, Clone, PartialEq, Eq)]
pub struct Outcome {
    pub result: Result<String, String>,
    pub log: String,
    pub hung: bool,
}

const ALL_PF: u64 = 0x3f_ffff;

/// message set of the back-end server: (code, body, nfds)
pub fn be_server_msgs() -> Vec<(u32, Vec<u8>, usize)> {
    let reg = |k: u64| [0x1000 * k, 0x2000, 0x7000_0000_0000 + 0x10000 * k, 0x1000 * k];
    let mut v = vec![
        (fe::GET_FEATURES, vec![], 0),
        (fe::SET_FEATURES, spec::b_u64(spec::VIRTIO_F_PROTOCOL_FEATURES | 0x1_0000_0003), 0),
        (fe::SET_OWNER, vec![], 0),
        (fe::RESET_OWNER, vec![], 0),
        (fe::SET_MEM_TABLE, spec::b_mem_table(&[reg(1), reg(4), reg(8)]), 3),
        (fe::SET_LOG_BASE, spec::b_log(0x1000, 0x2000), 1),
        (fe::SET_VRING_NUM, spec::b_vring_state(1, 256), 0),
        (fe::SET_VRING_ADDR, spec::b_vring_addr(2, 1, 0x1110, 0x2224, 0x3332, 0x4440), 0),
        (fe::SET_VRING_BASE, spec::b_vring_state(3, 0x1234), 0),
        (fe::GET_VRING_BASE, spec::b_vring_state(1, 0), 0),
        (fe::SET_VRING_KICK, spec::b_u64(1), 1),
        (fe::SET_VRING_CALL, spec::b_u64(2 | 0x100), 0),
        (fe::SET_VRING_ERR, spec::b_u64(0), 1),
        (fe::GET_PROTOCOL_FEATURES, vec![], 0),
        (fe::SET_PROTOCOL_FEATURES, spec::b_u64(ALL_PF), 0),
        (fe::GET_QUEUE_NUM, vec![], 0),
        (fe::SET_VRING_ENABLE, spec::b_vring_state(1, 1), 0),
        (fe::SET_BACKEND_REQ_FD, vec![], 1),
        (fe::GET_CONFIG, spec::b_config(0x100, 16, 1, &[0u8; 16]), 0),
        (fe::SET_CONFIG, spec::b_config(0x104, 24, 2, &(0..24).collect::<Vec<u8>>()), 0),
        (fe::GET_INFLIGHT_FD, spec::b_inflight(0x4000, 0, 2, 128), 0),
        (fe::SET_INFLIGHT_FD, spec::b_inflight(0x4000, 0x1000, 2, 128), 1),
        (fe::GPU_SET_SOCKET, vec![], 1),
        (fe::RESET_DEVICE, vec![], 0),
        (fe::GET_MAX_MEM_SLOTS, vec![], 0),
        (fe::ADD_MEM_REG, spec::b_single_region(&reg(3)), 1),
        (fe::REM_MEM_REG, spec::b_single_region(&reg(3)), 0),
        (fe::GET_SHARED_OBJECT, vec![0x11; 16], 0),
        (fe::SET_DEVICE_STATE_FD, spec::b_xfer(1, 0), 1),
        (fe::CHECK_DEVICE_STATE, vec![], 0),
        (fe::GET_SHMEM_CONFIG, vec![], 0),
        // long messages
        (fe::SET_CONFIG, spec::b_config(0, 4084, 0, &(0..4084u32).map(|i| i as u8).collect::<Vec<u8>>()), 0),
        (fe::SET_MEM_TABLE, spec::b_mem_table(&(0..32).map(|k| reg(k * 4 + 1)).collect::<Vec<_>>()), 32),
    ];
    if cfg!(feature = "postcopy") {
        v.push((fe::POSTCOPY_ADVISE, vec![], 0));
        v.push((fe::POSTCOPY_LISTEN, vec![], 0));
        v.push((fe::POSTCOPY_END, vec![], 0));
    }
    v
}

pub fn fe_server_msgs() -> Vec<(u32, Vec<u8>, usize)> {
    vec![
        (be::CONFIG_CHANGE_MSG, vec![], 0),
        (be::SHARED_OBJECT_ADD, vec![0x21; 16], 0),
        (be::SHARED_OBJECT_REMOVE, vec![0x22; 16], 0),
        (be::SHARED_OBJECT_LOOKUP, vec![0x23; 16], 1),
        (be::SHMEM_MAP, spec::b_mmap(1, 0x1000, 0x2000, 0x3000, 1), 1),
        (be::SHMEM_UNMAP, spec::b_mmap(2, 0, 0x2000, 0x3000, 0), 0),
    ]
}

pub const N_FE_CALLS: usize = 13;
pub const N_GPU_CALLS: usize = 4;

fn done_or_hung<T>(h: std::thread::JoinHandle<T>, unblock: impl Fn()) -> (Option<T>, bool) {
    let t0 = Instant::now();
    while !h.is_finished() {
        if t0.elapsed() > BOUND {
            unblock();
            let t1 = Instant::now();
            while !h.is_finished() && t1.elapsed() < Duration::from_secs(2) {
                std::thread::yield_now();
            }
            return (if h.is_finished() { h.join().ok() } else { None }, true);
        }
        std::thread::yield_now();
    }
    (h.join().ok(), false)
}

/// write `msg` to `sock` in segments; the next segment is written only after the receiver (whose
/// socket is `probe`) has drained the previous one, so that the split is really experienced
fn deliver(sock: RawFd, probe: RawFd, msg: &[u8], fds: &[RawFd], splits: &[usize], cut: Option<usize>, receiver_done: &dyn Fn() -> bool) {
    let end = cut.unwrap_or(msg.len()).min(msg.len());
    let mut points: Vec<usize> = splits.iter().copied().filter(|p| *p > 0 && *p < end).collect();
    points.push(end);
    let mut start = 0;
    for (i, p) in points.iter().enumerate() {
        if *p > start {
            let _ = rawpeer::send_all(sock, &msg[start..*p], if start == 0 { fds } else { &[] });
        }
        start = *p;
        if i + 1 < points.len() {
            // wait until the receiver has consumed what was sent
            let t0 = Instant::now();
            while rawpeer::fionread(probe) > 0 && !receiver_done() && t0.elapsed() < BOUND {
                std::thread::yield_now();
            }
        }
    }
}

fn be_server_outcome(idx: usize, splits: &[usize], cut: Option<usize>, unread_close: bool) -> Outcome {
    let msgs = be_server_msgs();
    let (code, body, nfds) = msgs[idx].clone();
    let (peer, srv) = UnixStream::pair().unwrap();
    let probe = srv.try_clone().unwrap();
    let rec = Arc::new(Mutex::new(Rec::new(spec::VIRTIO_F_PROTOCOL_FEATURES | 0x1_0000_0003, ALL_PF)));
    rec.lock().unwrap().hold_files = false;
    let mut server = BackendReqHandler::from_stream(srv, rec.clone());
    // negotiation prefix: open every gate
    for m in [
        spec::request(fe::GET_FEATURES, false, &[]),
        spec::request(fe::SET_FEATURES, false, &spec::b_u64(spec::VIRTIO_F_PROTOCOL_FEATURES | 3)),
        spec::request(fe::GET_PROTOCOL_FEATURES, false, &[]),
        spec::request(fe::SET_PROTOCOL_FEATURES, false, &spec::b_u64(ALL_PF)),
    ] {
        rawpeer::send_all(peer.as_raw_fd(), &m, &[]).unwrap();
        let _ = server.handle_request();
    }
    let _ = rawpeer::drain(peer.as_raw_fd(), 65536);
    if unread_close {
        // a reply the peer never reads
        rawpeer::send_all(peer.as_raw_fd(), &spec::request(fe::GET_FEATURES, false, &[]), &[]).unwrap();
        let _ = server.handle_request();
    }
    let base = rec.lock().unwrap().log.len();
    let msg = spec::request(code, false, &body);
    let fds: Vec<OwnedFd> = fresh_fds(nfds, FdKind::Memfd);
    let raw: Vec<RawFd> = fds.iter().map(|f| f.as_raw_fd()).collect();
    let h = std::thread::spawn(move || {
        let r = server.handle_request();
        (r.map(|_| "ok".to_string()).map_err(|e| err_name(&e)), server)
    });
    deliver(peer.as_raw_fd(), probe.as_raw_fd(), &msg, &raw, splits, cut, &|| h.is_finished());
    drop(fds);
    let mut peer = Some(peer);
    if cut.is_some() {
        if unread_close {
            peer.take(); // full close with unread data in the peer's receive queue
        } else {
            rawpeer::shutdown_wr(peer.as_ref().unwrap());
        }
    }
    let p2 = probe.try_clone().unwrap();
    let (r, hung) = done_or_hung(h, move || {
        let _ = p2.shutdown(std::net::Shutdown::Both);
    });
    drop(peer);
    let log = format!("{:?}", rec.lock().unwrap().log[base..].iter().map(|c| strip_ids(c)).collect::<Vec<_>>());
    Outcome { result: r.map(|x| x.0).unwrap_or(Err("receiver thread lost".into())), log, hung }
}

/// handler log entry without descriptor identities (fresh descriptors differ between runs)
fn strip_ids(c: &crate::rec_backend::Call) -> String {
    let s = format!("{c:?}");
    // FileId { dev: .., ino: .., evid: .. } -> FileId
    let mut out = String::new();
    let mut rest = s.as_str();
    while let Some(p) = rest.find("FileId {") {
        out.push_str(&rest[..p]);
        out.push_str("FileId");
        match rest[p..].find('}') {
            Some(e) => rest = &rest[p + e + 1..],
            None => {
                rest = "";
            }
        }
    }
    out.push_str(rest);
    out
}

fn fe_server_outcome(idx: usize, splits: &[usize], cut: Option<usize>) -> Outcome {
    let (code, body, nfds) = fe_server_msgs()[idx].clone();
    let rec = Arc::new(Mutex::new(FeRec::new()));
    let mut server = FrontendReqHandler::new(rec.clone()).unwrap();
    server.set_reply_ack_flag(true);
    let peer = crate::daemon_fx::dup_fd(server.get_tx_raw_fd());
    let probe = crate::daemon_fx::dup_fd(server.as_raw_fd());
    let msg = spec::request(code, true, &body);
    let fds: Vec<OwnedFd> = fresh_fds(nfds, FdKind::Memfd);
    let raw: Vec<RawFd> = fds.iter().map(|f| f.as_raw_fd()).collect();
    let h = std::thread::spawn(move || {
        let r = server.handle_request();
        (r.map(|v| format!("ok({v})")).map_err(|e| err_name(&e)), server)
    });
    deliver(peer.as_raw_fd(), probe.as_raw_fd(), &msg, &raw, splits, cut, &|| h.is_finished());
    drop(fds);
    if cut.is_some() {
        unsafe { libc::shutdown(peer.as_raw_fd(), libc::SHUT_WR) };
    }
    let p2 = probe.as_raw_fd();
    let (r, hung) = done_or_hung(h, move || unsafe {
        libc::shutdown(p2, libc::SHUT_RDWR);
    });
    let log = format!(
        "{:?}",
        rec.lock().unwrap().log.iter().map(|c| {
            let s = format!("{c:?}");
            match s.find("FileId") {
                Some(p) => s[..p].to_string(),
                None => s,
            }
        }).collect::<Vec<_>>()
    );
    Outcome { result: r.map(|x| x.0).unwrap_or(Err("receiver thread lost".into())), log, hung }
}

/// (reply bytes, descriptors on the reply, the call itself) for front-end call `idx`
fn fe_call(idx: usize, f: &mut Frontend) -> Result<String, String> {
    let e = |e: vhost::Error| format!("{e:?}");
    match idx {
        0 => f.get_features().map(|v| format!("{v:#x}")).map_err(e),
        1 => f.get_protocol_features().map(|v| format!("{:#x}", v.bits())).map_err(e),
        2 => f.get_queue_num().map(|v| format!("{v}")).map_err(e),
        3 => f.get_vring_base(1).map(|v| format!("{v}")).map_err(e),
        4 => f.get_config(0x100, 40, VhostUserConfigFlags::WRITABLE, &[0u8; 40]).map(|(c, p)| format!("{:?} {:?} {:?} {p:?}", { c.offset }, { c.size }, { c.flags })).map_err(e),
        5 => f
            .get_inflight_fd(&VhostUserInflight::new(0x1000, 0, 2, 64))
            .map(|(i, file)| format!("{:#x} {:#x} {} {} fd={}", i.mmap_size, i.mmap_offset, i.num_queues, i.queue_size, file_id(file.as_raw_fd()).is_some()))
            .map_err(e),
        6 => {
            let mut u = VhostUserSharedMsg::default();
            u.uuid = uuid::Uuid::from_bytes([9u8; 16]);
            f.get_shared_object(&u).map(|file| format!("fd={}", file_id(file.as_raw_fd()).is_some())).map_err(e)
        }
        7 => f
            .set_device_state_fd(VhostTransferStateDirection::SAVE, VhostTransferStatePhase::STOPPED, make_fd(FdKind::Pipe))
            .map(|o| format!("file={}", o.is_some()))
            .map_err(e),
        8 => f.check_device_state().map(|_| "ok".to_string()).map_err(e),
        9 => f.get_shmem_config().map(|c| format!("{} {:?}", c.nregions, &c.memory_sizes[..4])).map_err(e),
        10 => f.get_max_mem_slots().map(|v| format!("{v}")).map_err(e),
        11 => {
            let file = memfd(0x2000);
            f.set_log_base(0, Some(VhostUserDirtyLogRegion { mmap_size: 0x1000, mmap_offset: 0x1000, mmap_handle: file.as_raw_fd() })).map(|_| "ok".to_string()).map_err(e)
        }
        _ => f.set_vring_num(1, 128).map(|_| "acked".to_string()).map_err(e),
    }
}

/// the reply the raw peer delivers for front-end call `idx`: (bytes, nfds)
fn fe_reply(idx: usize) -> (Vec<u8>, usize) {
    match idx {
        0 => (spec::reply(fe::GET_FEATURES, &spec::b_u64(0x1_7000_0003)), 0),
        1 => (spec::reply(fe::GET_PROTOCOL_FEATURES, &spec::b_u64(ALL_PF)), 0),
        2 => (spec::reply(fe::GET_QUEUE_NUM, &spec::b_u64(5)), 0),
        3 => (spec::reply(fe::GET_VRING_BASE, &spec::b_vring_state(1, 0x1234)), 0),
        4 => (spec::reply(fe::GET_CONFIG, &spec::b_config(0x100, 40, 1, &(100..140).collect::<Vec<u8>>())), 0),
        5 => (spec::reply(fe::GET_INFLIGHT_FD, &spec::b_inflight(0x3000, 0x1000, 2, 64)), 1),
        6 => (spec::reply(fe::GET_SHARED_OBJECT, &[]), 1),
        7 => (spec::reply(fe::SET_DEVICE_STATE_FD, &spec::b_u64(0)), 1),
        8 => (spec::reply(fe::CHECK_DEVICE_STATE, &spec::b_u64(0)), 0),
        9 => (spec::reply(fe::GET_SHMEM_CONFIG, &spec::b_shmem_config(3, &[0x1000, 0x2000, 0x3000])), 0),
        10 => (spec::reply(fe::GET_MAX_MEM_SLOTS, &spec::b_u64(509)), 0),
        11 => (spec::reply(fe::SET_LOG_BASE, &spec::b_log(0x1000, 0x1000)), 0),
        _ => (spec::reply(fe::SET_VRING_NUM, &spec::b_u64(0)), 0),
    }
}

fn negotiated_frontend() -> (Frontend, UnixStream, UnixStream) {
    let (ours, theirs) = UnixStream::pair().unwrap();
    let probe = theirs.try_clone().unwrap();
    let mut f = Frontend::from_stream(theirs, 8);
    let s = ours.as_raw_fd();
    rawpeer::send_all(s, &spec::reply(fe::GET_FEATURES, &spec::b_u64(spec::VIRTIO_F_PROTOCOL_FEATURES | 1 << 32)), &[]).unwrap();
    f.get_features().unwrap();
    rawpeer::send_all(s, &spec::reply(fe::GET_PROTOCOL_FEATURES, &spec::b_u64(ALL_PF)), &[]).unwrap();
    let pf = f.get_protocol_features().unwrap();
    f.set_protocol_features(pf).unwrap();
    f.set_hdr_flags(VhostUserHeaderFlag::NEED_REPLY);
    let _ = rawpeer::drain(s, 65536);
    (f, ours, probe)
}

fn fe_call_outcome(idx: usize, splits: &[usize], cut: Option<usize>) -> Outcome {
    let (mut f, peer, probe) = negotiated_frontend();
    let (msg, nfds) = fe_reply(idx);
    let fds: Vec<OwnedFd> = fresh_fds(nfds, FdKind::Memfd);
    let raw: Vec<RawFd> = fds.iter().map(|x| x.as_raw_fd()).collect();
    let h = std::thread::spawn(move || fe_call(idx, &mut f));
    deliver(peer.as_raw_fd(), probe.as_raw_fd(), &msg, &raw, splits, cut, &|| h.is_finished());
    drop(fds);
    if cut.is_some() {
        rawpeer::shutdown_wr(&peer);
    }
    let p2 = probe.try_clone().unwrap();
    let (r, hung) = done_or_hung(h, move || {
        let _ = p2.shutdown(std::net::Shutdown::Both);
    });
    Outcome { result: r.unwrap_or(Err("caller thread lost".into())), log: String::new(), hung }
}

fn proxy_ack_outcome(splits: &[usize], cut: Option<usize>) -> Outcome {
    let (peer, theirs) = UnixStream::pair().unwrap();
    let probe = theirs.try_clone().unwrap();
    let b = Backend::from_stream(theirs);
    b.set_reply_ack_flag(true);
    b.set_shared_object_flag(true);
    let msg = spec::reply(be::SHARED_OBJECT_ADD, &spec::b_u64(0));
    let h = std::thread::spawn(move || {
        let mut u = VhostUserSharedMsg::default();
        u.uuid = uuid::Uuid::from_bytes([5u8; 16]);
        b.shared_object_add(&u).map(|v| format!("{v}")).map_err(|e| e.to_string())
    });
    deliver(peer.as_raw_fd(), probe.as_raw_fd(), &msg, &[], splits, cut, &|| h.is_finished());
    if cut.is_some() {
        rawpeer::shutdown_wr(&peer);
    }
    let p2 = probe.try_clone().unwrap();
    let (r, hung) = done_or_hung(h, move || {
        let _ = p2.shutdown(std::net::Shutdown::Both);
    });
    Outcome { result: r.unwrap_or(Err("caller thread lost".into())), log: String::new(), hung }
}

fn gpu_reply(idx: usize) -> Vec<u8> {
    match idx {
        0 => spec::msg(spec::gpu::GET_PROTOCOL_FEATURES, 4, &spec::b_u64(3)),
        1 => {
            let mut b = vec![0u8; spec::GPU_DISPLAY_INFO_SIZE];
            for (i, x) in b.iter_mut().enumerate() {
                *x = (i * 7) as u8;
            }
            spec::msg(spec::gpu::GET_DISPLAY_INFO, 4, &b)
        }
        2 => {
            let mut b = vec![0u8; spec::GPU_EDID_RESP_SIZE];
            for (i, x) in b.iter_mut().enumerate() {
                *x = (i * 3) as u8;
            }
            spec::msg(spec::gpu::GET_EDID, 4, &b)
        }
        _ => spec::msg(spec::gpu::DMABUF_UPDATE, 4, &[]),
    }
}

fn gpu_call_outcome(idx: usize, splits: &[usize], cut: Option<usize>) -> Outcome {
    let (peer, theirs) = UnixStream::pair().unwrap();
    let probe = theirs.try_clone().unwrap();
    let g = GpuBackend::from_stream(theirs);
    let msg = gpu_reply(idx);
    let h = std::thread::spawn(move || match idx {
        0 => g.get_protocol_features().map(|v| format!("{}", v.value)).map_err(|e| e.to_string()),
        1 => g.get_display_info().map(|d| format!("{:?}", d.pmodes[3])).map_err(|e| e.to_string()),
        2 => g.get_edid(&VhostUserGpuEdidRequest { scanout_id: 1 }).map(|d| format!("{} {:?}", d.size, &d.edid[1000..1010])).map_err(|e| e.to_string()),
        _ => g.update_dmabuf_scanout(&VhostUserGpuUpdate { scanout_id: 1, x: 0, y: 0, width: 2, height: 2 }).map(|_| "ok".to_string()).map_err(|e| e.to_string()),
    });
    deliver(peer.as_raw_fd(), probe.as_raw_fd(), &msg, &[], splits, cut, &|| h.is_finished());
    if cut.is_some() {
        rawpeer::shutdown_wr(&peer);
    }
    let p2 = probe.try_clone().unwrap();
    let (r, hung) = done_or_hung(h, move || {
        let _ = p2.shutdown(std::net::Shutdown::Both);
    });
    Outcome { result: r.unwrap_or(Err("caller thread lost".into())), log: String::new(), hung }
}

pub fn msg_len(t: &Target) -> usize {
    match t {
        Target::BeServer(i) => 12 + be_server_msgs()[*i].1.len(),
        Target::FeServer(i) => 12 + fe_server_msgs()[*i].1.len(),
        Target::FeCall(i) => fe_reply(*i).0.len(),
        Target::ProxyAck => 20,
        Target::GpuCall(i) => gpu_reply(*i).len(),
    }
}

pub fn outcome(t: &Target, splits: &[usize], cut: Option<usize>) -> Outcome {
    outcome_ex(t, splits, cut, false)
}

pub fn outcome_ex(t: &Target, splits: &[usize], cut: Option<usize>, unread_close: bool) -> Outcome {
    match t {
        Target::BeServer(i) => be_server_outcome(*i, splits, cut, unread_close),
        Target::FeServer(i) => fe_server_outcome(*i, splits, cut),
        Target::FeCall(i) => fe_call_outcome(*i, splits, cut),
        Target::ProxyAck => proxy_ack_outcome(splits, cut),
        Target::GpuCall(i) => gpu_call_outcome(*i, splits, cut),
    }
}

pub fn run_case(ctx: &mut Ctx, c: &Case, base: &Outcome) -> Result<(), String> {
    let len = msg_len(&c.target);
    let o = outcome_ex(&c.target, &c.splits, c.cut, c.unread_close);
    if c.unread_close {
        ctx.class("cut_after_unread_reply_then_close");
    }
    let is_server = matches!(c.target, Target::BeServer(_) | Target::FeServer(_));
    match c.cut {
        None => {
            let in_body = c.splits.iter().any(|p| *p > 12);
            let in_hdr = c.splits.iter().any(|p| *p < 12);
            ctx.class(if in_body { "split_in_body" } else if in_hdr { "split_in_header" } else { "split_at_header_end" });
            if in_body || in_hdr {
                ctx.nontrivial(c);
            }
            if o.hung {
                return Err(format!("{:?} split at {:?}: the receiver did not return although the whole message was delivered", c.target, c.splits));
            }
            if o != *base {
                // F3: a request body delivered in more than one segment
                if is_server && in_body && o.result == Err("InvalidMessage".into()) && base.result.is_ok() && ctx.known(F3_SIG) {
                    return Ok(());
                }
                return Err(format!(
                    "{:?} ({len} bytes) split at {:?}: result {:?} log {} -- unsplit delivery gives {:?} log {}",
                    c.target, c.splits, o.result, o.log, base.result, base.log
                ));
            }
            Ok(())
        }
        Some(k) => {
            ctx.class(if k == 0 { "cut_at_boundary" } else if k < 12 { "cut_in_header" } else { "cut_in_body" });
            if k > 0 && k < len {
                ctx.nontrivial(c);
            }
            if o.hung {
                return Err(format!("{:?}: stream ended after {k} of {len} bytes and the receiver blocks forever", c.target));
            }
            match &o.result {
                Ok(v) => Err(format!("{:?}: stream ended after {k} of {len} bytes but the receiver reports success ({v})", c.target)),
                Err(e) => {
                    if is_server {
                        let disc = e == "Disconnected";
                        // a reset connection (peer closed with unread data) at a boundary is not a clean disconnect: there
                        // either report is fine; inside a message 'Disconnected' is never right
                        if (disc && k != 0) || (!disc && k == 0 && !c.unread_close) {
                            return Err(format!("{:?}: stream ended after {k} of {len} bytes: error {e} ('Disconnected' is prescribed exactly at a message boundary)", c.target));
                        }
                        if o.log != "[]" {
                            return Err(format!("{:?}: stream ended after {k} of {len} bytes but the handler was invoked: {}", c.target, o.log));
                        }
                    }
                    Ok(())
                }
            }
        }
    }
}

// ------------------------------------------------------------------ sender side

#[derive(Serialize, Deserialize, Debug, Clone, Hash, PartialEq, Eq)]
pub struct Burst {
    /// false: Frontend sends requests; true: BackendReqHandler sends replies
    pub server: bool,
    pub n: u8,
    pub read_chunk: u8,
    /// the GPU proxy sends its large payload messages (cursor image 16 KiB, scanout update): several partial writes per message
    #[serde(default)]
    pub gpu: bool,
}

fn set_small_sndbuf(s: &UnixStream) {
    let v: libc::c_int = 1;
    unsafe { libc::setsockopt(s.as_raw_fd(), libc::SOL_SOCKET, libc::SO_SNDBUF, &v as *const _ as *const libc::c_void, 4) };
    let _ = s.set_nonblocking(true);
}

/// slow reader: waits until the sender stalls, then drains `chunk` bytes at a time recording the
/// descriptors that arrive with each read; returns (all bytes, offsets at which descriptors arrived with counts, saw a partial write)
fn slow_read(sock: &UnixStream, chunk: usize, sender_done: &dyn Fn() -> bool, boundaries_ok: &dyn Fn(usize) -> bool) -> (Vec<u8>, Vec<(usize, usize, usize)>, bool) {
    let fd = sock.as_raw_fd();
    let mut partial = false;
    // wait for a stall: queued byte count constant over many looks while the sender still runs
    let mut last = usize::MAX;
    let mut same = 0;
    let t0 = Instant::now();
    while !sender_done() && t0.elapsed() < BOUND {
        let q = rawpeer::fionread(fd);
        if std::env::var("VERIF_DEBUG").is_ok() && same == 0 {
            eprintln!("  queued {q}");
        }
        if q == last {
            same += 1;
            if same > 200 {
                if !boundaries_ok(q) {
                    partial = true;
                }
                break;
            }
        } else {
            same = 0;
            last = q;
        }
        std::thread::yield_now();
    }
    let mut all = Vec::new();
    let mut fdpos = Vec::new();
    let t0 = Instant::now();
    // while draining: the sender is stalled in the middle of a message when the number of bytes it has
    // put on the wire so far (read + queued) stays at a value that is not a message boundary
    let mut last_total = usize::MAX;
    let mut stable = 0u32;
    loop {
        if !partial && !sender_done() {
            let total = all.len() + rawpeer::fionread(fd);
            if total == last_total {
                stable += 1;
                if stable >= 30 && !boundaries_ok(total) {
                    partial = true;
                }
            } else {
                stable = 0;
                last_total = total;
            }
        }
        // read only when the sender is stalled or done, so that it keeps running into a full buffer
        if !partial && !sender_done() && stable < 40 {
            std::thread::yield_now();
            if t0.elapsed() < BOUND * 3 {
                continue;
            }
        }
        if stable >= 40 {
            stable = 40 - 8; // keep reading every few looks while the sender stays stalled
        }
        match rawpeer::recv_once(fd, chunk, 64, libc::MSG_DONTWAIT) {
            Ok((b, fds, _)) => {
                if b.is_empty() {
                    break;
                }
                if !fds.is_empty() {
                    // a read may start in the tail of the previous message and run into the message that
                    // carries the descriptors: remember the byte range of the read
                    fdpos.push((all.len(), all.len() + b.len(), fds.len()));
                }
                all.extend_from_slice(&b);
            }
            Err(e) if e.kind() == std::io::ErrorKind::WouldBlock => {
                if sender_done() && rawpeer::fionread(fd) == 0 {
                    break;
                }
                if t0.elapsed() > BOUND * 3 {
                    break;
                }
                std::thread::yield_now();
            }
            Err(_) => break,
        }
    }
    if std::env::var("VERIF_DEBUG").is_ok() {
        eprintln!("slow_read: {} bytes, partial={partial}, sender_done={}", all.len(), sender_done());
    }
    (all, fdpos, partial)
}

pub fn run_burst(ctx: &mut Ctx, b: &Burst) -> Result<(), String> {
    let n = b.n.max(1) as usize;
    let chunk = (b.read_chunk as usize % 97) + 1;
    if b.gpu {
        use vhost::vhost_user::gpu_message::{VhostUserGpuCursorPos, VhostUserGpuCursorUpdate, VhostUserGpuDMABUFScanout, VhostUserGpuUpdate};
        use vm_memory::ByteValued;
        let (ours, theirs) = UnixStream::pair().unwrap();
        set_small_sndbuf(&theirs);
        let g = vhost::vhost_user::GpuBackend::from_stream(theirs);
        let img: Vec<u8> = (0..4 * 64 * 64u32).map(|i| (i * 7 + i / 251) as u8).collect();
        let data: Vec<u8> = (0..3000u32).map(|i| (i * 11) as u8).collect();
        let file = memfd(0x1000);
        let mut expect = Vec::new();
        let mut starts = Vec::new();
        for i in 0..n {
            let id = i as u32;
            match i % 3 {
                0 => {
                    starts.push((expect.len(), 0));
                    let cu = VhostUserGpuCursorUpdate { pos: VhostUserGpuCursorPos { scanout_id: id, x: 1, y: 2 }, hot_x: 3, hot_y: 4 };
                    let mut body = cu.as_slice().to_vec();
                    body.extend_from_slice(&img);
                    expect.extend_from_slice(&spec::msg(spec::gpu::CURSOR_UPDATE, 0, &body));
                }
                1 => {
                    starts.push((expect.len(), 1));
                    let dm = VhostUserGpuDMABUFScanout { scanout_id: id, width: 1, height: 1, fd_width: 1, fd_height: 1, ..Default::default() };
                    expect.extend_from_slice(&spec::msg(spec::gpu::DMABUF_SCANOUT, 0, dm.as_slice()));
                }
                _ => {
                    starts.push((expect.len(), 0));
                    let up = VhostUserGpuUpdate { scanout_id: id, x: 0, y: 0, width: 30, height: 25 };
                    let mut body = up.as_slice().to_vec();
                    body.extend_from_slice(&data);
                    expect.extend_from_slice(&spec::msg(spec::gpu::UPDATE, 0, &body));
                }
            }
        }
        let bounds: Vec<usize> = starts.iter().map(|s| s.0).chain([expect.len()]).collect();
        let (img2, data2) = (img.clone(), data.clone());
        let h = std::thread::spawn(move || -> Result<(), String> {
            let mut arr = [0u8; 4 * 64 * 64];
            arr.copy_from_slice(&img2);
            for i in 0..n {
                let id = i as u32;
                match i % 3 {
                    0 => g.cursor_update(&VhostUserGpuCursorUpdate { pos: VhostUserGpuCursorPos { scanout_id: id, x: 1, y: 2 }, hot_x: 3, hot_y: 4 }, &arr),
                    1 => g.set_dmabuf_scanout(&VhostUserGpuDMABUFScanout { scanout_id: id, width: 1, height: 1, fd_width: 1, fd_height: 1, ..Default::default() }, Some(&file)),
                    _ => g.update_scanout(&VhostUserGpuUpdate { scanout_id: id, x: 0, y: 0, width: 30, height: 25 }, &data2),
                }
                .map_err(|e| format!("gpu message #{i}: {e}"))?;
            }
            Ok(())
        });
        let (all, fdpos, partial) = slow_read(&ours, chunk.max(16) * 8, &|| h.is_finished(), &|q| bounds.contains(&q));
        let r = h.join().map_err(|_| "sender panicked".to_string())?;
        ctx.class("burst_gpu_large_payloads");
        return judge_burst(ctx, b, r, &all, &expect, &fdpos, &starts, partial);
    }
    if !b.server {
        // Frontend: alternating SET_CONFIG (4084-byte payload) and SET_MEM_TABLE (32 regions + 32 descriptors), no replies awaited
        let (ours, theirs) = UnixStream::pair().unwrap();
        let mut f = {
            // negotiate CONFIG on a blocking socket first
            let mut f = Frontend::from_stream(theirs.try_clone().unwrap(), 8);
            let s = ours.as_raw_fd();
            rawpeer::send_all(s, &spec::reply(fe::GET_FEATURES, &spec::b_u64(spec::VIRTIO_F_PROTOCOL_FEATURES)), &[]).unwrap();
            f.get_features().unwrap();
            rawpeer::send_all(s, &spec::reply(fe::GET_PROTOCOL_FEATURES, &spec::b_u64(ALL_PF)), &[]).unwrap();
            let pf = f.get_protocol_features().unwrap();
            f.set_protocol_features(pf).unwrap();
            let _ = rawpeer::drain(s, 65536);
            f
        };
        set_small_sndbuf(&theirs);
        let files: Vec<std::fs::File> = (0..32).map(|_| memfd(0x1000)).collect();
        let regions: Vec<VhostUserMemoryRegionInfo> = (0..32u64)
            .map(|k| VhostUserMemoryRegionInfo::new(0x10000 * k, 0x1000, 0x7000_0000_0000 + 0x10000 * k, 0, files[k as usize].as_raw_fd()))
            .collect();
        let payload: Vec<u8> = (0..4084u32).map(|i| (i * 13) as u8).collect();
        let mut expect = Vec::new();
        let mut starts = Vec::new();
        for i in 0..n {
            starts.push((expect.len(), if i % 2 == 1 { 32 } else { 0 }));
            if i % 2 == 0 {
                expect.extend_from_slice(&spec::request(fe::SET_CONFIG, false, &spec::b_config(0, 4084, 1, &payload)));
            } else {
                let regs: Vec<[u64; 4]> = (0..32u64).map(|k| [0x10000 * k, 0x1000, 0x7000_0000_0000 + 0x10000 * k, 0]).collect();
                expect.extend_from_slice(&spec::request(fe::SET_MEM_TABLE, false, &spec::b_mem_table(&regs)));
            }
        }
        let bounds: Vec<usize> = starts.iter().map(|s| s.0).chain([expect.len()]).collect();
        let p2 = payload.clone();
        let h = std::thread::spawn(move || -> Result<(), String> {
            for i in 0..n {
                if i % 2 == 0 {
                    f.set_config(0, VhostUserConfigFlags::WRITABLE, &p2).map_err(|e| format!("set_config #{i}: {e:?}"))?;
                } else {
                    f.set_mem_table(&regions).map_err(|e| format!("set_mem_table #{i}: {e:?}"))?;
                }
            }
            Ok(())
        });
        let (all, fdpos, partial) = slow_read(&ours, chunk, &|| h.is_finished(), &|q| bounds.contains(&q));
        let r = h.join().map_err(|_| "sender panicked".to_string())?;
        judge_burst(ctx, b, r, &all, &expect, &fdpos, &starts, partial)
    } else {
        // BackendReqHandler: n GET_CONFIG requests (4084-byte replies) sent up front, replies read slowly
        let (ours, theirs) = UnixStream::pair().unwrap();
        let rec = Arc::new(Mutex::new(Rec::new(spec::VIRTIO_F_PROTOCOL_FEATURES, ALL_PF)));
        let mut server = BackendReqHandler::from_stream(theirs.try_clone().unwrap(), rec);
        for m in [
            spec::request(fe::GET_FEATURES, false, &[]),
            spec::request(fe::SET_FEATURES, false, &spec::b_u64(spec::VIRTIO_F_PROTOCOL_FEATURES)),
            spec::request(fe::GET_PROTOCOL_FEATURES, false, &[]),
            spec::request(fe::SET_PROTOCOL_FEATURES, false, &spec::b_u64(ALL_PF)),
        ] {
            rawpeer::send_all(ours.as_raw_fd(), &m, &[]).unwrap();
            let _ = server.handle_request();
        }
        let _ = rawpeer::drain(ours.as_raw_fd(), 65536);
        let mut expect = Vec::new();
        let mut starts = Vec::new();
        for i in 0..n {
            let (off, size) = (i as u32 % 8, 4084u32 - 8);
            rawpeer::send_all(ours.as_raw_fd(), &spec::request(fe::GET_CONFIG, false, &spec::b_config(off, size, 0, &vec![0u8; size as usize])), &[]).unwrap();
            starts.push((expect.len(), 0));
            expect.extend_from_slice(&spec::reply(fe::GET_CONFIG, &spec::b_config(off, size, 0, &crate::rec_backend::config_pattern(off, size))));
        }
        let bounds: Vec<usize> = starts.iter().map(|s| s.0).chain([expect.len()]).collect();
        set_small_sndbuf(&theirs);
        let h = std::thread::spawn(move || -> Result<(), String> {
            for i in 0..n {
                server.handle_request().map_err(|e| format!("handle_request #{i}: {e:?}"))?;
            }
            Ok(())
        });
        let (all, fdpos, partial) = slow_read(&ours, chunk, &|| h.is_finished(), &|q| bounds.contains(&q));
        let r = h.join().map_err(|_| "sender panicked".to_string())?;
        judge_burst(ctx, b, r, &all, &expect, &fdpos, &starts, partial)
    }
}

#[allow(clippy::too_many_arguments)]
fn judge_burst(ctx: &mut Ctx, b: &Burst, r: Result<(), String>, all: &[u8], expect: &[u8], fdpos: &[(usize, usize, usize)], starts: &[(usize, usize)], partial: bool) -> Result<(), String> {
    ctx.class(if partial { "burst_with_partial_write" } else { "burst_without_partial_write" });
    if partial {
        ctx.nontrivial(b);
    }
    r.map_err(|e| format!("sender failed: {e}"))?;
    if all != expect {
        let k = all.iter().zip(expect.iter()).position(|(a, b)| a != b).unwrap_or(all.len().min(expect.len()));
        return Err(format!(
            "bytes on the wire differ from the concatenated encodings at offset {k} (got {} bytes, expected {}); partial write observed: {partial}",
            all.len(),
            expect.len()
        ));
    }
    // descriptors must arrive exactly with the read that delivers byte 0 of a message that carries them
    let want: Vec<(usize, usize)> = starts.iter().filter(|s| s.1 > 0).copied().collect();
    let ok = fdpos.len() == want.len() && fdpos.iter().zip(want.iter()).all(|((a, e, n), (s, wn))| a <= s && s < e && n == wn);
    if !ok {
        return Err(format!("descriptors arrived with reads covering stream ranges {fdpos:?} (start, end, count); expected only with byte 0 of the messages that carry them: {want:?}"));
    }
    Ok(())
}

fn two_splits(len: usize) -> Vec<Vec<usize>> {
    (1..len).map(|p| vec![p]).collect()
}

/// random segmentations into 4..=12 pieces
fn multi_splits(len: usize, seed: u64, count: usize) -> Vec<Vec<usize>> {
    let mut v = Vec::new();
    if len < 6 {
        return v;
    }
    let mut x = seed.wrapping_mul(0x9e37_79b9_7f4a_7c15) | 1;
    let mut next = || {
        x ^= x << 13;
        x ^= x >> 7;
        x ^= x << 17;
        x
    };
    for _ in 0..count {
        let k = 3 + (next() % 9) as usize;
        let mut pts: Vec<usize> = (0..k).map(|_| 1 + (next() as usize % (len - 1))).collect();
        pts.sort();
        pts.dedup();
        v.push(pts);
    }
    v
}

fn three_splits(len: usize, seed: u64, dense: bool) -> Vec<Vec<usize>> {
    let mut v = Vec::new();
    if len <= if dense { 200 } else { 64 } {
        for a in 1..len {
            for b in a + 1..len {
                v.push(vec![a, b]);
            }
        }
    } else {
        let mut pts: Vec<usize> = vec![1, 11, 12, 13, 24, len / 2, len - 2, len - 1];
        let mut x = seed | 1;
        for _ in 0..if dense { 120 } else { 20 } {
            x ^= x << 13;
            x ^= x >> 7;
            x ^= x << 17;
            pts.push(1 + (x as usize % (len - 1)));
        }
        pts.sort();
        pts.dedup();
        pts.retain(|p| *p > 0 && *p < len);
        for (i, a) in pts.iter().enumerate() {
            for b in &pts[i + 1..] {
                v.push(vec![*a, *b]);
            }
        }
    }
    v
}

pub fn targets() -> Vec<Target> {
    let mut t: Vec<Target> = (0..be_server_msgs().len()).map(Target::BeServer).collect();
    t.extend((0..fe_server_msgs().len()).map(Target::FeServer));
    t.extend((0..N_FE_CALLS).map(Target::FeCall));
    t.push(Target::ProxyAck);
    t.extend((0..N_GPU_CALLS).map(Target::GpuCall));
    t
}

pub fn run(ctx: &mut Ctx) {
    ctx.rule = "message set: every request the back-end server implements (incl. a 4096-byte SET_CONFIG and a 32-region SET_MEM_TABLE with 32 \
                descriptors), every back-end-initiated request, every reply/ack kind read by Frontend, Backend proxy and GpuBackend. Per message: \
                all 2-splits, all 3-splits (<= 64 bytes, thorough <= 200; selected points otherwise), random segmentations into 4..12 pieces, byte-by-byte; each next segment is written only after the \
                receiver drained the previous one (FIONREAD == 0), so the split is experienced; all cut offsets 0..len followed by a half-close. \
                Sender: bursts of maximum-size messages (Frontend requests, BackendReqHandler replies, and the GPU proxy's 16 KiB / 3 KB payload messages, which need several partial writes each) on a non-blocking socket with minimal SO_SNDBUF against a reader that waits for the \
                sender to stall and then drains 1..97 bytes per read. Non-trivial = a split point strictly inside header or body, a cut strictly \
                inside the message, a burst in which a partial write was observed."
        .into();
    ctx.assumptions = vec![
        "a split is 'experienced' when the receiver's socket has no queued bytes before the next segment is written".into(),
        "a partial write is recognised without tracing: the sender is stalled while the queued byte count is not a sum of whole messages".into(),
        "a receiver still blocked 10 s after the last byte / the half-close is reported as blocking forever".into(),
    ];
    ctx.exhaustive = Some(true);
    let mut cases: Vec<(Case, usize)> = Vec::new();
    let ts = targets();
    let mut bases: Vec<Outcome> = Vec::new();
    for (ti, t) in ts.iter().enumerate() {
        let len = msg_len(t);
        let base = outcome(t, &[], None);
        bases.push(base);
        let long = len > 64;
        let mut splits = two_splits(len);
        if long && ctx.tier == crate::engine::Tier::Quick && len > 600 {
            // very long messages: a selection of 2-splits in quick
            splits = splits.into_iter().filter(|s| s[0] <= 40 || s[0] % 37 == 0 || s[0] + 40 >= len).collect();
        }
        let thorough = ctx.tier == crate::engine::Tier::Thorough;
        splits.extend(three_splits(len, ctx.seed ^ ti as u64, thorough));
        splits.extend(multi_splits(len, ctx.seed ^ (ti as u64) << 20, if thorough { 1500 } else { 3 }));
        if len <= 260 {
            splits.push((1..len).collect()); // byte by byte
        }
        for s in splits {
            cases.push((Case { target: t.clone(), splits: s, cut: None, unread_close: false }, ti));
        }
        let cuts: Vec<usize> = if len > 600 && ctx.tier == crate::engine::Tier::Quick {
            (0..len).filter(|k| *k <= 40 || k % 53 == 0 || k + 40 >= len).collect()
        } else {
            (0..len).collect()
        };
        for k in cuts {
            cases.push((Case { target: t.clone(), splits: vec![], cut: Some(k), unread_close: false }, ti));
            if matches!(t, Target::BeServer(_)) {
                cases.push((Case { target: t.clone(), splits: vec![], cut: Some(k), unread_close: true }, ti));
            }
        }
    }
    // the unsplit delivery of a well-formed message must be accepted in the first place
    for (t, b) in ts.iter().zip(bases.iter()) {
        if b.result.is_err() || b.hung {
            ctx.violation("unsplit", format!("{t:?}: unsplit delivery of a well-formed message is not accepted: {:?}", b.result), t);
        }
    }
    ctx.extra.insert("deliveries".into(), json!(cases.len()));
    let mut sampled = 0;
    let bases2 = bases.clone();
    ctx.enumerate("segmentation_and_truncation", cases.iter().map(|c| c.0.clone()).collect::<Vec<_>>(), |ctx, c| {
        let ti = targets().iter().position(|t| *t == c.target).unwrap();
        let r = run_case(ctx, c, &bases2[ti]);
        sampled += 1;
        if sampled % 997 == 0 {
            ctx.sample(|| json!({"target": format!("{:?}", c.target), "len": msg_len(&c.target), "splits": c.splits, "cut": c.cut}));
        }
        r
    });

    let nb = ctx.tier.pick(40usize, 4000usize);
    let bursts: Vec<Burst> = (0..nb).map(|i| Burst { server: i % 3 == 1, gpu: i % 3 == 2, n: 3 + (i % 6) as u8, read_chunk: ((i * 31 + ctx.seed as usize) % 97) as u8 }).collect();
    ctx.enumerate("sender_bursts", bursts, |ctx, b| {
        let r = run_burst(ctx, b);
        ctx.sample(|| json!({"burst": b}));
        r
    });

    // the daemon as receiver: a stream that ends inside a request is an error of wait(), a clean disconnect only at a boundary
    let mut dcuts = Vec::new();
    for (ci, code) in [fe::SET_FEATURES, fe::SET_VRING_NUM, fe::SET_VRING_ADDR].into_iter().enumerate() {
        let len = super::c16::request_bytes(code).0.len();
        for cut in 0..=len {
            dcuts.push(super::c16::CutCase { code, cut, serve: false, rwlock: (cut + ci) % 2 == 0, half_close: cut % 3 == 1 });
        }
    }
    ctx.enumerate("daemon_stream_cut", dcuts, |ctx, c| super::c16::run_cut(ctx, c));
}
