pub mod c20;

use crate::engine::Ctx;

pub struct PropDef {
    pub id: &'static str,
    pub level: &'static str,
    pub run: fn(&mut Ctx),
    /// thorough tier forks this many worker processes (1 = in-process)
    pub shards: u32,
}

pub const PROPS: &[PropDef] = &[
    PropDef { id: "C20", level: "exploration", run: c20::run, shards: 8 },
];
