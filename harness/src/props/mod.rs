pub mod c01;
pub mod c02;
pub mod c03;
pub mod c04;
pub mod c05;
pub mod c05d;
pub mod c06;
pub mod c07;
pub mod c08;
pub mod c09;
pub mod c10;
pub mod c11;
pub mod c12;
pub mod c13;
pub mod c14;
pub mod c15;
pub mod c16;
pub mod c17;
pub mod c18;
pub mod c19;
pub mod c20;

use crate::engine::Ctx;

pub struct PropDef {
    pub id: &'static str,
    pub level: &'static str,
    pub run: fn(&mut Ctx),
    /// thorough tier forks this many worker processes (1 = in-process)
    pub shards: u32,
    /// run under a supervising parent that turns a crash of the process into a violation
    pub isolate: bool,
}

pub const PROPS: &[PropDef] = &[
    PropDef { id: "C01", level: "exploration", run: c01::run, shards: 12, isolate: false },
    PropDef { id: "C02", level: "exploration", run: c02::run, shards: 12, isolate: false },
    PropDef { id: "C03", level: "exploration", run: c03::run, shards: 12, isolate: false },
    PropDef { id: "C04", level: "exploration", run: c04::run, shards: 12, isolate: false },
    PropDef { id: "C05", level: "exploration", run: c05::run, shards: 12, isolate: true },
    PropDef { id: "C06", level: "exploration", run: c06::run, shards: 12, isolate: true },
    PropDef { id: "C07", level: "exploration", run: c07::run, shards: 8, isolate: false },
    PropDef { id: "C08", level: "fault_enumeration", run: c08::run, shards: 8, isolate: false },
    PropDef { id: "C09", level: "exploration", run: c09::run, shards: 12, isolate: true },
    PropDef { id: "C10", level: "exploration", run: c10::run, shards: 1, isolate: false },
    PropDef { id: "C11", level: "exploration", run: c11::run, shards: 12, isolate: false },
    PropDef { id: "C12", level: "exploration", run: c12::run, shards: 1, isolate: false },
    PropDef { id: "C13", level: "exploration", run: c13::run, shards: 12, isolate: true },
    PropDef { id: "C14", level: "exploration", run: c14::run, shards: 12, isolate: true },
    PropDef { id: "C15", level: "exploration", run: c15::run, shards: 12, isolate: true },
    PropDef { id: "C16", level: "fault_enumeration", run: c16::run, shards: 12, isolate: false },
    PropDef { id: "C17", level: "exploration", run: c17::run, shards: 12, isolate: false },
    PropDef { id: "C18", level: "exploration", run: c18::run, shards: 12, isolate: false },
    PropDef { id: "C19", level: "exploration", run: c19::run, shards: 8, isolate: false },
    PropDef { id: "C20", level: "exploration", run: c20::run, shards: 8, isolate: false },
];
