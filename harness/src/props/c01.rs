//! C01 — wire encoding of every message matches the vhost-user (resp. vhost-user-gpu) specification.
//!
//! Encode direction: the real Frontend, BackendReqHandler (scripted handler), Backend proxy and
//! GpuBackend are driven through their public API with generated values; a raw peer reads the first
//! byte alone (with room for 64 descriptors), then the rest, and the bytes must equal the encoding
//! produced by the independent codec `spec.rs`.  Decode direction: `spec.rs` encodes a message from
//! generated values, the raw peer writes it, the real endpoint must hand exactly those values to
//! the handler / return them from the API.

use std::os::unix::io::{AsRawFd, OwnedFd, RawFd};
use std::os::unix::net::UnixStream;
use std::sync::{Arc, Mutex};

use proptest::prelude::*;
use serde::{Deserialize, Serialize};
use serde_json::json;
use vhost::vhost_user::gpu_message::*;
use vhost::vhost_user::message::*;
use vhost::vhost_user::{Backend, Frontend, FrontendReqHandler, GpuBackend, VhostUserFrontend, VhostUserFrontendReqHandler};
use vhost::VhostBackend;

use crate::engine::{lat32, lat64, Ctx};
use crate::fdtrack::{file_id, make_fd, FdKind, FileId};
use crate::feops::{self, make_lent, op_strategy, perform, reply_for, reply_vals, wire_body, FeOp, FeState, ReplyVals, Ret};
use crate::gen::{valid_uuid, wellformed_body};
use crate::rawpeer::{self, RawMsg};
use crate::rec_backend::{FeCall, FeOutcome, FeRec, Outcome, Rec};
use crate::spec::{self, be, fe};
use crate::srv::{fresh_fds, run_stream, Chunk};
use crate::stream::call_matches_at;

// ------------------------------------------------------------------ (A) Frontend

#[derive(Serialize, Deserialize, Debug, Clone)]
pub struct FeCase {
    pub op: FeOp,
    pub rv: ReplyVals,
    pub need_reply: bool,
    /// false: only the features the operation needs are acknowledged; true: all
    pub all_features: bool,
}

/// a Frontend whose negotiation state equals `st` (replies are pre-queued by the raw peer)
pub fn frontend_in_state(st: &FeState) -> (Frontend, UnixStream) {
    let (ours, theirs) = UnixStream::pair().unwrap();
    let mut f = Frontend::from_stream(theirs, st.max_queue);
    let s = ours.as_raw_fd();
    if st.offered_vf != 0 {
        rawpeer::send_all(s, &spec::reply(fe::GET_FEATURES, &spec::b_u64(st.offered_vf)), &[]).unwrap();
        f.get_features().unwrap();
    }
    if st.acked_vf != 0 {
        f.set_features(st.acked_vf).unwrap();
    }
    if st.offered_vf & spec::VIRTIO_F_PROTOCOL_FEATURES != 0 {
        // as every real front end does: ask first.  The back end offers everything, so "offered" and
        // "acknowledged" differ whenever the state acknowledges a subset.
        rawpeer::send_all(s, &spec::reply(fe::GET_PROTOCOL_FEATURES, &spec::b_u64(0x3f_ffff)), &[]).unwrap();
        f.get_protocol_features().unwrap();
    }
    if st.acked_pf != 0 {
        f.set_protocol_features(VhostUserProtocolFeatures::from_bits_truncate(st.acked_pf)).unwrap();
    }
    if st.need_reply {
        f.set_hdr_flags(VhostUserHeaderFlag::NEED_REPLY);
    }
    let _ = rawpeer::drain(s, 1 << 16);
    (f, ours)
}

pub fn state_for(op: &FeOp, need_reply: bool, all: bool) -> FeState {
    let mut pfm = if all { 0x3f_ffff } else { 0 };
    if let Some(b) = op.pf_gate() {
        pfm |= 1 << b;
    }
    if let FeOp::SetLogBase { region: Some(_), .. } = op {
        if all {
            pfm |= 2;
        }
    }
    if need_reply {
        pfm |= 8;
    }
    FeState { max_queue: 0x8000, offered_vf: spec::VIRTIO_F_PROTOCOL_FEATURES | 0x1_0000_0000, acked_vf: spec::VIRTIO_F_PROTOCOL_FEATURES | 0x1_0000_0000, acked_pf: pfm, need_reply }
}

fn ids_of(fds: &[OwnedFd]) -> Vec<FileId> {
    fds.iter().filter_map(|f| file_id(f.as_raw_fd())).collect()
}

fn check_one_message(what: &str, msgs: &[RawMsg], leftover: &[u8], want: &[u8], want_ids: &[FileId]) -> Result<(), String> {
    if !leftover.is_empty() {
        return Err(format!("{what}: {} trailing bytes that do not form a message", leftover.len()));
    }
    if msgs.len() != 1 {
        return Err(format!("{what}: {} messages on the wire, exactly one expected", msgs.len()));
    }
    let m = &msgs[0];
    // the inflight description is 24 bytes on the wire, its last 4 bytes are structure padding whose
    // content the specification does not define (the crate sends uninitialised bytes there): masked
    let mut got_bytes = m.bytes.clone();
    let code = if want.len() >= 12 { spec::parse_hdr(want).0 } else { 0 };
    if what.starts_with("Frontend::") && (code == fe::GET_INFLIGHT_FD || code == fe::SET_INFLIGHT_FD) && got_bytes.len() == 36 && want.len() == 36 {
        got_bytes[32..36].copy_from_slice(&want[32..36]);
    }
    if got_bytes != want {
        let k = m.bytes.iter().zip(want.iter()).position(|(a, b)| a != b).unwrap_or(m.bytes.len().min(want.len()));
        return Err(format!(
            "{what}: wire bytes differ from the specification encoding at offset {k}: got {:x?} ({} bytes), spec {:x?} ({} bytes)",
            &m.bytes[k.saturating_sub(4)..(k + 12).min(m.bytes.len())],
            m.bytes.len(),
            &want[k.saturating_sub(4)..(k + 12).min(want.len())],
            want.len()
        ));
    }
    if m.fds_later != 0 {
        return Err(format!("{what}: {} descriptors arrived on bytes after the first", m.fds_later));
    }
    let got: Vec<FileId> = ids_of(&m.fds_first);
    if got != want_ids {
        return Err(format!("{what}: descriptors on byte 0 are {got:?}, passed {want_ids:?}"));
    }
    Ok(())
}

pub fn run_fe_case(ctx: &mut Ctx, c: &FeCase) -> Result<(), String> {
    let st = state_for(&c.op, c.need_reply, c.all_features);
    if feops::locally_rejected(&c.op, &st) || feops::oversized(&c.op) {
        ctx.class("fe_locally_rejected_skipped");
        return Ok(());
    }
    let (mut f, peer) = frontend_in_state(&st);
    let mut lent = make_lent(&c.op);
    let mut want_ids = lent.wire_ids();
    want_ids.truncate(wire_body(&c.op, &st).1);
    // pre-queue what a conforming back end answers
    let reply = reply_for(&c.op, &st, &c.rv);
    let mut reply_fd_ids = Vec::new();
    if let Some((bytes, nfds, _)) = &reply {
        let fds = fresh_fds(*nfds, FdKind::Memfd);
        reply_fd_ids = ids_of(&fds);
        let raw: Vec<RawFd> = fds.iter().map(|x| x.as_raw_fd()).collect();
        // a conforming peer may write the reply in pieces (libvhost-user writes header and payload separately);
        // descriptors ride on the first byte
        let k = if c.rv.split == 0 || bytes.len() < 2 { bytes.len() } else { 1 + ((c.rv.split as usize * (bytes.len() - 1)) >> 16) };
        rawpeer::send_all(peer.as_raw_fd(), &bytes[..k], &raw).map_err(|e| e.to_string())?;
        if k < bytes.len() {
            rawpeer::send_all(peer.as_raw_fd(), &bytes[k..], &[]).map_err(|e| e.to_string())?;
            ctx.class(if *nfds > 0 { "fe_reply_in_two_pieces_with_descriptor" } else { "fe_reply_in_two_pieces" });
        }
    } else if c.op.awaits_ack(&st) {
        rawpeer::send_all(peer.as_raw_fd(), &spec::reply(c.op.code(), &spec::b_u64(0)), &[]).map_err(|e| e.to_string())?;
    }
    let ret = perform(&mut f, &c.op, &mut lent);
    let (msgs, leftover) = rawpeer::drain_messages(peer.as_raw_fd()).map_err(|e| e.to_string())?;
    let (body, _n) = wire_body(&c.op, &st);
    let want = spec::msg(c.op.code(), spec::F_VERSION | if c.need_reply { spec::F_NEED_REPLY } else { 0 }, &body);
    check_one_message(&format!("Frontend::{} {:?}", c.op.name(), c.op), &msgs, &leftover, &want, &want_ids)?;
    // decode direction of the reply
    let ret = ret.map_err(|e| format!("Frontend::{}: conforming reply rejected: {e}", c.op.name()))?;
    if let Some((_, _, want_ret)) = reply {
        let want_ret = match want_ret {
            Ret::File(_) => Ret::File(reply_fd_ids.first().copied()),
            Ret::Inflight(a, b, cc, _) => Ret::Inflight(a, b, cc, reply_fd_ids.first().copied()),
            Ret::OptFile(Some(_)) => Ret::OptFile(Some(reply_fd_ids.first().copied())),
            r => r,
        };
        if ret != want_ret {
            return Err(format!("Frontend::{}: returned {ret:?}, the reply encoded {want_ret:?}", c.op.name()));
        }
    }
    // lent descriptors are still open
    for fd in &lent.owned {
        if !crate::fdtrack::is_open(fd.as_raw_fd()) {
            return Err(format!("Frontend::{}: a lent descriptor was closed", c.op.name()));
        }
    }
    let nz = body.iter().any(|b| *b != 0);
    if nz && (!body.is_empty() || !want_ids.is_empty()) {
        ctx.nontrivial(&("fe", c.op.code(), c.need_reply, c.all_features, crate::engine::hash_of(&body) % 64));
    }
    ctx.class("fe_encode");
    ctx.sample(|| json!({"channel": "frontend", "op": c.op, "need_reply": c.need_reply, "wire_len": want.len(), "nfds": want_ids.len()}));
    Ok(())
}

// ------------------------------------------------------------------ (B) back-end server

#[derive(Serialize, Deserialize, Debug, Clone)]
pub struct BeCase {
    pub code: u32,
    pub body: Vec<u8>,
    pub nfds: usize,
    pub need_reply: bool,
    pub outcome: Outcome,
}

pub fn run_be_case(ctx: &mut Ctx, c: &BeCase) -> Result<(), String> {
    // encode direction of replies/acks + consumption: the C04 machinery on a one-request history behind a full negotiation
    let neg = |code: u32, body: Vec<u8>| super::c04::Req { code, need_reply: false, body, nfds: 0, outcome: Outcome::default() };
    let h = super::c04::Hist {
        dev_features: spec::VIRTIO_F_PROTOCOL_FEATURES | 0x1_0000_0003,
        dev_pf: 0x3f_ffff,
        reqs: vec![
            neg(fe::GET_FEATURES, vec![]),
            neg(fe::SET_FEATURES, spec::b_u64(spec::VIRTIO_F_PROTOCOL_FEATURES | 3)),
            neg(fe::GET_PROTOCOL_FEATURES, vec![]),
            neg(fe::SET_PROTOCOL_FEATURES, spec::b_u64(0x3f_ffff)),
            super::c04::Req { code: c.code, need_reply: c.need_reply, body: c.body.clone(), nfds: c.nfds, outcome: c.outcome.clone() },
        ],
    };
    {
        // run silently: its counters belong to C04
        let mut scratch = Ctx::new("C01", ctx.tier, ctx.seed, "exploration");
        super::c04::run_hist(&mut scratch, &h).map_err(|e| format!("back-end server, request code {}: {e}", c.code))?;
    }
    // decode direction: the handler must receive exactly the encoded values and the very descriptors
    let s = spec::fe_req(c.code).unwrap();
    if !spec::fe_implemented(s) {
        return Ok(());
    }
    let mut rec = Rec::new(h.dev_features, h.dev_pf);
    rec.hold_files = true;
    let fds = fresh_fds(c.nfds, FdKind::Memfd);
    let ids = ids_of(&fds);
    let msg = spec::request(c.code, c.need_reply, &c.body);
    let mut chunks: Vec<Chunk> = h.reqs[..4].iter().map(|r| Chunk { bytes: spec::request(r.code, false, &r.body), fds: vec![] }).collect();
    chunks.push(Chunk { bytes: msg.clone(), fds });
    let run = run_stream(rec, chunks, 8);
    let call = run.log.get(4).ok_or_else(|| format!("request code {} did not reach the handler (results {:?})", c.code, run.results))?;
    if !call_matches_at(&msg, 0, call) {
        return Err(format!("back-end server decoded request code {} body {:x?} as {call:?}", c.code, &c.body[..c.body.len().min(48)]));
    }
    // descriptor identities as seen by the handler
    let got: Vec<FileId> = match call {
        crate::rec_backend::Call::SetMemTable(_, f) => f.clone(),
        crate::rec_backend::Call::SetVringKick(_, f) | crate::rec_backend::Call::SetVringCall(_, f) | crate::rec_backend::Call::SetVringErr(_, f) => f.iter().copied().collect(),
        crate::rec_backend::Call::SetInflightFd(_, f) | crate::rec_backend::Call::AddMemRegion(_, f) | crate::rec_backend::Call::SetDeviceStateFd(_, _, f) | crate::rec_backend::Call::SetLogBase(_, _, f) => vec![*f],
        _ => ids.clone(),
    };
    if got != ids {
        return Err(format!("request code {}: handler received descriptors {got:?}, the peer attached {ids:?}", c.code));
    }
    run.rec.lock().unwrap().held.clear();
    if c.body.iter().any(|b| *b != 0) {
        ctx.nontrivial(&("be", c.code, c.need_reply, c.outcome.fail, crate::engine::hash_of(&c.body) % 64));
    }
    ctx.class("be_server_decode_and_reply");
    ctx.sample(|| json!({"channel": "backend-server", "code": c.code, "body_len": c.body.len(), "nfds": c.nfds, "need_reply": c.need_reply, "outcome": c.outcome}));
    Ok(())
}

// ------------------------------------------------------------------ (C)+(D) back-end initiated requests

#[derive(Serialize, Deserialize, Debug, Clone)]
pub struct BrCase {
    pub kind: u8,
    pub uuid: [u8; 16],
    pub mmap: [u64; 5],
    pub reply_ack: bool,
    pub handler: FeOutcome,
}

fn br_code(kind: u8) -> u32 {
    [be::SHARED_OBJECT_ADD, be::SHARED_OBJECT_REMOVE, be::SHARED_OBJECT_LOOKUP, be::SHMEM_MAP, be::SHMEM_UNMAP][kind as usize % 5]
}

pub fn run_br_case(ctx: &mut Ctx, c: &BrCase) -> Result<(), String> {
    let code = br_code(c.kind);
    let body = if code <= be::SHARED_OBJECT_LOOKUP { c.uuid.to_vec() } else { spec::b_mmap(c.mmap[0] as u8, c.mmap[1], c.mmap[2], c.mmap[3], c.mmap[4]) };
    let has_fd = code == be::SHARED_OBJECT_LOOKUP || code == be::SHMEM_MAP;
    // (C) the proxy's encoding
    let (peer, theirs) = UnixStream::pair().unwrap();
    let b = Backend::from_stream(theirs);
    b.set_reply_ack_flag(c.reply_ack);
    b.set_shared_object_flag(true);
    b.set_shmem_flag(true);
    if c.reply_ack {
        rawpeer::send_all(peer.as_raw_fd(), &spec::reply(code, &spec::b_u64(0)), &[]).map_err(|e| e.to_string())?;
    }
    let fd = make_fd(FdKind::Memfd);
    let mut u = VhostUserSharedMsg::default();
    u.uuid = uuid::Uuid::from_bytes(c.uuid);
    let mm = VhostUserMMap { shmid: c.mmap[0] as u8, padding: [0; 7], fd_offset: c.mmap[1], shm_offset: c.mmap[2], len: c.mmap[3], flags: c.mmap[4] };
    let r = match code {
        be::SHARED_OBJECT_ADD => b.shared_object_add(&u),
        be::SHARED_OBJECT_REMOVE => b.shared_object_remove(&u),
        be::SHARED_OBJECT_LOOKUP => b.shared_object_lookup(&u, &fd),
        be::SHMEM_MAP => b.shmem_map(&mm, &fd),
        _ => b.shmem_unmap(&mm),
    };
    r.map_err(|e| format!("Backend proxy request code {code}: {e}"))?;
    let (msgs, leftover) = rawpeer::drain_messages(peer.as_raw_fd()).map_err(|e| e.to_string())?;
    let want = spec::msg(code, spec::F_VERSION | if c.reply_ack { spec::F_NEED_REPLY } else { 0 }, &body);
    let want_ids: Vec<FileId> = if has_fd { file_id(fd.as_raw_fd()).into_iter().collect() } else { vec![] };
    check_one_message(&format!("Backend proxy request code {code}"), &msgs, &leftover, &want, &want_ids)?;

    // (D) the front-end side server's decoding and its acknowledgement encoding
    let rec = Arc::new(Mutex::new(FeRec::new()));
    rec.lock().unwrap().script.push_back(c.handler.clone());
    let mut server = FrontendReqHandler::new(rec.clone()).map_err(|e| format!("{e:?}"))?;
    server.set_reply_ack_flag(c.reply_ack);
    let tx = crate::daemon_fx::dup_fd(server.get_tx_raw_fd());
    let fds: Vec<OwnedFd> = if has_fd { vec![make_fd(FdKind::Memfd)] } else { vec![] };
    let ids = ids_of(&fds);
    let raw: Vec<RawFd> = fds.iter().map(|f| f.as_raw_fd()).collect();
    rawpeer::send_all(tx.as_raw_fd(), &spec::request(code, c.reply_ack, &body), &raw).map_err(|e| e.to_string())?;
    let _ = server.handle_request();
    let log = rec.lock().unwrap().log.clone();
    let m5 = [c.mmap[0] as u8 as u64, c.mmap[1], c.mmap[2], c.mmap[3], c.mmap[4]];
    let want_call = match code {
        be::SHARED_OBJECT_ADD => FeCall::SharedObjectAdd(c.uuid),
        be::SHARED_OBJECT_REMOVE => FeCall::SharedObjectRemove(c.uuid),
        be::SHARED_OBJECT_LOOKUP => FeCall::SharedObjectLookup(c.uuid, ids[0]),
        be::SHMEM_MAP => FeCall::ShmemMap(m5, ids[0]),
        _ => FeCall::ShmemUnmap(m5),
    };
    if log != vec![want_call.clone()] {
        return Err(format!("front-end request server decoded code {code} as {log:?}, the peer encoded {want_call:?}"));
    }
    let (acks, leftover) = rawpeer::drain_messages(tx.as_raw_fd()).map_err(|e| e.to_string())?;
    if c.reply_ack {
        let v = match &c.handler {
            FeOutcome::Ok(v) => *v,
            FeOutcome::Errno(e) => (-(*e as i64)) as u64,
            FeOutcome::Other => (-(libc::EINVAL as i64)) as u64,
        };
        check_one_message(&format!("acknowledgement of back-end request code {code}"), &acks, &leftover, &spec::reply(code, &spec::b_u64(v)), &[])?;
    } else if !acks.is_empty() || !leftover.is_empty() {
        return Err(format!("back-end request code {code} without NEED_REPLY was acknowledged"));
    }
    ctx.nontrivial(&("br", code, c.reply_ack, crate::engine::hash_of(&body) % 64));
    ctx.class("backend_initiated_request");
    ctx.sample(|| json!({"channel": "backend-request", "code": code, "reply_ack": c.reply_ack, "handler": c.handler}));
    Ok(())
}

// ------------------------------------------------------------------ (E) GPU channel

#[derive(Serialize, Deserialize, Debug, Clone)]
pub struct GpuCase {
    pub kind: u8,
    pub w: Vec<u32>,
    pub m: u64,
    pub data_len: u16,
    pub with_fd: bool,
    pub reply_seed: u8,
}

pub fn run_gpu_case(ctx: &mut Ctx, c: &GpuCase) -> Result<(), String> {
    let (peer, theirs) = UnixStream::pair().unwrap();
    let g = GpuBackend::from_stream(theirs);
    let w = |i: usize| c.w.get(i).copied().unwrap_or(0);
    let kind = c.kind % 12;
    let code = kind as u32 + 1;
    let data: Vec<u8> = (0..c.data_len as usize).map(|i| (i as u8).wrapping_mul(7).wrapping_add(c.reply_seed)).collect();
    let fd = make_fd(FdKind::Memfd);
    let fdopt = if c.with_fd { Some(&fd) } else { None };
    let mut reply_body: Option<Vec<u8>> = None;
    // replies are pre-queued
    match code {
        spec::gpu::GET_PROTOCOL_FEATURES => reply_body = Some(spec::b_u64(c.m)),
        spec::gpu::GET_DISPLAY_INFO => reply_body = Some((0..spec::GPU_DISPLAY_INFO_SIZE).map(|i| (i as u8).wrapping_mul(13).wrapping_add(c.reply_seed)).collect()),
        spec::gpu::GET_EDID => reply_body = Some((0..spec::GPU_EDID_RESP_SIZE).map(|i| (i as u8).wrapping_mul(11).wrapping_add(c.reply_seed)).collect()),
        spec::gpu::DMABUF_UPDATE => reply_body = Some(vec![]),
        _ => {}
    }
    if let Some(b) = &reply_body {
        rawpeer::send_all(peer.as_raw_fd(), &spec::msg(code, spec::gpu::F_REPLY, b), &[]).map_err(|e| e.to_string())?;
    }
    let scan = VhostUserGpuDMABUFScanout { scanout_id: w(0), x: w(1), y: w(2), width: w(3), height: w(4), fd_width: w(5), fd_height: w(6), fd_stride: w(7), fd_flags: w(8), fd_drm_fourcc: w(9) };
    let upd = VhostUserGpuUpdate { scanout_id: w(0), x: w(1), y: w(2), width: w(3), height: w(4) };
    let pos = VhostUserGpuCursorPos { scanout_id: w(0), x: w(1), y: w(2) };
    let mut cursor = [0u8; 4 * 64 * 64];
    for (i, x) in cursor.iter_mut().enumerate() {
        *x = (i as u8).wrapping_add(c.reply_seed);
    }
    let e = |e: std::io::Error| e.to_string();
    let (want_body, want_fd): (Vec<u8>, bool) = match code {
        spec::gpu::GET_PROTOCOL_FEATURES => {
            let v = g.get_protocol_features().map_err(e)?;
            if v.value != c.m {
                return Err(format!("GpuBackend::get_protocol_features returned {:#x}, reply encoded {:#x}", v.value, c.m));
            }
            (vec![], false)
        }
        spec::gpu::SET_PROTOCOL_FEATURES => {
            g.set_protocol_features(&VhostUserU64::new(c.m)).map_err(e)?;
            (spec::b_u64(c.m), false)
        }
        spec::gpu::GET_DISPLAY_INFO => {
            let d = g.get_display_info().map_err(e)?;
            let b = reply_body.as_ref().unwrap();
            let i = (c.reply_seed as usize) % 16;
            let o = 24 + 24 * i;
            let want = (spec::rd_u32(b, 0), spec::rd_u32(b, 4), spec::rd_u64(b, 8), spec::rd_u32(b, 16), b[20], spec::rd_u32(b, o), spec::rd_u32(b, o + 4), spec::rd_u32(b, o + 8), spec::rd_u32(b, o + 12), spec::rd_u32(b, o + 16), spec::rd_u32(b, o + 20));
            let got = (d.hdr.type_, d.hdr.flags, d.hdr.fence_id, d.hdr.ctx_id, d.hdr.ring_idx, d.pmodes[i].r.x, d.pmodes[i].r.y, d.pmodes[i].r.width, d.pmodes[i].r.height, d.pmodes[i].enabled, d.pmodes[i].flags);
            if got != want {
                return Err(format!("GpuBackend::get_display_info decoded {got:?}, reply encoded {want:?} (pmode {i})"));
            }
            (vec![], false)
        }
        spec::gpu::CURSOR_POS => {
            g.cursor_pos(&pos).map_err(e)?;
            (spec::b_u32s(&[w(0), w(1), w(2)]), false)
        }
        spec::gpu::CURSOR_POS_HIDE => {
            g.cursor_pos_hide(&pos).map_err(e)?;
            (spec::b_u32s(&[w(0), w(1), w(2)]), false)
        }
        spec::gpu::CURSOR_UPDATE => {
            g.cursor_update(&VhostUserGpuCursorUpdate { pos, hot_x: w(3), hot_y: w(4) }, &cursor).map_err(e)?;
            let mut b = spec::b_u32s(&[w(0), w(1), w(2), w(3), w(4)]);
            b.extend_from_slice(&cursor);
            (b, false)
        }
        spec::gpu::SCANOUT => {
            g.set_scanout(&VhostUserGpuScanout { scanout_id: w(0), width: w(1), height: w(2) }).map_err(e)?;
            (spec::b_u32s(&[w(0), w(1), w(2)]), false)
        }
        spec::gpu::UPDATE => {
            g.update_scanout(&upd, &data).map_err(e)?;
            let mut b = spec::b_u32s(&[w(0), w(1), w(2), w(3), w(4)]);
            b.extend_from_slice(&data);
            (b, false)
        }
        spec::gpu::DMABUF_SCANOUT => {
            g.set_dmabuf_scanout(&scan, fdopt).map_err(e)?;
            (spec::b_u32s(&c.w[..10.min(c.w.len())].iter().copied().chain(std::iter::repeat(0)).take(10).collect::<Vec<_>>()), c.with_fd)
        }
        spec::gpu::DMABUF_UPDATE => {
            g.update_dmabuf_scanout(&upd).map_err(e)?;
            (spec::b_u32s(&[w(0), w(1), w(2), w(3), w(4)]), false)
        }
        spec::gpu::GET_EDID => {
            let d = g.get_edid(&VhostUserGpuEdidRequest { scanout_id: w(0) }).map_err(e)?;
            let b = reply_body.as_ref().unwrap();
            if d.size != spec::rd_u32(b, 24) || d.hdr.type_ != spec::rd_u32(b, 0) || d.edid[..] != b[32..32 + 1024] {
                return Err("GpuBackend::get_edid decoded different values than the reply encoded".into());
            }
            (spec::b_u32s(&[w(0)]), false)
        }
        _ => {
            g.set_dmabuf_scanout2(&VhostUserGpuDMABUFScanout2 { dmabuf_scanout: scan, modifier: c.m }, fdopt).map_err(e)?;
            let mut b = spec::b_u32s(&c.w[..10.min(c.w.len())].iter().copied().chain(std::iter::repeat(0)).take(10).collect::<Vec<_>>());
            b.extend_from_slice(&c.m.to_ne_bytes());
            (b, c.with_fd)
        }
    };
    let (msgs, leftover) = rawpeer::drain_messages(peer.as_raw_fd()).map_err(|e| e.to_string())?;
    // GPU header: request code, flags 0 (only REPLY exists), payload size
    let want = spec::msg(code, 0, &want_body);
    let want_ids: Vec<FileId> = if want_fd { file_id(fd.as_raw_fd()).into_iter().collect() } else { vec![] };
    check_one_message(&format!("GpuBackend request code {code}"), &msgs, &leftover, &want, &want_ids)?;
    ctx.nontrivial(&("gpu", code, c.with_fd, crate::engine::hash_of(&want_body) % 64));
    ctx.class("gpu_request");
    ctx.sample(|| json!({"channel": "gpu", "code": code, "words": c.w, "wire_len": want.len(), "with_fd": want_fd}));
    Ok(())
}

pub fn run(ctx: &mut Ctx) {
    ctx.rule = "per channel and direction: (A) every Frontend operation with generated arguments (lattice + random 64-bit values, config windows over \
                the whole range, 1..=32 regions, every descriptor kind) x NEED_REPLY on/off x {minimal, all} acknowledged features: request bytes \
                and descriptors vs spec.rs, and the conforming reply (pre-queued by the raw peer) vs the returned value; (B) every request code \
                with a generated well-formed body against the real BackendReqHandler: handler arguments and descriptor identities vs the encoded \
                values, reply/ack bytes vs spec.rs (scripted handler results); (C,D) the five back-end-initiated requests through the Backend proxy \
                and the FrontendReqHandler incl. acknowledgement values; (E) the twelve GPU requests and four GPU replies. The raw peer reads byte 0 \
                of every message alone with room for 64 descriptors. Non-trivial = a message with a non-zero field and a payload or descriptor; \
                distinct by (channel, code, flags/feature configuration, value class)."
        .into();
    ctx.assumptions = vec![
        "spec.rs is hand-transcribed from the vhost-user / vhost-user-gpu specifications (trusted base; the sandbox has no copy of the text)".into(),
        "spec-silent bytes (4 padding bytes of the inflight description, payload of the SET_LOG_BASE reply) are not compared".into(),
        "calls the Frontend API must reject locally are C02's subject and skipped here".into(),
    ];
    // exhaustive dimensions: every config payload length, every region count
    let step = ctx.tier.pick(7usize, 1usize);
    let mut ex: Vec<FeCase> = Vec::new();
    for len in (1..=4084usize).filter(|l| l % step == 0 || *l < 20 || *l > 4070) {
        let off = (4096 - len).min(len * 3 % 4096) as u32;
        let off = off.min(4096 - len as u32);
        ex.push(FeCase { op: FeOp::SetConfig { off, flags: (len % 4) as u32, buf: (0..len).map(|i| (i * 7 + len) as u8).collect() }, rv: ReplyVals::default(), need_reply: len % 2 == 0, all_features: len % 3 == 0 });
        ex.push(FeCase { op: FeOp::GetConfig { off, size: len as u32, flags: (len % 4) as u32 }, rv: ReplyVals { bytes_seed: len as u8, ..Default::default() }, need_reply: len % 2 == 1, all_features: true });
    }
    for n in 1..=32usize {
        let regs: Vec<feops::Reg> = (0..n).map(|k| feops::Reg { f: [0x10000 * k as u64 + n as u64, 0x1000 + k as u64, u64::MAX - 0x10_0000 * (k as u64 + 1), k as u64], kind: crate::fdtrack::FD_KINDS[k % 5], share: k % 3 == 2 }).collect();
        ex.push(FeCase { op: FeOp::SetMemTable(regs), rv: ReplyVals::default(), need_reply: n % 2 == 0, all_features: true });
    }
    ctx.extra.insert("exhaustive_lengths_and_counts".into(), json!(ex.len()));
    ctx.enumerate("frontend_every_length", ex, |ctx, c| run_fe_case(ctx, c));

    let n = ctx.tier.pick(30_000u32, 4_000_000u32);
    let fes = (op_strategy(), reply_vals(), any::<bool>(), any::<bool>()).prop_map(|(op, rv, need_reply, all_features)| FeCase { op, rv, need_reply, all_features });
    ctx.prop_check("frontend", n, fes, |ctx, c| run_fe_case(ctx, c));

    let n = ctx.tier.pick(20_000u32, 3_000_000u32);
    let bes = (1u32..=44)
        .prop_flat_map(|code| (Just(code), wellformed_body(code), any::<bool>(), super::c04::req_strategy()))
        .prop_map(|(code, (body, nfds), need_reply, r)| BeCase { code, body, nfds, need_reply, outcome: if matches!(code, 2 | 16) { Outcome::default() } else { Outcome { val: if matches!(code, 1 | 15) { None } else { r.outcome.val }, ..r.outcome } } });
    ctx.prop_check("backend_server", n, bes, |ctx, c| run_be_case(ctx, c));

    let n = ctx.tier.pick(10_000u32, 2_000_000u32);
    let mm = (any::<u8>(), lat64(), lat64(), lat64(), 0u64..2).prop_map(|(id, a, b, len, fl)| {
        let len = len.max(1);
        let fit = |x: u64| if (x as u128 + len as u128) < (1u128 << 64) { x } else { u64::MAX - len };
        [id as u64, fit(a), fit(b), len, fl]
    });
    let ho = prop_oneof![2 => Just(FeOutcome::Ok(0)), 2 => lat64().prop_map(FeOutcome::Ok), 2 => (1i32..4096).prop_map(FeOutcome::Errno), 1 => Just(FeOutcome::Other)];
    let brs = (0u8..5, valid_uuid(), mm, any::<bool>(), ho).prop_map(|(kind, uuid, mmap, reply_ack, handler)| BrCase { kind, uuid, mmap, reply_ack, handler });
    ctx.prop_check("backend_initiated", n, brs, |ctx, c| run_br_case(ctx, c));

    let n = ctx.tier.pick(10_000u32, 2_000_000u32);
    let gs = (0u8..12, proptest::collection::vec(lat32(), 10..=10), lat64(), prop_oneof![Just(0u16), 1u16..4096], any::<bool>(), any::<u8>())
        .prop_map(|(kind, w, m, data_len, with_fd, reply_seed)| GpuCase { kind, w, m, data_len, with_fd, reply_seed });
    ctx.prop_check("gpu", n, gs, |ctx, c| run_gpu_case(ctx, c));
}
