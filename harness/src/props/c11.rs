//! C11 — vring state follows the protocol: kicks are dispatched iff started and enabled.
//!
//! G: control-message histories on a real daemon (Mutex- and RwLock-backed rings, one worker),
//!    sent by a raw spec-encoding client with NEED_REPLY so every step is synchronous; exhaustive
//!    to a bounded depth over the 1-ring alphabet, random beyond (2 rings).
//! O: reference ring model; after every step a double barrier on the worker, then the number of
//!    event-handler invocations per ring since the previous step is compared with the model.

use std::os::unix::io::AsRawFd;
use std::time::Duration;

use proptest::prelude::*;
use serde::{Deserialize, Serialize};
use serde_json::json;
use vhost_user_backend::VringT;
use vmm_sys_util::eventfd::EventFd;

use crate::daemon_fx::{new_eventfd, BeCfg, Fx, VMutex, VRw, GM};
use crate::engine::Ctx;
use crate::fdtrack::{count_id, file_id};
use crate::rawclient::RawClient;
use crate::sched::Sched;
use crate::spec::{self, fe};

#[derive(Serialize, Deserialize, Debug, Clone, Copy, Hash, PartialEq, Eq)]
pub enum Op {
    /// SET_FEATURES with / without VHOST_USER_F_PROTOCOL_FEATURES
    SetFeatures { pf: bool },
    KickFd { r: u8, some: bool },
    CallFd { r: u8, some: bool },
    Enable { r: u8, on: bool },
    GetBase { r: u8 },
    Reset,
    /// guest kick on the ring's current kick descriptor
    Kick { r: u8 },
    /// guest kick on a descriptor the ring no longer uses (replaced, or dropped by GET_VRING_BASE);
    /// the front end still holds it open, as a real VMM does
    KickStale { r: u8 },
}

#[derive(Serialize, Deserialize, Debug, Clone, Hash, PartialEq, Eq)]
pub struct Hist {
    pub rwlock: bool,
    pub nrings: u8,
    pub ops: Vec<Op>,
    /// one worker per ring (queues_per_thread = [0b01, 0b10, ..]) instead of one worker for all
    #[serde(default)]
    pub split: bool,
}

#[derive(Default, Clone)]
struct Ring {
    started: bool,
    enabled: bool,
    kick: Option<usize>, // index into the harness's eventfd table
    pending: u32,
}

pub const F5_SIG: &str = "C11/F5-kick-descriptor-replaced-on-started-ring-not-registered";

fn run_generic<V: VringT<GM> + Clone + Send + Sync + 'static>(ctx: &mut Ctx, h: &Hist) -> Result<(), String> {
    let n = h.nrings as usize;
    let split = h.split && n > 1;
    let cfg = if split { BeCfg { num_queues: n, queues_per_thread: (0..n).map(|r| 1u64 << r).collect(), ..Default::default() } } else { BeCfg { num_queues: n, ..Default::default() } };
    // which ring a handler call is for: the worker's id when every ring has its own worker, else the event id
    let ring_of = |e: &crate::daemon_fx::Event| if split { e.thread_id } else { e.device_event as usize };
    let mut fx: Fx<V> = Fx::new(cfg).map_err(|e| format!("fixture: {e}"))?;
    fx.connect().map_err(|e| format!("fixture: {e}"))?;
    let cl = RawClient::new(fx.peer.as_ref().unwrap().try_clone().unwrap());
    // negotiation: protocol features (all offered, incl. REPLY_ACK and RESET_DEVICE); no SET_FEATURES yet
    let (b, _) = cl.get(fe::GET_FEATURES, &[], &[]).map_err(|e| format!("negotiation: {e}"))?;
    let feats = spec::rd_u64(&b, 0);
    let (b, _) = cl.get(fe::GET_PROTOCOL_FEATURES, &[], &[]).map_err(|e| format!("negotiation: {e}"))?;
    let pf = spec::rd_u64(&b, 0);
    cl.send(fe::SET_PROTOCOL_FEATURES, false, &spec::b_u64(pf), &[]).map_err(|e| format!("negotiation: {e}"))?;

    let mut rings: Vec<Ring> = vec![Ring::default(); n];
    let mut handler_pf = false; // the daemon's view of VHOST_USER_F_PROTOCOL_FEATURES
    let mut fds: Vec<EventFd> = Vec::new();
    let mut seen = 0usize;
    let mut nt_inactive_kick = vec![false; n];
    let mut nontrivial = false;
    let mut f5_triggered = vec![false; n];
    let mut stale: Vec<Vec<usize>> = vec![Vec::new(); n];

    for (i, op) in h.ops.iter().enumerate() {
        let desc = format!("op #{i} {op:?}");
        match *op {
            Op::SetFeatures { pf } => {
                let v = (feats & (1 << 32)) | if pf { spec::VIRTIO_F_PROTOCOL_FEATURES } else { 0 };
                let a = cl.ack(fe::SET_FEATURES, &spec::b_u64(v), &[]).map_err(|e| format!("{desc}: {e}"))?;
                if a != 0 {
                    return Err(format!("{desc}: SET_FEATURES of an offered subset was refused (ack {a})"));
                }
                handler_pf = pf;
                if !pf {
                    for (r, ring) in rings.iter_mut().enumerate() {
                        if !ring.enabled && ring.started && nt_inactive_kick[r] {
                            nontrivial = true;
                        }
                        ring.enabled = true;
                    }
                }
            }
            Op::KickFd { r, some } => {
                let r = r as usize % n;
                if some {
                    let e = new_eventfd();
                    let a = cl.ack(fe::SET_VRING_KICK, &spec::b_u64(r as u64), &[e.as_raw_fd()]).map_err(|e| format!("{desc}: {e}"))?;
                    if a != 0 {
                        return Err(format!("{desc}: refused (ack {a})"));
                    }
                    if rings[r].started {
                        nontrivial = true; // descriptor replacement on a started ring
                        f5_triggered[r] = true;
                    }
                    fds.push(e);
                    if let Some(old) = rings[r].kick {
                        stale[r].push(old);
                    }
                    rings[r].kick = Some(fds.len() - 1);
                    rings[r].started = true;
                    rings[r].pending = 0;
                } else {
                    let a = cl.ack(fe::SET_VRING_KICK, &spec::b_u64(r as u64 | 0x100), &[]).map_err(|e| format!("{desc}: {e}"))?;
                    if a != 0 {
                        return Err(format!("{desc}: refused (ack {a})"));
                    }
                    if let Some(old) = rings[r].kick {
                        stale[r].push(old);
                    }
                    rings[r].kick = None;
                    rings[r].pending = 0;
                }
            }
            Op::CallFd { r, some } => {
                let r = r as usize % n;
                let a = if some {
                    let e = new_eventfd();
                    cl.ack(fe::SET_VRING_CALL, &spec::b_u64(r as u64), &[e.as_raw_fd()])
                } else {
                    cl.ack(fe::SET_VRING_CALL, &spec::b_u64(r as u64 | 0x100), &[])
                }
                .map_err(|e| format!("{desc}: {e}"))?;
                if a != 0 {
                    return Err(format!("{desc}: refused (ack {a})"));
                }
            }
            Op::Enable { r, on } => {
                let r = r as usize % n;
                if !handler_pf {
                    ctx.class("op_skipped_needs_protocol_features");
                    continue;
                }
                let a = cl.ack(fe::SET_VRING_ENABLE, &spec::b_vring_state(r as u32, on as u32), &[]).map_err(|e| format!("{desc}: {e}"))?;
                if a != 0 {
                    return Err(format!("{desc}: refused (ack {a})"));
                }
                if on && !rings[r].enabled && rings[r].started && nt_inactive_kick[r] {
                    nontrivial = true;
                }
                if !on && rings[r].enabled && rings[r].started {
                    nontrivial = true;
                }
                rings[r].enabled = on;
            }
            Op::GetBase { r } => {
                let r = r as usize % n;
                let (b, rf) = cl.get(fe::GET_VRING_BASE, &spec::b_vring_state(r as u32, 0), &[]).map_err(|e| format!("{desc}: {e}"))?;
                if b.len() != 8 || !rf.is_empty() || spec::rd_u32(&b, 0) != r as u32 || spec::rd_u32(&b, 4) != 0 {
                    return Err(format!("{desc}: reply {b:x?} is not (index {r}, next-available 0)"));
                }
                if rings[r].started && rings[r].enabled {
                    nontrivial = true; // stop of an active ring
                }
                if let Some(k) = rings[r].kick {
                    // the daemon must have dropped its copy of the kick descriptor
                    let id = file_id(fds[k].as_raw_fd()).unwrap();
                    let cnt = count_id(&id);
                    if cnt != 1 {
                        return Err(format!("{desc}: after GET_VRING_BASE {cnt} descriptors for the ring's kick eventfd are open (harness holds 1)"));
                    }
                }
                if let Some(old) = rings[r].kick {
                    stale[r].push(old);
                }
                rings[r].started = false;
                rings[r].kick = None;
                rings[r].pending = 0;
            }
            Op::Reset => {
                let a = cl.ack(fe::RESET_DEVICE, &[], &[]).map_err(|e| format!("{desc}: {e}"))?;
                if a != 0 {
                    return Err(format!("{desc}: refused (ack {a})"));
                }
                for ring in rings.iter_mut() {
                    ring.enabled = false;
                }
                handler_pf = false;
            }
            Op::Kick { r } => {
                let r = r as usize % n;
                match rings[r].kick {
                    Some(k) => {
                        fds[k].write(1).map_err(|e| format!("{desc}: {e}"))?;
                        rings[r].pending += 1;
                        if !(rings[r].started && rings[r].enabled) {
                            nt_inactive_kick[r] = true;
                        }
                    }
                    None => {
                        ctx.class("kick_skipped_no_descriptor");
                        continue;
                    }
                }
            }
            Op::KickStale { r } => {
                let r = r as usize % n;
                match stale[r].last() {
                    Some(k) => {
                        fds[*k].write(1).map_err(|e| format!("{desc}: {e}"))?;
                        if !(rings[r].started && rings[r].enabled) {
                            nontrivial = true;
                        }
                    }
                    None => {
                        ctx.class("stale_kick_skipped_none");
                        continue;
                    }
                }
            }
        }
        // observe
        if let Op::KickStale { .. } = op {
            ctx.class("stale_kick_raised");
        }
        fx.barrier().map_err(|e| format!("{desc}: {e}"))?;
        let evs = fx.be.events();
        let new = &evs[seen..];
        seen = evs.len();
        for (r, ring) in rings.iter_mut().enumerate() {
            let delta = new.iter().filter(|e| ring_of(e) == r && (e.device_event as usize) < e.nvrings).count() as u32;
            let active = ring.started && ring.enabled;
            if active && ring.pending > 0 {
                if delta == 0 {
                    if f5_triggered[r] && ctx.known(F5_SIG) {
                        ring.pending = 0;
                        continue;
                    }
                    return Err(format!(
                        "after {desc}: ring {r} is started and enabled with {} kick(s) raised on its current descriptor, but the event handler was not called",
                        ring.pending
                    ));
                }
                if delta > ring.pending {
                    ctx.class("more_dispatches_than_kicks");
                }
                ring.pending = 0;
            } else if !active && delta > 0 {
                return Err(format!(
                    "after {desc}: event handler called {delta}x for ring {r} while it is {} and {}",
                    if ring.started { "started" } else { "stopped" },
                    if ring.enabled { "enabled" } else { "disabled" }
                ));
            } else if active && delta > 0 {
                ctx.class("spurious_dispatch_while_active");
            }
        }
        if let Some(bad) = new.iter().find(|e| e.device_event as usize >= e.nvrings) {
            return Err(format!("after {desc}: event handler of worker {} called with device_event {} (it serves {} ring(s); no other listener but the harness barrier)", bad.thread_id, bad.device_event, bad.nvrings));
        }
    }
    if nontrivial {
        ctx.nontrivial(&(h.rwlock, h.nrings, h.split, &h.ops));
        ctx.class("nontrivial");
    }
    ctx.class(if h.rwlock { "vring_rwlock" } else { "vring_mutex" });
    if split {
        ctx.class("one_worker_per_ring");
    }
    ctx.sample(|| json!({"rwlock": h.rwlock, "nrings": h.nrings, "split": h.split, "ops": h.ops, "handler_events": fx.be.events().len()}));
    drop(cl);
    fx.teardown();
    let panics = crate::engine_panic::take();
    if !panics.is_empty() {
        return Err(format!("panic during history: {}", panics[0]));
    }
    Ok(())
}

pub fn run_hist(ctx: &mut Ctx, h: &Hist) -> Result<(), String> {
    if h.rwlock {
        run_generic::<VRw>(ctx, h)
    } else {
        run_generic::<VMutex>(ctx, h)
    }
}

// ------------------------------------------------------------------ a kick racing with a deactivation is retained

#[derive(Serialize, Deserialize, Debug, Clone)]
pub struct RaceCase {
    pub rwlock: bool,
    /// true: RESET_DEVICE + SET_FEATURES(no PROTOCOL_FEATURES) as the deactivate/activate pair, else SET_VRING_ENABLE 0/1
    pub reset: bool,
    pub rounds: u32,
}

/// Each round: guest kick, then — without waiting for the worker — the deactivating message (acknowledged), a barrier,
/// the activating message, a barrier.  Wherever the worker was when the ring was deactivated, the kick is either
/// handled before the deactivation took effect or retained and handled after the activation: at least one handler
/// entry per round.  (The schedule is the scheduler's; the requirement holds for every schedule.  C12 enumerates the
/// schedules deterministically.)
fn run_race_generic<V: VringT<GM> + Clone + Send + Sync + 'static>(ctx: &mut Ctx, c: &RaceCase) -> Result<(), String> {
    let mut fx: Fx<V> = Fx::new(BeCfg { num_queues: 1, ..Default::default() }).map_err(|e| format!("fixture: {e}"))?;
    fx.connect().map_err(|e| format!("fixture: {e}"))?;
    let cl = RawClient::new(fx.peer.as_ref().unwrap().try_clone().unwrap());
    let pfbit = if c.reset { 0 } else { spec::VIRTIO_F_PROTOCOL_FEATURES };
    let (b, _) = cl.get(fe::GET_FEATURES, &[], &[]).map_err(|e| format!("negotiation: {e}"))?;
    let feats = spec::rd_u64(&b, 0);
    let (b, _) = cl.get(fe::GET_PROTOCOL_FEATURES, &[], &[]).map_err(|e| format!("negotiation: {e}"))?;
    cl.send(fe::SET_PROTOCOL_FEATURES, false, &b[..8], &[]).map_err(|e| format!("negotiation: {e}"))?;
    let setf = spec::b_u64((feats & (1 << 32)) | pfbit);
    let k = new_eventfd();
    let mut setup: Vec<(u32, Vec<u8>, Vec<i32>)> = vec![(fe::SET_FEATURES, setf.clone(), vec![]), (fe::SET_VRING_KICK, spec::b_u64(0), vec![k.as_raw_fd()])];
    if !c.reset {
        setup.push((fe::SET_VRING_ENABLE, spec::b_vring_state(0, 1), vec![]));
    }
    for (code, body, fds) in setup {
        if cl.ack(code, &body, &fds).map_err(|e| format!("setup: {e}"))? != 0 {
            return Err(format!("setup message {code} refused"));
        }
    }
    fx.barrier()?;
    let mut seen = fx.be.events().len();
    let mut before_deactivation = 0u32;
    for round in 0..c.rounds {
        // the kick is raised just before, or just after, the deactivating message is written (alternating)
        let kick_first = round % 2 == 0;
        if kick_first {
            k.write(1).map_err(|e| e.to_string())?;
        }
        let (off, on) = if c.reset {
            ((fe::RESET_DEVICE, vec![]), (fe::SET_FEATURES, setf.clone()))
        } else {
            ((fe::SET_VRING_ENABLE, spec::b_vring_state(0, 0)), (fe::SET_VRING_ENABLE, spec::b_vring_state(0, 1)))
        };
        cl.send(off.0, true, &off.1, &[]).map_err(|e| format!("round {round}: {e}"))?;
        if !kick_first {
            k.write(1).map_err(|e| e.to_string())?;
        }
        let (f, _) = cl.recv_frame().map_err(|e| format!("round {round}: {e}"))?;
        if f.code != off.0 || spec::rd_u64(&f.body, 0) != 0 {
            return Err(format!("round {round}: deactivating message refused"));
        }
        fx.barrier().map_err(|e| format!("round {round}: {e}"))?;
        let mid = fx.be.events().len();
        if cl.ack(on.0, &on.1, &[]).map_err(|e| format!("round {round}: {e}"))? != 0 {
            return Err(format!("round {round}: activating message refused"));
        }
        fx.barrier().map_err(|e| format!("round {round}: {e}"))?;
        let now = fx.be.events().len();
        if mid > seen {
            before_deactivation += 1;
        }
        if now == seen {
            return Err(format!(
                "round {round}: a guest kick raised right before {} was neither handled before the ring was deactivated nor retained: no event-handler call after the ring was activated again ({} of the earlier rounds were handled before the deactivation)",
                if c.reset { "RESET_DEVICE" } else { "SET_VRING_ENABLE 0" },
                before_deactivation
            ));
        }
        seen = now;
    }
    ctx.evals(c.rounds as u64);
    ctx.class_n("race_rounds", c.rounds as u64);
    ctx.class_n("race_rounds_handled_before_deactivation", before_deactivation as u64);
    ctx.nontrivial(&("race", c.rwlock, c.reset));
    ctx.sample(|| json!({"race": c, "handled_before_deactivation": before_deactivation}));
    drop(cl);
    fx.teardown();
    Ok(())
}

pub fn run_race(ctx: &mut Ctx, c: &RaceCase) -> Result<(), String> {
    if c.rwlock {
        run_race_generic::<VRw>(ctx, c)
    } else {
        run_race_generic::<VMutex>(ctx, c)
    }
}

// ------------------------------------------------------------------ the same, with the worker held at a chosen point

#[derive(Serialize, Deserialize, Debug, Clone)]
pub struct HeldCase {
    pub rwlock: bool,
    pub reset: bool,
    /// where the worker is kept while the deactivating message is processed:
    /// 0 woken by epoll, kick not yet read; 1 kick read; 2 about to enter the device handler
    pub point: u8,
    pub rounds: u32,
}

const WORKER: &str = "vring_worker";
const POINTS: [&str; 3] = ["worker.after_epoll", "worker.after_read_kick", "worker.before_dispatch"];

/// Deterministic form of the race: the worker is parked at `point` with the guest kick under way, the deactivating
/// message is processed and acknowledged meanwhile, the worker resumes, then the ring is activated again.  The kick
/// is handled before or after, never dropped.
fn run_held_generic<V: VringT<GM> + Clone + Send + Sync + 'static>(ctx: &mut Ctx, c: &HeldCase) -> Result<(), String> {
    let mut fx: Fx<V> = Fx::new(BeCfg { num_queues: 1, ..Default::default() }).map_err(|e| format!("fixture: {e}"))?;
    fx.connect().map_err(|e| format!("fixture: {e}"))?;
    let cl = RawClient::new(fx.peer.as_ref().unwrap().try_clone().unwrap());
    let pfbit = if c.reset { 0 } else { spec::VIRTIO_F_PROTOCOL_FEATURES };
    let (b, _) = cl.get(fe::GET_FEATURES, &[], &[]).map_err(|e| format!("negotiation: {e}"))?;
    let feats = spec::rd_u64(&b, 0);
    let (b, _) = cl.get(fe::GET_PROTOCOL_FEATURES, &[], &[]).map_err(|e| format!("negotiation: {e}"))?;
    cl.send(fe::SET_PROTOCOL_FEATURES, false, &b[..8], &[]).map_err(|e| format!("negotiation: {e}"))?;
    let setf = spec::b_u64((feats & (1 << 32)) | pfbit);
    let k = new_eventfd();
    let mut setup: Vec<(u32, Vec<u8>, Vec<i32>)> = vec![(fe::SET_FEATURES, setf.clone(), vec![]), (fe::SET_VRING_KICK, spec::b_u64(0), vec![k.as_raw_fd()])];
    if !c.reset {
        setup.push((fe::SET_VRING_ENABLE, spec::b_vring_state(0, 1), vec![]));
    }
    for (code, body, fds) in setup {
        if cl.ack(code, &body, &fds).map_err(|e| format!("setup: {e}"))? != 0 {
            return Err(format!("setup message {code} refused"));
        }
    }
    fx.barrier()?;
    let point = POINTS[c.point as usize % 3];
    let sched = Sched::install();
    let res = (|| -> Result<(), String> {
        let mut seen = fx.be.events().len();
        for round in 0..c.rounds {
            sched.arm(point, WORKER);
            k.write(1).map_err(|e| e.to_string())?;
            let parked = sched.wait_parked(|p| p.name == point && p.thread.starts_with(WORKER), Duration::from_secs(10));
            let Some(parked) = parked else {
                return Err(format!("round {round}: the worker did not reach {point} after a guest kick on an active ring"));
            };
            sched.disarm(point);
            let (off, on) = if c.reset {
                ((fe::RESET_DEVICE, vec![]), (fe::SET_FEATURES, setf.clone()))
            } else {
                ((fe::SET_VRING_ENABLE, spec::b_vring_state(0, 0)), (fe::SET_VRING_ENABLE, spec::b_vring_state(0, 1)))
            };
            // the deactivation is acknowledged while the worker stays where it is (a control path that needs the
            // worker for this would show as a timeout of the acknowledgement, reported as such)
            let acked = cl.ack(off.0, &off.1, &[]);
            sched.release(parked.id);
            match acked {
                Ok(0) => {}
                Ok(v) => return Err(format!("round {round}: deactivating message refused ({v})")),
                Err(e) => return Err(format!("round {round}: deactivating message while the worker is at {point}: {e}")),
            }
            fx.barrier().map_err(|e| format!("round {round}: {e}"))?;
            if cl.ack(on.0, &on.1, &[]).map_err(|e| format!("round {round}: {e}"))? != 0 {
                return Err(format!("round {round}: activating message refused"));
            }
            fx.barrier().map_err(|e| format!("round {round}: {e}"))?;
            let now = fx.be.events().len();
            if now == seen {
                return Err(format!(
                    "round {round}: guest kick on an active ring, worker held at {point} while {} was processed and acknowledged: no event-handler call, neither before nor after the ring was activated again",
                    if c.reset { "RESET_DEVICE" } else { "SET_VRING_ENABLE 0" }
                ));
            }
            seen = now;
        }
        Ok(())
    })();
    sched.disarm_all();
    sched.release_all();
    sched.uninstall();
    res?;
    ctx.evals(c.rounds as u64);
    ctx.class_n(&format!("held_rounds_at_{point}"), c.rounds as u64);
    ctx.nontrivial(&("held", c.rwlock, c.reset, c.point));
    ctx.sample(|| json!({"held": c}));
    drop(cl);
    fx.teardown();
    Ok(())
}

pub fn run_held(ctx: &mut Ctx, c: &HeldCase) -> Result<(), String> {
    if c.rwlock {
        run_held_generic::<VRw>(ctx, c)
    } else {
        run_held_generic::<VMutex>(ctx, c)
    }
}

fn alphabet(nrings: u8) -> Vec<Op> {
    let mut a = vec![Op::SetFeatures { pf: true }, Op::SetFeatures { pf: false }, Op::Reset];
    for r in 0..nrings {
        a.extend([
            Op::KickFd { r, some: true },
            Op::KickFd { r, some: false },
            Op::CallFd { r, some: true },
            Op::Enable { r, on: true },
            Op::Enable { r, on: false },
            Op::GetBase { r },
            Op::Kick { r },
            Op::KickStale { r },
        ]);
    }
    a
}

fn op_strategy(nrings: u8) -> impl Strategy<Value = Op> {
    let a = alphabet(nrings);
    // kicks and descriptor installs are the interesting part: weight them up
    prop_oneof![
        3 => (0..a.len()).prop_map(move |i| a[i]),
        2 => (0..nrings).prop_map(|r| Op::Kick { r }),
        1 => (0..nrings).prop_map(|r| Op::KickFd { r, some: true }),
        1 => (0..nrings, any::<bool>()).prop_map(|(r, on)| Op::Enable { r, on }),
    ]
}

pub fn run(ctx: &mut Ctx) {
    ctx.rule = "control-message histories over {SET_FEATURES with/without PROTOCOL_FEATURES, SET_VRING_KICK new/no descriptor, SET_VRING_CALL, \
                SET_VRING_ENABLE 0/1, GET_VRING_BASE, RESET_DEVICE, guest kick on the current descriptor} against a real daemon (fresh daemon per \
                history, both vring kinds); after every step a double barrier on the worker, then per-ring handler invocations are compared \
                with the reference ring model. Exhaustive over all words up to the stated depth on 1 ring, random on 2 rings (one worker for both, or one worker per ring). Plus rounds of [kick, deactivate at once, activate] with an uncontrolled schedule, and the same with the worker parked at each of its hold points (woken / kick read / before dispatch) while the deactivation is acknowledged: at least one handler call per round. Non-trivial = a \
                kick while inactive followed by an activation, a descriptor replacement on a started ring, or disable/stop of an active ring; \
                distinct op sequences."
        .into();
    ctx.assumptions = vec![
        "double barrier: epoll returns every ready fd of the moment in one batch and the batch is processed before the next wait".into(),
        "ops that would be fatal for the connection by protocol (SET_VRING_ENABLE without negotiated PROTOCOL_FEATURES, also after RESET_DEVICE) are skipped".into(),
        "an event-handler call for an active ring without a raised kick is only counted, not alarmed on".into(),
    ];
    let depth = ctx.tier.pick(4usize, 5usize);
    ctx.extra.insert("exhaustive_depth_1ring".into(), json!(depth));
    let a = alphabet(1);
    let mut words: Vec<Vec<Op>> = vec![vec![]];
    let mut all: Vec<Vec<Op>> = Vec::new();
    for _ in 0..depth {
        let mut next = Vec::new();
        for w in &words {
            for o in &a {
                let mut x = w.clone();
                x.push(*o);
                next.push(x);
            }
        }
        all.extend(next.iter().cloned());
        words = next;
    }
    ctx.exhaustive = Some(true);
    // a word is only worth running if it contains a guest kick
    let space: Vec<Hist> = all
        .into_iter()
        .filter(|w| w.iter().any(|o| matches!(o, Op::Kick { .. } | Op::KickStale { .. })))
        .enumerate()
        .map(|(i, ops)| Hist { rwlock: i % 2 == 0, nrings: 1, ops, split: false })
        .collect();
    ctx.extra.insert("exhaustive_words_with_kick".into(), json!(space.len()));
    ctx.enumerate("exhaustive_1ring", space, |ctx, h| run_hist(ctx, h));

    let cases = ctx.tier.pick(1200u32, 300_000u32);
    let strat = (any::<bool>(), any::<bool>(), proptest::collection::vec(op_strategy(2), 1..=20)).prop_map(|(rwlock, split, ops)| Hist { rwlock, nrings: 2, ops, split });
    ctx.prop_check("random_2rings", cases, strat, |ctx, h| run_hist(ctx, h));

    // kicks racing with a deactivation, the schedule chosen: worker parked at each of its three hold points during the deactivation
    let rounds = ctx.tier.pick(25u32, 400u32);
    let mut held = Vec::new();
    for point in 0..3u8 {
        for (rwlock, reset) in [(false, false), (true, false), (false, true), (true, true)] {
            held.push(HeldCase { rwlock, reset, point, rounds });
        }
    }
    ctx.enumerate("kick_held_across_deactivation", held, |ctx, c| run_held(ctx, c));

    // kicks racing with a deactivation (uncontrolled schedule; every schedule must retain or handle the kick)
    let rounds = ctx.tier.pick(1200u32, 20_000u32);
    let races: Vec<RaceCase> = [(false, false), (true, false), (false, true), (true, true)].into_iter().map(|(rwlock, reset)| RaceCase { rwlock, reset, rounds }).collect();
    ctx.enumerate("kick_races_deactivation", races, |ctx, c| run_race(ctx, c));
}
