//! C14 — ring configuration and negotiated features reach queues and backend unchanged.
//!
//! G: histories mixing SET_MEM_TABLE (two interchangeable tables of 2 regions), SET_VRING_NUM,
//!    SET_VRING_BASE, SET_VRING_ADDR, GET_VRING_BASE, SET_FEATURES, SET_PROTOCOL_FEATURES +
//!    SET_BACKEND_REQ_FD, SET_VRING_CALL and back-end ring operations (add_used + signal) run
//!    inside the worker; daemon with 3 rings; back end direct / Mutex- / RwLock-wrapped; both vring kinds.
//! O: model of the configured ring compared with the queue state sampled inside the worker at a
//!    barrier, the bytes of the used ring in the memfds, the call eventfd counters, the values the
//!    back end received, and the behaviour of the Backend proxy handed to the back end.

use std::fs::File;
use std::os::unix::fs::FileExt;
use std::os::unix::io::AsRawFd;
use std::os::unix::net::UnixStream;
use std::sync::{Arc, Mutex};

use proptest::prelude::*;
use serde::{Deserialize, Serialize};
use serde_json::json;
use vhost::vhost_user::message::{VhostUserMMap, VhostUserSharedMsg};
use vhost::vhost_user::VhostUserFrontendReqHandler;
use vhost_user_backend::VringT;
use vmm_sys_util::eventfd::EventFd;

use crate::daemon_fx::{new_eventfd, BeCfg, EventHook, Fx, Sess, VMutex, VRw, Wrap, GM};
use crate::engine::Ctx;
use crate::fdtrack::memfd;
use crate::rawclient::RawClient;
use crate::rawpeer;
use crate::spec::{self, fe};

const PAGE: u64 = 4096;
const NRINGS: usize = 3;
const MAXQ: u16 = 256;
const OFFERED: u64 = 0x1_7000_0000; // VERSION_1 | PROTOCOL_FEATURES | EVENT_IDX | INDIRECT_DESC
const REGS: [(u64, u64, u64, u64); 2] = [
    // gpa, size, ua, file offset
    (0x10000, 16 * PAGE, 0x7000_0000_0000, 0),
    (0x40000, 16 * PAGE, 0x7100_0000_0000, 4 * PAGE),
];

/// table A = REGS; table B = the same guest ranges and files offsets with the two front-end (user) ranges swapped, so
/// that the same front-end address translates to a different guest address depending on the table in force
fn regs(t: usize) -> [(u64, u64, u64, u64); 2] {
    if t % 2 == 0 {
        REGS
    } else {
        [(REGS[0].0, REGS[0].1, REGS[1].2, REGS[0].3), (REGS[1].0, REGS[1].1, REGS[0].2, REGS[1].3)]
    }
}

#[derive(Serialize, Deserialize, Debug, Clone, Hash, PartialEq, Eq)]
pub enum Op {
    /// b: geometry A / B; alt: the second set of backing files for that geometry (same layout, other memory)
    MemTable { b: bool, #[serde(default)] alt: bool },
    Num { r: u8, size: u16 },
    Base { r: u8, base: u16 },
    /// addresses: per descriptor/avail/used (region, offset); `outside`: Some(k) puts address k just outside
    Addr { r: u8, reg: [bool; 3], off: [u16; 3], outside: Option<u8>, used_idx: u16 },
    GetBase { r: u8 },
    Features { mask: u64 },
    BackendReq { reply_ack: bool, shared_object: bool, shmem: bool },
    Call { r: u8, some: bool },
    /// SET_VRING_KICK with / without a descriptor: starts the ring ("arbitrary message orders": a ring may be
    /// started before it is sized, based or addressed, and re-addressed while running)
    Kick { r: u8, some: bool },
    AddUsed { r: u8, idx: u16, len: u32 },
}

#[derive(Serialize, Deserialize, Debug, Clone, Hash, PartialEq, Eq)]
pub struct Hist {
    pub rwlock: bool,
    pub wrap: Wrap,
    pub ops: Vec<Op>,
    /// the device's own protocol_features() does not list REPLY_ACK (the request server adds it to the offer itself):
    /// the usual configuration of real devices
    #[serde(default)]
    pub device_omits_reply_ack: bool,
}

#[derive(Clone, Debug, Default)]
struct Ring {
    size: u16,
    next_avail: u16,
    next_used: Option<u16>,
    addrs: Option<(u64, u64, u64)>, // desc, avail, used (guest addresses)
    call: Option<usize>,
}

fn ring_idx(r: u8) -> u32 {
    // 0..=2 valid rings, everything else out of range
    r as u32
}

#[derive(Default)]
struct HookOut {
    add_used: Option<Result<(), String>>,
    signal: Option<Result<(), String>>,
}

fn run_generic<V: VringT<GM> + Clone + Send + Sync + 'static>(ctx: &mut Ctx, h: &Hist) -> Result<(), String> {
    let mut cfg = BeCfg { num_queues: NRINGS, max_queue_size: MAXQ as usize, features: OFFERED, ..Default::default() };
    if h.device_omits_reply_ack {
        cfg.pfeatures &= !(1 << spec::pf::REPLY_ACK);
        ctx.class("device_omits_reply_ack");
    }
    let fx: Fx<V> = Fx::new_wrapped(cfg, h.wrap)?;
    let mut s = Sess::open(fx, None)?;
    // two interchangeable sets of backing files
    let files: [[File; 2]; 4] = [[memfd(20 * PAGE), memfd(20 * PAGE)], [memfd(20 * PAGE), memfd(20 * PAGE)], [memfd(20 * PAGE), memfd(20 * PAGE)], [memfd(20 * PAGE), memfd(20 * PAGE)]];
    let mut table: Option<usize> = None; // 0 = A, 1 = B
    let mut table_at_addr: Vec<Option<usize>> = vec![None; NRINGS];
    let mut rings: Vec<Ring> = (0..NRINGS).map(|_| Ring { size: MAXQ, ..Default::default() }).collect();
    let mut event_idx = false;
    let mut calls: Vec<EventFd> = Vec::new();
    let mut kicks: Vec<EventFd> = Vec::new();
    let mut nt = false;
    let mut acked_feat_n = 0usize;

    let file_pos = |gpa: u64| -> Option<(usize, u64)> {
        REGS.iter().enumerate().find(|(_, r)| gpa >= r.0 && gpa < r.0 + r.1).map(|(i, r)| (i, r.3 + (gpa - r.0)))
    };

    for (i, op) in h.ops.iter().enumerate() {
        let desc = format!("op #{i} {op:?}");
        let mut check_ring: Option<usize> = None;
        match op {
            Op::MemTable { b, alt } => {
                let t = *b as usize + 2 * (*alt as usize);
                if table.map(|x| x % 2 == t % 2 && x != t).unwrap_or(false) {
                    ctx.class("table_resent_same_geometry_other_files");
                }
                let body = spec::b_mem_table(&regs(t).iter().map(|r| [r.0, r.1, r.2, r.3]).collect::<Vec<_>>());
                let fds = [files[t][0].as_raw_fd(), files[t][1].as_raw_fd()];
                if !s.acked(fe::SET_MEM_TABLE, &body, &fds)? {
                    return Err(format!("{desc}: a sorted, non-overlapping 2-region table was refused"));
                }
                table = Some(t);
            }
            Op::Num { r, size } => {
                let ok = s.acked(fe::SET_VRING_NUM, &spec::b_vring_state(ring_idx(*r), *size as u32), &[])?;
                let valid_ring = (*r as usize) < NRINGS;
                if !valid_ring {
                    ctx.class("index_out_of_range");
                    if ok {
                        return Err(format!("{desc}: ring index {r} is out of range (3 rings) but the message was accepted"));
                    }
                } else if *size == 0 || *size > MAXQ {
                    ctx.class("num_zero_or_over_max");
                    if ok {
                        return Err(format!("{desc}: size {size} (max {MAXQ}) was accepted"));
                    }
                } else if size.is_power_of_two() {
                    if !ok {
                        return Err(format!("{desc}: power-of-two size within the maximum was refused"));
                    }
                    rings[*r as usize].size = *size;
                    check_ring = Some(*r as usize);
                } else {
                    ctx.class("num_not_power_of_two_outside_claim");
                }
            }
            Op::Base { r, base } => {
                let ok = s.acked(fe::SET_VRING_BASE, &spec::b_vring_state(ring_idx(*r), *base as u32), &[])?;
                if (*r as usize) < NRINGS {
                    if !ok {
                        return Err(format!("{desc}: refused"));
                    }
                    rings[*r as usize].next_avail = *base;
                    if *base != 0 {
                        nt = true;
                    }
                    check_ring = Some(*r as usize);
                } else {
                    ctx.class("index_out_of_range");
                    if ok {
                        return Err(format!("{desc}: ring index {r} is out of range but the message was accepted"));
                    }
                }
            }
            Op::Addr { r, reg, off, outside, used_idx } => {
                // alignment 16 / 2 / 4; room for the largest ring inside the 16-page region
                let al = [16u64, 2, 4];
                let room = [MAXQ as u64 * 16, 6 + 2 * MAXQ as u64, 6 + 8 * MAXQ as u64];
                let mut va = [0u64; 3];
                let mut gpa = [0u64; 3];
                for k in 0..3 {
                    let rg = regs(table.unwrap_or(0))[reg[k] as usize];
                    let max_off = rg.1 - room[k];
                    let o = (off[k] as u64 * (max_off / al[k] + 1) >> 16) * al[k];
                    va[k] = rg.2 + o;
                    gpa[k] = rg.0 + o;
                }
                let mut inside = true;
                if let Some(k) = outside {
                    let k = (*k % 3) as usize;
                    let rg = regs(table.unwrap_or(0))[reg[k] as usize];
                    // first legal address after the region / last legal one before it
                    va[k] = if off[k] % 2 == 0 { rg.2 + rg.1 } else { rg.2 - al[k] };
                    inside = false;
                    ctx.class("addr_just_outside");
                }
                // used index the guest left in memory (only meaningful with a table and a mapped used ring)
                if let (Some(t), true) = (table, inside) {
                    if let Some((fi, pos)) = file_pos(gpa[2]) {
                        files[t][fi].write_all_at(&used_idx.to_le_bytes(), pos + 2).map_err(|e| e.to_string())?;
                    }
                }
                let ok = s.acked(fe::SET_VRING_ADDR, &spec::b_vring_addr(ring_idx(*r), 0, va[0], va[2], va[1], 0), &[])?;
                if (*r as usize) >= NRINGS {
                    ctx.class("index_out_of_range");
                    if ok {
                        return Err(format!("{desc}: ring index {r} is out of range but the message was accepted"));
                    }
                } else if table.is_none() || !inside {
                    if ok {
                        return Err(format!("{desc}: accepted although {}", if table.is_none() { "no memory table was set" } else { "an address lies in no region" }));
                    }
                } else {
                    if !ok {
                        return Err(format!("{desc}: addresses inside the regions at legal alignment were refused"));
                    }
                    let ring = &mut rings[*r as usize];
                    ring.addrs = Some((gpa[0], gpa[1], gpa[2]));
                    ring.next_used = Some(*used_idx);
                    table_at_addr[*r as usize] = table;
                    if *used_idx != 0 || *r > 0 {
                        nt = true;
                    }
                    check_ring = Some(*r as usize);
                }
            }
            Op::GetBase { r } => {
                let res = s.get(fe::GET_VRING_BASE, &spec::b_vring_state(ring_idx(*r), 0), &[])?;
                if (*r as usize) >= NRINGS {
                    ctx.class("index_out_of_range");
                    if res.is_some() {
                        return Err(format!("{desc}: ring index {r} is out of range but a reply was sent"));
                    }
                } else {
                    let (b, _) = res.ok_or_else(|| format!("{desc}: refused"))?;
                    let want = rings[*r as usize].next_avail as u32;
                    if b.len() != 8 || spec::rd_u32(&b, 0) != *r as u32 || spec::rd_u32(&b, 4) != want {
                        return Err(format!("{desc}: reply {b:x?}, expected (index {r}, next-available {want}) since nothing was processed"));
                    }
                    rings[*r as usize].call = None;
                }
            }
            Op::Features { mask } => {
                let ok = s.acked(fe::SET_FEATURES, &spec::b_u64(*mask), &[])?;
                let subset = mask & !OFFERED == 0;
                if subset != ok {
                    return Err(format!("{desc}: mask {mask:#x} vs offered {OFFERED:#x}: {} but {}", if subset { "subset" } else { "not a subset" }, if ok { "accepted" } else { "refused" }));
                }
                if ok {
                    acked_feat_n += 1;
                    event_idx = mask & (1 << 29) != 0;
                    if *mask != OFFERED && *mask != 0 {
                        nt = true;
                    }
                    let st = s.fx.be.st.lock().unwrap();
                    if st.acked_features.len() != acked_feat_n || st.acked_features.last() != Some(mask) {
                        return Err(format!("{desc}: back end received acked_features {:x?} (expected call #{acked_feat_n} with exactly {mask:#x})", st.acked_features));
                    }
                    if st.event_idx.last() != Some(&event_idx) {
                        return Err(format!("{desc}: back end's set_event_idx got {:?}, EVENT_IDX bit of the mask is {event_idx}", st.event_idx.last()));
                    }
                    drop(st);
                    s.fx.barrier()?;
                    let snaps = s.fx.be.st.lock().unwrap().snaps[0].clone();
                    for (q, sn) in snaps.iter().enumerate() {
                        if sn.event_idx != event_idx {
                            return Err(format!("{desc}: queue {q} has event_idx={} but the acknowledged mask has EVENT_IDX={event_idx}", sn.event_idx));
                        }
                    }
                } else {
                    ctx.class("features_not_subset_refused");
                }
            }
            Op::BackendReq { reply_ack, shared_object, shmem } => {
                let full = 0x3f_ffffu64 & !(1 << 8) & !(1 << 12);
                let mut m = (1u64 << spec::pf::BACKEND_REQ) | (1 << spec::pf::MQ);
                if *reply_ack {
                    m |= 1 << spec::pf::REPLY_ACK;
                }
                if *shared_object {
                    m |= 1 << spec::pf::SHARED_OBJECT;
                }
                if *shmem {
                    m |= 1 << spec::pf::SHMEM;
                }
                let (ours, theirs) = UnixStream::pair().map_err(|e| e.to_string())?;
                let before = s.fx.be.st.lock().unwrap().backends.len();
                // fire-and-forget (acks depend on the very feature being varied), then restore and synchronise
                s.cl.send(fe::SET_PROTOCOL_FEATURES, false, &spec::b_u64(m), &[]).map_err(|e| format!("{desc}: {e}"))?;
                s.cl.send(fe::SET_BACKEND_REQ_FD, false, &[], &[theirs.as_raw_fd()]).map_err(|e| format!("{desc}: {e}"))?;
                s.cl.send(fe::SET_PROTOCOL_FEATURES, false, &spec::b_u64(full), &[]).map_err(|e| format!("{desc}: {e}"))?;
                s.cl.get(fe::GET_FEATURES, &[], &[]).map_err(|e| format!("{desc}: sync: {e}"))?;
                drop(theirs);
                let be = {
                    let st = s.fx.be.st.lock().unwrap();
                    if st.backends.len() != before + 1 {
                        return Err(format!("{desc}: back end received {} new request channels, expected 1", st.backends.len() - before));
                    }
                    st.backends.last().unwrap().clone()
                };
                nt = true;
                // shared object request
                for (enabled, code, which) in [(*shared_object, spec::be::SHARED_OBJECT_ADD, "shared-object"), (*shmem, spec::be::SHMEM_UNMAP, "shared-memory")] {
                    if *reply_ack && enabled {
                        // pre-queue the acknowledgement the proxy will wait for
                        rawpeer::send_all(ours.as_raw_fd(), &spec::reply(code, &spec::b_u64(0)), &[]).map_err(|e| e.to_string())?;
                    }
                    // the proxy call runs in a helper thread: if it writes a request it was not allowed
                    // to send and then waits for an acknowledgement, the harness sees the bytes, reports,
                    // and releases it
                    let be2 = be.clone();
                    let th = std::thread::spawn(move || {
                        if code == spec::be::SHARED_OBJECT_ADD {
                            let mut u = VhostUserSharedMsg::default();
                            u.uuid = uuid::Uuid::from_bytes([7u8; 16]);
                            be2.shared_object_add(&u).map(|_| ()).map_err(|e| e.to_string())
                        } else {
                            let mm = VhostUserMMap { shmid: 1, padding: [0; 7], fd_offset: 0, shm_offset: 0x1000, len: 0x1000, flags: 0 };
                            be2.shmem_unmap(&mm).map(|_| ()).map_err(|e| e.to_string())
                        }
                    });
                    let t0 = std::time::Instant::now();
                    while !th.is_finished() {
                        if !enabled && rawpeer::fionread(ours.as_raw_fd()) > 0 {
                            let _ = rawpeer::send_all(ours.as_raw_fd(), &spec::reply(code, &spec::b_u64(0)), &[]);
                            let _ = th.join();
                            return Err(format!("{desc}: {which} request was written to the new channel although the feature was not acknowledged"));
                        }
                        if t0.elapsed().as_secs() > 20 {
                            return Err(format!("{desc}: {which} proxy call does not return (enabled={enabled}, reply_ack={reply_ack})"));
                        }
                        std::thread::yield_now();
                    }
                    let res = th.join().map_err(|_| "proxy call panicked".to_string())?;
                    let (msgs, _) = rawpeer::drain_messages(ours.as_raw_fd()).map_err(|e| e.to_string())?;
                    if enabled {
                        if let Err(e) = res {
                            return Err(format!("{desc}: {which} request refused by the new channel although the feature was acknowledged: {e}"));
                        }
                        if msgs.len() != 1 {
                            return Err(format!("{desc}: {which} request put {} messages on the new channel", msgs.len()));
                        }
                        let (c, fl, _) = spec::parse_hdr(&msgs[0].bytes);
                        if c != code || (fl & spec::F_NEED_REPLY != 0) != *reply_ack {
                            return Err(format!("{desc}: {which} request on the new channel has code {c} flags {fl:#x}; NEED_REPLY must be {} (REPLY_ACK acknowledged: {reply_ack})", *reply_ack));
                        }
                    } else {
                        if res.is_ok() {
                            return Err(format!("{desc}: {which} request accepted by the new channel although the feature was not acknowledged"));
                        }
                        if !msgs.is_empty() {
                            return Err(format!("{desc}: refused {which} request still wrote to the channel"));
                        }
                    }
                }
            }
            Op::Call { r, some } => {
                let ok = if *some {
                    let e = new_eventfd();
                    let ok = s.acked(fe::SET_VRING_CALL, &spec::b_u64(*r as u64), &[e.as_raw_fd()])?;
                    calls.push(e);
                    ok
                } else {
                    s.acked(fe::SET_VRING_CALL, &spec::b_u64(*r as u64 | 0x100), &[])?
                };
                if (*r as usize) < NRINGS {
                    if !ok {
                        return Err(format!("{desc}: refused"));
                    }
                    rings[*r as usize].call = if *some { Some(calls.len() - 1) } else { None };
                } else {
                    ctx.class("index_out_of_range");
                    if ok {
                        return Err(format!("{desc}: ring index {r} is out of range but the message was accepted"));
                    }
                }
            }
            Op::Kick { r, some } => {
                let ok = if *some {
                    let e = new_eventfd();
                    let ok = s.acked(fe::SET_VRING_KICK, &spec::b_u64(*r as u64), &[e.as_raw_fd()])?;
                    kicks.push(e);
                    ok
                } else {
                    s.acked(fe::SET_VRING_KICK, &spec::b_u64(*r as u64 | 0x100), &[])?
                };
                if (*r as usize) < NRINGS {
                    if !ok {
                        return Err(format!("{desc}: refused"));
                    }
                    ctx.class("ring_started_by_kick");
                } else {
                    ctx.class("index_out_of_range");
                    if ok {
                        return Err(format!("{desc}: ring index {r} is out of range but the message was accepted"));
                    }
                }
            }
            Op::AddUsed { r, idx, len } => {
                let r = (*r as usize) % NRINGS;
                let (idx, len) = (*idx, *len);
                let out: Arc<Mutex<HookOut>> = Arc::new(Mutex::new(HookOut::default()));
                let out2 = out.clone();
                let hook: EventHook<V> = Arc::new(move |_be, _ev, vrings: &[V], _t| {
                    let mut o = out2.lock().unwrap();
                    if o.add_used.is_none() {
                        o.add_used = Some(vrings[r].add_used(idx, len).map_err(|e| format!("{e:?}")));
                        o.signal = Some(vrings[r].signal_used_queue().map_err(|e| e.to_string()));
                    }
                });
                // drain the call eventfds
                for c in &calls {
                    let _ = c.read();
                }
                // contents of both candidate files before
                let ring = rings[r].clone();
                let pos = ring.addrs.and_then(|a| file_pos(a.2));
                let before: Vec<Vec<u8>> = match pos {
                    Some((fi, p)) => (0..4).map(|t| { let mut b = vec![0u8; 4 + 8 * MAXQ as usize]; let _ = files[t][fi].read_exact_at(&mut b, p); b }).collect(),
                    None => vec![],
                };
                s.fx.be.st.lock().unwrap().barrier_hook = Some(hook);
                let r1 = s.fx.barrier_once();
                s.fx.be.st.lock().unwrap().barrier_hook = None;
                r1?;
                let o = out.lock().unwrap();
                let add = o.add_used.clone().ok_or("hook did not run")?;
                let sig = o.signal.clone().ok_or("hook did not run")?;
                drop(o);
                // signalling: only the most recently installed call descriptor of this ring
                if let Err(e) = &sig {
                    return Err(format!("{desc}: signal_used_queue failed: {e}"));
                }
                for (ci, c) in calls.iter().enumerate() {
                    let fired = c.read().is_ok();
                    let want = ring.call == Some(ci);
                    if fired != want {
                        return Err(format!(
                            "{desc}: call descriptor #{ci} {} (ring {r}'s current call descriptor is {:?})",
                            if fired { "was signalled" } else { "was not signalled" },
                            ring.call
                        ));
                    }
                }
                if ring.call.is_none() {
                    ctx.class("signal_without_call_descriptor");
                }
                // used ring bytes
                match (ring.addrs, table, pos, ring.next_used) {
                    (Some(_), Some(t), Some((fi, p)), Some(nu)) => {
                        let mut after = vec![vec![0u8; 4 + 8 * MAXQ as usize]; 4];
                        for tt in 0..4 {
                            let _ = files[tt][fi].read_exact_at(&mut after[tt], p);
                        }
                        if idx >= ring.size {
                            if add.is_ok() {
                                return Err(format!("{desc}: add_used with descriptor index {idx} >= ring size {} succeeded", ring.size));
                            }
                            if after != before {
                                return Err(format!("{desc}: refused add_used changed the used ring"));
                            }
                        } else {
                            add.map_err(|e| format!("{desc}: add_used failed: {e}"))?;
                            let slot = (nu % ring.size) as usize;
                            let mut want = before[t].clone();
                            want[4 + slot * 8..8 + slot * 8].copy_from_slice(&(idx as u32).to_le_bytes());
                            want[8 + slot * 8..12 + slot * 8].copy_from_slice(&len.to_le_bytes());
                            want[2..4].copy_from_slice(&nu.wrapping_add(1).to_le_bytes());
                            if after[t] != want {
                                let d: Vec<usize> = (0..want.len()).filter(|k| after[t][*k] != want[*k]).take(8).collect();
                                return Err(format!(
                                    "{desc}: used ring in the latest table's file differs from (id {idx}, len {len}) at slot {slot} with used idx {} (differing byte offsets {d:?})",
                                    nu.wrapping_add(1)
                                ));
                            }
                            if let Some(o) = (0..4).find(|o| *o != t && after[*o] != before[*o]) {
                                return Err(format!("{desc}: add_used wrote to the memory of another (earlier) table (file set {o}, the table in force uses set {t})"));
                            }
                            if table_at_addr[r] != Some(t) {
                                nt = true;
                                ctx.class("add_used_after_table_change");
                            }
                            rings[r].next_used = Some(nu.wrapping_add(1));
                        }
                    }
                    _ => {
                        ctx.class("add_used_on_unconfigured_ring");
                    }
                }
                check_ring = Some(r);
            }
        }
        if let Some(r) = check_ring {
            s.fx.barrier()?;
            let sn = s.fx.be.st.lock().unwrap().snaps[0].get(r).cloned().ok_or("no snapshot")?;
            let m = &rings[r];
            if sn.size != m.size {
                return Err(format!("after {desc}: ring {r} has size {}, configured {}", sn.size, m.size));
            }
            if sn.next_avail != m.next_avail {
                return Err(format!("after {desc}: ring {r} next-available index {}, base was {}", sn.next_avail, m.next_avail));
            }
            if let Some(nu) = m.next_used {
                if sn.next_used != nu {
                    return Err(format!("after {desc}: ring {r} next-used index {}, used index in guest memory was {nu}", sn.next_used));
                }
            }
            if let Some((d, a, u)) = m.addrs {
                if (sn.desc, sn.avail, sn.used) != (d, a, u) {
                    return Err(format!(
                        "after {desc}: ring {r} addresses desc/avail/used = {:#x}/{:#x}/{:#x}, translated guest addresses are {d:#x}/{a:#x}/{u:#x}",
                        sn.desc, sn.avail, sn.used
                    ));
                }
            }
            if sn.event_idx != event_idx {
                return Err(format!("after {desc}: ring {r} event_idx={} but negotiated EVENT_IDX={event_idx}", sn.event_idx));
            }
            if r > 0 {
                nt = true;
            }
        }
    }
    if nt {
        ctx.nontrivial(&(h.rwlock, h.wrap, &h.ops));
        ctx.class("nontrivial");
    }
    ctx.class(&format!("wrap_{:?}", h.wrap));
    ctx.class_n("reconnects", s.reconnects as u64);
    ctx.sample(|| json!({"rwlock": h.rwlock, "wrap": format!("{:?}", h.wrap), "ops": h.ops}));
    s.close();
    let panics = crate::engine_panic::take();
    if !panics.is_empty() {
        return Err(format!("panic during history: {}", panics[0]));
    }
    Ok(())
}

pub fn run_hist(ctx: &mut Ctx, h: &Hist) -> Result<(), String> {
    if h.rwlock {
        run_generic::<VRw>(ctx, h)
    } else {
        run_generic::<VMutex>(ctx, h)
    }
}

// ------------------------------------------------------------------ SET_FEATURES against arbitrary offered masks

#[derive(Serialize, Deserialize, Debug, Clone)]
pub struct FeatCase {
    pub offered: u64,
    pub masks: Vec<u64>,
    pub wrap: Wrap,
}

/// "SET_FEATURES is accepted only for a subset of the offered features and then delivers exactly those bits": the device
/// offers an arbitrary mask (also without bit 30, where no acknowledgements exist: acceptance is seen from the connection
/// surviving — the daemon drops it on a refused request — and from what the back end was told).
pub fn run_feat_case(ctx: &mut Ctx, c: &FeatCase) -> Result<(), String> {
    let cfg = BeCfg { num_queues: 2, max_queue_size: 64, features: c.offered, ..Default::default() };
    let mut fx: Fx<VRw> = Fx::new_wrapped(cfg, c.wrap).map_err(|e| format!("fixture: {e}"))?;
    fx.connect().map_err(|e| format!("fixture: {e}"))?;
    let mut cl = RawClient::new(fx.peer.as_ref().unwrap().try_clone().unwrap());
    let mut told = 0usize;
    let res = (|| -> Result<(), String> {
        let (b, _) = cl.get(fe::GET_FEATURES, &[], &[]).map_err(|e| format!("GET_FEATURES: {e}"))?;
        let got = spec::rd_u64(&b, 0);
        if got != c.offered {
            return Err(format!("GET_FEATURES returned {got:#x}, the device offers {:#x}", c.offered));
        }
        for m in &c.masks {
            cl.send(fe::SET_FEATURES, false, &spec::b_u64(*m), &[]).map_err(|e| format!("send: {e}"))?;
            // a reply-bearing request behind it tells whether the connection survived
            let alive = cl.get(fe::GET_FEATURES, &[], &[]).is_ok();
            let subset = m & !c.offered == 0;
            ctx.class(if subset { "features_subset_of_arbitrary_offer" } else { "features_not_subset_of_arbitrary_offer" });
            if subset != alive {
                return Err(format!(
                    "offered {:#x}, SET_FEATURES({m:#x}) is {} but was {}",
                    c.offered,
                    if subset { "a subset".to_string() } else { format!("not a subset (extra bits {:#x})", m & !c.offered) },
                    if alive { "accepted" } else { "refused (connection dropped)" }
                ));
            }
            if alive {
                told += 1;
                let st = fx.be.st.lock().unwrap();
                if st.acked_features.len() != told || st.acked_features.last() != Some(m) {
                    return Err(format!("offered {:#x}, SET_FEATURES({m:#x}) accepted: the back end was told {:x?}", c.offered, st.acked_features));
                }
            } else {
                let st = fx.be.st.lock().unwrap();
                if st.acked_features.len() != told {
                    return Err(format!("offered {:#x}, SET_FEATURES({m:#x}) refused, yet the back end was told {:x?}", c.offered, st.acked_features));
                }
                drop(st);
                fx.reconnect().map_err(|e| format!("reconnect: {e}"))?;
                cl = RawClient::new(fx.peer.as_ref().unwrap().try_clone().unwrap());
            }
        }
        Ok(())
    })();
    ctx.nontrivial(&(c.offered, &c.masks, c.wrap));
    ctx.sample(|| json!({"feat_case": c}));
    drop(cl);
    fx.teardown();
    res
}

fn ring_strategy() -> impl Strategy<Value = u8> {
    prop_oneof![8 => 0u8..3, 1 => Just(3u8), 1 => Just(255u8), 1 => 3u8..=255]
}

fn op_strategy() -> impl Strategy<Value = Op> {
    let size = prop_oneof![
        4 => (0u32..=16).prop_map(|k| (1u32 << k).min(65535) as u16),
        2 => (0u32..=16, -1i32..=1).prop_map(|(k, d)| ((1i32 << k) + d).clamp(0, 65535) as u16),
        1 => Just(0u16),
        1 => any::<u16>(),
    ];
    let mask = prop_oneof![
        3 => any::<u64>().prop_map(|v| v & OFFERED),
        1 => Just(OFFERED),
        1 => Just(0u64),
        1 => (any::<u64>(), 0u32..64).prop_map(|(v, b)| (v & OFFERED) | (1u64 << b)),
        1 => any::<u64>().prop_map(|v| v & !OFFERED),
    ];
    prop_oneof![
        3 => (any::<bool>(), any::<bool>()).prop_map(|(b, alt)| Op::MemTable { b, alt }),
        3 => (ring_strategy(), size).prop_map(|(r, size)| Op::Num { r, size }),
        3 => (ring_strategy(), crate::engine::lat16()).prop_map(|(r, base)| Op::Base { r, base }),
        5 => (ring_strategy(), any::<[bool; 3]>(), any::<[u16; 3]>(), prop_oneof![5 => Just(None), 1 => (0u8..3).prop_map(Some)], crate::engine::lat16())
            .prop_map(|(r, reg, off, outside, used_idx)| Op::Addr { r, reg, off, outside, used_idx }),
        2 => ring_strategy().prop_map(|r| Op::GetBase { r }),
        3 => mask.prop_map(|mask| Op::Features { mask }),
        1 => (any::<bool>(), any::<bool>(), any::<bool>()).prop_map(|(reply_ack, shared_object, shmem)| Op::BackendReq { reply_ack, shared_object, shmem }),
        3 => (ring_strategy(), any::<bool>()).prop_map(|(r, some)| Op::Call { r, some }),
        2 => (ring_strategy(), prop_oneof![4 => Just(true), 1 => Just(false)]).prop_map(|(r, some)| Op::Kick { r, some }),
        4 => (0u8..3, prop_oneof![3 => 0u16..8, 1 => any::<u16>()], any::<u32>()).prop_map(|(r, idx, len)| Op::AddUsed { r, idx, len }),
    ]
}

pub fn run(ctx: &mut Ctx) {
    ctx.rule = "histories (1..24 steps) in arbitrary order over SET_MEM_TABLE (table A / table B: same guest ranges, different files, front-end ranges swapped), SET_VRING_NUM \
                (index 0..=255, sizes around every power of two, 0, random), SET_VRING_BASE, SET_VRING_ADDR (address triples anywhere legal inside \
                the two regions, or one address just outside; used index pre-written to guest memory), GET_VRING_BASE, SET_FEATURES (subset / \
                superset / disjoint masks), SET_PROTOCOL_FEATURES+SET_BACKEND_REQ_FD, SET_VRING_CALL new/none, SET_VRING_KICK new/none (the ring is started before / between the configuration messages), and add_used+signal_used_queue run \
                inside the worker; 3 rings; back end direct / Mutex / RwLock wrapped x VringMutex / VringRwLock. Plus SET_FEATURES sequences against devices offering arbitrary masks (also without bit 30). Non-trivial = a history that \
                configures ring >= 1, uses base or used index != 0, a strict-subset feature mask, a new request channel, or add_used after a \
                table change; distinct histories."
        .into();
    ctx.assumptions = vec![
        "non-power-of-two ring sizes within the maximum are outside the statement (counted, not judged)".into(),
        "queue state is sampled inside the worker thread at a barrier (custom listener), i.e. what the back end would see".into(),
    ];
    let cases = ctx.tier.pick(4000u32, 500_000u32);
    let wrap = prop_oneof![Just(Wrap::Direct), Just(Wrap::Mutex), Just(Wrap::RwLock)];
    let strat = (any::<bool>(), wrap, proptest::collection::vec(op_strategy(), 1..=24), any::<bool>()).prop_map(|(rwlock, wrap, ops, device_omits_reply_ack)| Hist { rwlock, wrap, ops, device_omits_reply_ack });
    ctx.prop_check("histories", cases, strat, |ctx, h| run_hist(ctx, h));

    // SET_FEATURES relative to arbitrary offered masks (the histories above use one fixed offer that contains bit 30)
    let cases = ctx.tier.pick(400u32, 60_000u32);
    let offered = prop_oneof![
        2 => Just(OFFERED),
        2 => Just(OFFERED & !spec::VIRTIO_F_PROTOCOL_FEATURES),
        1 => Just(0u64),
        1 => Just(u64::MAX),
        3 => any::<u64>(),
        2 => crate::engine::lat64(),
    ];
    let strat = offered.prop_flat_map(|off| {
        let m = prop_oneof![
            2 => Just(off),
            3 => any::<u64>().prop_map(move |x| x & off),
            3 => (0u32..64).prop_map(move |b| off | (1u64 << b)),
            1 => (0u32..64).prop_map(|b| 1u64 << b),
            1 => Just(spec::VIRTIO_F_PROTOCOL_FEATURES),
            1 => any::<u64>(),
            1 => Just(0u64),
        ];
        (Just(off), proptest::collection::vec(m, 1..=4), prop_oneof![Just(Wrap::Direct), Just(Wrap::Mutex), Just(Wrap::RwLock)])
    }).prop_map(|(offered, masks, wrap)| FeatCase { offered, masks, wrap });
    ctx.prop_check("features_vs_arbitrary_offer", cases, strat, |ctx, c| run_feat_case(ctx, c));
}
