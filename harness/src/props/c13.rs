//! C13 — guest memory table and address translation always reflect the accepted updates.
//!
//! G: histories of SET_MEM_TABLE / ADD_MEM_REG / REM_MEM_REG with generated region geometry
//!    (adjacent, overlapping, duplicate, unordered, absent/size-mismatched removals, mappings that cannot be established (non-mappable descriptor, unaligned offset), user ranges anywhere in the 64-bit space) sent by a raw client to a
//!    real daemon; a failed request ends the connection (daemon policy), the harness reconnects
//!    to the same daemon and continues.
//! O: memtable model of acknowledged-successful operations; after every step: region set of the
//!    memory the back end was given, update_memory call count, byte backing both ways through the
//!    passed files, translation probes through SET_VRING_ADDR.

use std::fs::File;
use std::os::unix::fs::FileExt;
use std::os::unix::io::AsRawFd;

use proptest::prelude::*;
use serde::{Deserialize, Serialize};
use serde_json::json;
use vhost_user_backend::VringT;
use vm_memory::{Bytes, GuestAddress, GuestAddressSpace, GuestMemory, GuestMemoryRegion};

use crate::daemon_fx::{BeCfg, Fx, VMutex, VRw, GM};
use crate::engine::Ctx;
use crate::fdtrack::memfd;
use crate::rawclient::{RawClient, RcErr};
use crate::spec::{self, fe};

const PAGE: u64 = 4096;

#[derive(Serialize, Deserialize, Debug, Clone, Copy, Hash, PartialEq, Eq)]
pub struct Reg {
    pub gpa_hi: u8,
    pub gpa_page: u16,
    pub npages: u8,
    pub ua_slot: u8,
    pub ua_delta: u8,
    pub off_pages: u8,
    pub file: u8,
    /// 0: mappable; 1: a pipe is passed instead of the file (mmap fails); 2: mmap offset not page aligned (mmap fails)
    pub unmappable: u8,
}

#[derive(Serialize, Deserialize, Debug, Clone, Copy, Hash, PartialEq, Eq)]
pub enum RemHow {
    Exact,
    WrongSize,
    Absent,
    /// guest address and size of a current region, another front-end address (the statement leaves the outcome
    /// open; whichever it is, table and translation must agree with it)
    WrongUser,
}

#[derive(Serialize, Deserialize, Debug, Clone, Hash, PartialEq, Eq)]
pub enum MemOp {
    Set(Vec<Reg>),
    Add(Reg),
    Rem { i: u16, how: RemHow },
    /// SET_MEM_TABLE with the geometry of the table in force (same guest and front-end ranges, same order) but other
    /// backing files / offsets: what a front end sends after it re-allocated its memory, or after a reconnect
    Resend { file_rot: u8 },
    /// SET_MEM_TABLE describing `regs` (>= 2 regions) but carrying only `nfds` (1 <= nfds < regions) descriptors: not a
    /// valid message; it must be refused and leave the table in force intact
    SetShort { regs: Vec<Reg>, nfds: u8 },
}

#[derive(Serialize, Deserialize, Debug, Clone, Hash, PartialEq, Eq)]
pub struct Hist {
    pub rwlock: bool,
    /// sizes of the backing files in pages
    pub files: Vec<u8>,
    pub ops: Vec<MemOp>,
}

#[derive(Clone, Copy, Debug, PartialEq, Eq)]
struct R {
    gpa: u64,
    size: u64,
    ua: u64,
    off: u64,
    file: usize,
    unmappable: u8,
}

impl Reg {
    fn resolve(&self, file_pages: &[u8]) -> R {
        let nfiles = file_pages.len();
        let file = self.file as usize % nfiles.max(1);
        let fp = file_pages[file].max(1) as u64;
        // the mapping always fits the file (mapping past the end is not refused by mmap and would fault)
        let np = (self.npages.max(1) as u64).min(fp);
        let size = np * PAGE;
        let gpa = ((self.gpa_hi as u64 % 3) << 32) + self.gpa_page as u64 % 512 * PAGE;
        let base = match self.ua_slot % 12 {
            0 => 0x1000,
            1 => 0x7f00_0000_0000,
            2 => 1u64 << 62,
            3 => (1u64 << 63) - 0x10_0000,
            // highest 16-aligned placement that does not wrap (ends at 2^64-16), or one page below
            4 => ((u64::MAX - size) & !0xf) - (self.ua_delta as u64 % 2) * PAGE,
            s => (s as u64) << 40,
        };
        let ua = if self.ua_slot % 12 == 4 { base } else { base + self.ua_delta as u64 * PAGE };
        let unmappable = self.unmappable % 3;
        let off = self.off_pages as u64 % (fp - np + 1) * PAGE + if unmappable == 2 { 0x10 } else { 0 };
        R { gpa, size, ua, off, file, unmappable }
    }
}

fn overlaps(a: &R, b: &R) -> bool {
    a.gpa < b.gpa + b.size && b.gpa < a.gpa + a.size
}

struct Sess<V: VringT<GM> + Clone + Send + Sync + 'static> {
    fx: Fx<V>,
    cl: RawClient,
}

impl<V: VringT<GM> + Clone + Send + Sync + 'static> Sess<V> {
    fn negotiate(cl: &RawClient) -> Result<(), RcErr> {
        cl.negotiate(|f| f & ((1 << 32) | spec::VIRTIO_F_PROTOCOL_FEATURES), |p| p).map(|_| ())
    }
    fn reconnect(&mut self) -> Result<(), String> {
        self.fx.reconnect()?;
        self.cl = RawClient::new(self.fx.peer.as_ref().unwrap().try_clone().unwrap());
        Self::negotiate(&self.cl).map_err(|e| format!("re-negotiation after reconnect: {e}"))
    }
    /// request with NEED_REPLY; Ok(true) accepted, Ok(false) refused (connection is renewed)
    fn acked(&mut self, code: u32, body: &[u8], fds: &[i32]) -> Result<bool, String> {
        match self.cl.ack(code, body, fds) {
            Ok(0) => Ok(true),
            Ok(_) | Err(RcErr::Closed) => {
                self.reconnect()?;
                Ok(false)
            }
            Err(e) => Err(format!("request {code}: {e}")),
        }
    }
}

fn run_generic<V: VringT<GM> + Clone + Send + Sync + 'static>(ctx: &mut Ctx, h: &Hist) -> Result<(), String> {
    let files: Vec<File> = h.files.iter().map(|p| memfd((*p).max(1) as u64 * PAGE)).collect();
    let nfiles = files.len();
    let pipe_fd = crate::fdtrack::make_fd(crate::fdtrack::FdKind::Pipe);
    let mut fx: Fx<V> = Fx::new(BeCfg { num_queues: 1, ..Default::default() })?;
    fx.connect()?;
    let cl = RawClient::new(fx.peer.as_ref().unwrap().try_clone().unwrap());
    Sess::<V>::negotiate(&cl).map_err(|e| format!("negotiation: {e}"))?;
    let mut s = Sess { fx, cl };

    let mut table: Vec<R> = Vec::new();
    let mut removed: Vec<R> = Vec::new();
    let mut updates = 0usize;
    let mut any_success = false;
    let mut nt = false;
    let mut stamp: u8 = 1;

    for (i, op) in h.ops.iter().enumerate() {
        let desc = format!("op #{i} {op:?}");
        let impossible = |r: &R| r.unmappable != 0;
        let fd_of = |r: &R| if r.unmappable == 1 { pipe_fd.as_raw_fd() } else { files[r.file].as_raw_fd() };
        let mut just_removed = false;
        let (accepted, must): (bool, Option<bool>) = match op {
            MemOp::Set(regs) => {
                let rs: Vec<R> = regs.iter().map(|r| r.resolve(&h.files)).collect();
                let body = spec::b_mem_table(&rs.iter().map(|r| [r.gpa, r.size, r.ua, r.off]).collect::<Vec<_>>());
                let fds: Vec<i32> = rs.iter().map(|r| fd_of(r)).collect();
                let ok = s.acked(fe::SET_MEM_TABLE, &body, &fds)?;
                let must = if rs.iter().any(impossible) {
                    Some(false)
                } else {
                    let sorted = rs.windows(2).all(|w| w[0].gpa + w[0].size <= w[1].gpa);
                    if sorted {
                        Some(true)
                    } else {
                        ctx.class("set_unsorted_or_overlapping");
                        None
                    }
                };
                if ok {
                    removed.extend(table.iter().copied());
                    table = rs;
                }
                (ok, must)
            }
            MemOp::SetShort { regs, nfds } => {
                let rs: Vec<R> = regs.iter().map(|r| R { unmappable: 0, ..r.resolve(&h.files) }).collect();
                if rs.len() < 2 {
                    continue;
                }
                let n = 1 + (*nfds as usize) % (rs.len() - 1);
                let body = spec::b_mem_table(&rs.iter().map(|r| [r.gpa, r.size, r.ua, r.off]).collect::<Vec<_>>());
                let fds: Vec<i32> = rs.iter().take(n).map(|r| fd_of(r)).collect();
                let ok = s.acked(fe::SET_MEM_TABLE, &body, &fds)?;
                ctx.class("table_with_fewer_descriptors_than_regions");
                if ok {
                    removed.extend(table.iter().copied());
                    table = rs;
                }
                (ok, Some(false))
            }
            MemOp::Resend { file_rot } => {
                let mut sorted_table = table.clone();
                sorted_table.sort_by_key(|r| r.gpa);
                if sorted_table.is_empty() || sorted_table.len() > 32 {
                    continue;
                }
                let nfiles = h.files.len().max(1);
                let rs: Vec<R> = sorted_table
                    .iter()
                    .map(|r| {
                        let cand = (r.file + 1 + *file_rot as usize % nfiles) % nfiles;
                        let fits = h.files[cand].max(1) as u64 * PAGE >= r.size;
                        if fits {
                            R { file: cand, off: 0, unmappable: 0, ..*r }
                        } else {
                            R { unmappable: 0, off: r.off & !(PAGE - 1), ..*r }
                        }
                    })
                    .collect();
                let body = spec::b_mem_table(&rs.iter().map(|r| [r.gpa, r.size, r.ua, r.off]).collect::<Vec<_>>());
                let fds: Vec<i32> = rs.iter().map(|r| fd_of(r)).collect();
                let ok = s.acked(fe::SET_MEM_TABLE, &body, &fds)?;
                ctx.class("table_resent_same_geometry_other_files");
                nt = true;
                if ok {
                    removed.extend(table.iter().copied());
                    table = rs;
                }
                (ok, Some(true))
            }
            MemOp::Add(reg) => {
                let r = reg.resolve(&h.files);
                let ok = s.acked(fe::ADD_MEM_REG, &spec::b_single_region(&[r.gpa, r.size, r.ua, r.off]), &[fd_of(&r)])?;
                let must = Some(!impossible(&r) && !table.iter().any(|t| overlaps(t, &r)));
                if ok {
                    table.push(r);
                }
                (ok, must)
            }
            MemOp::Rem { i, how } => {
                let target: R = if table.is_empty() || *how == RemHow::Absent {
                    // a base no current region starts at
                    let mut g = 700 * PAGE;
                    while table.iter().any(|t| t.gpa == g) {
                        g += PAGE;
                    }
                    R { gpa: g, size: PAGE, ua: 0x5000_0000, off: 0, file: 0, unmappable: 0 }
                } else {
                    let t = table[crate::engine::idx(*i, table.len())];
                    match how {
                        RemHow::WrongSize => R { size: t.size + PAGE, ..t },
                        RemHow::WrongUser => R { ua: t.ua ^ 0x10_0000, ..t },
                        _ => t,
                    }
                };
                let ok = s.acked(fe::REM_MEM_REG, &spec::b_single_region(&[target.gpa, target.size, target.ua, target.off]), &[])?;
                let exists = table.iter().position(|t| t.gpa == target.gpa && t.size == target.size);
                if ok {
                    if let Some(p) = exists {
                        removed.push(table.remove(p));
                        just_removed = true;
                    }
                }
                if *how == RemHow::WrongUser && exists.is_some() {
                    ctx.class(if ok { "remove_with_other_user_address_accepted" } else { "remove_with_other_user_address_refused" });
                    (ok, None)
                } else {
                    (ok, Some(exists.is_some()))
                }
            }
        };
        ctx.class(if accepted { "op_accepted" } else { "op_refused" });
        if let Some(m) = must {
            if m != accepted {
                return Err(format!(
                    "{desc}: {} but the model says it must {}",
                    if accepted { "acknowledged as success" } else { "refused" },
                    if m { "succeed" } else { "fail" }
                ));
            }
        }
        if accepted {
            updates += 1;
            any_success = true;
        } else if any_success {
            nt = true;
        }
        if table.len() >= 3 {
            nt = true;
        }

        // (2) one notification per successful change
        let calls = s.fx.be.st.lock().unwrap().update_memory_calls;
        if calls != updates {
            return Err(format!("{desc}: back end was notified {calls} times for {updates} successful changes"));
        }
        // (1) the region set the back end sees
        let mem = s.fx.be.st.lock().unwrap().mem.clone();
        let got: Vec<(u64, u64)> = match &mem {
            Some(m) => m.memory().iter().map(|r| (r.start_addr().0, r.len())).collect(),
            None => Vec::new(),
        };
        let mut want: Vec<(u64, u64)> = table.iter().map(|r| (r.gpa, r.size)).collect();
        want.sort();
        let mut got_s = got.clone();
        got_s.sort();
        if got_s != want {
            return Err(format!("{desc}: back end's guest memory has regions {got_s:x?}, accepted operations give {want:x?}"));
        }
        // (1b) ... and what it saw at the moment it was notified (a back end may use the memory inside the callback)
        if updates > 0 {
            let mut at = s.fx.be.st.lock().unwrap().mem_at_notification.clone();
            at.sort();
            if at != want {
                return Err(format!("{desc}: at the time of the latest notification the memory handed to the back end had regions {at:x?}, the accepted operations give {want:x?}"));
            }
        }
        // (3) byte backing both ways
        if let Some(m) = &mem {
            let gm = m.memory();
            for r in &table {
                // skip regions whose file range is shared with another current region: last writer wins
                for o in [0u64, r.size - 1, PAGE.min(r.size - 1), r.size / 2] {
                    stamp = stamp.wrapping_add(1).max(1);
                    files[r.file].write_all_at(&[stamp], r.off + o).map_err(|e| e.to_string())?;
                    let v: u8 = gm.read_obj(GuestAddress(r.gpa + o)).map_err(|e| format!("{desc}: guest read at {:#x}: {e}", r.gpa + o))?;
                    if v != stamp {
                        return Err(format!(
                            "{desc}: byte written to file {} at offset {:#x} is not visible at guest address {:#x} (read {v}, wrote {stamp})",
                            r.file,
                            r.off + o,
                            r.gpa + o
                        ));
                    }
                    stamp = stamp.wrapping_add(1).max(1);
                    gm.write_obj(stamp, GuestAddress(r.gpa + o)).map_err(|e| format!("{desc}: guest write: {e}"))?;
                    let mut b = [0u8; 1];
                    files[r.file].read_exact_at(&mut b, r.off + o).map_err(|e| e.to_string())?;
                    if b[0] != stamp {
                        return Err(format!(
                            "{desc}: byte written at guest address {:#x} is not visible in file {} at offset {:#x}",
                            r.gpa + o,
                            r.file,
                            r.off + o
                        ));
                    }
                }
            }
            drop(gm);
        }
        // (5) translation probes through SET_VRING_ADDR
        if let Some(home) = table.first().copied() {
            let mut probes: Vec<u64> = Vec::new();
            // addresses in the message must respect the ring alignment rules (16/2/4): align the probes
            let al = |x: u64| x.wrapping_add(15) & !15;
            let k = table[i % table.len()];
            probes.push(al(k.ua)); // first legal address of the region
            probes.push((k.ua + k.size - 16) & !15); // last legal slot inside
            probes.push(al(k.ua.wrapping_add(k.size))); // first legal address after the region
            probes.push((k.ua.wrapping_sub(1)) & !15); // last legal address before the region
            if let Some(rm) = removed.last() {
                probes.push(rm.ua + (rm.size / 2 & !0xf));
                nt = true;
            }
            // two probes per step, rotating
            for j in 0..2 {
                // right after a removal the removed range is probed first
                let va = if just_removed && j == 0 { *probes.last().unwrap() } else { probes[(i * 2 + j) % probes.len()] };
                let owners: Vec<&R> = table.iter().filter(|t| va >= t.ua && (va as u128) < t.ua as u128 + t.size as u128).collect();
                if owners.len() > 1 {
                    ctx.class("probe_ambiguous_user_ranges_overlap");
                    continue;
                }
                let (h_avail, h_used) = (al(home.ua + 0x100), al(home.ua + 0x200));
                let home_owners = table.iter().filter(|t| h_used >= t.ua && (h_used as u128) < t.ua as u128 + t.size as u128).count();
                if home_owners != 1 {
                    ctx.class("probe_skipped_home_ambiguous");
                    continue;
                }
                let body = spec::b_vring_addr(0, 0, va, h_used, h_avail, 0);
                let ok = s.acked(fe::SET_VRING_ADDR, &body, &[])?;
                ctx.class(if owners.is_empty() { "probe_outside" } else { "probe_inside" });
                match owners.first() {
                    None => {
                        if ok {
                            return Err(format!("{desc}: front-end address {va:#x} lies in no current region but SET_VRING_ADDR was accepted"));
                        }
                    }
                    Some(o) => {
                        if !ok {
                            return Err(format!("{desc}: front-end address {va:#x} lies in region ua={:#x} size={:#x} but SET_VRING_ADDR was refused", o.ua, o.size));
                        }
                        s.fx.barrier()?;
                        let snap = s.fx.be.st.lock().unwrap().snaps[0].first().cloned().unwrap_or_default();
                        let want = o.gpa + (va - o.ua);
                        if snap.desc != want {
                            return Err(format!(
                                "{desc}: front-end address {va:#x} translated to guest address {:#x}, expected gpa_base + (va - user_base) = {want:#x}",
                                snap.desc
                            ));
                        }
                    }
                }
            }
        }
    }
    if nt {
        let key: Vec<String> = h.ops.iter().map(|o| match o { MemOp::Set(r) => format!("S{}", r.len()), MemOp::Add(_) => "A".into(), MemOp::Rem { how, .. } => format!("R{how:?}"), MemOp::Resend { .. } => "Z".into(), MemOp::SetShort { regs, nfds } => format!("T{}/{}", nfds, regs.len()) }).collect();
        ctx.nontrivial(&(h.rwlock, key, &h.ops));
        ctx.class("nontrivial");
    }
    ctx.sample(|| json!({"rwlock": h.rwlock, "file_pages": h.files, "ops": h.ops, "final_table": table.iter().map(|r| format!("gpa={:#x} size={:#x} ua={:#x} off={:#x} file={}", r.gpa, r.size, r.ua, r.off, r.file)).collect::<Vec<_>>()}));
    let Sess { fx, cl } = s;
    drop(cl);
    fx.teardown();
    let panics = crate::engine_panic::take();
    if !panics.is_empty() {
        return Err(format!("panic during history: {}", panics[0]));
    }
    Ok(())
}

pub fn run_hist(ctx: &mut Ctx, h: &Hist) -> Result<(), String> {
    if h.rwlock {
        run_generic::<VRw>(ctx, h)
    } else {
        run_generic::<VMutex>(ctx, h)
    }
}

fn reg_strategy() -> impl Strategy<Value = Reg> {
    (
        prop_oneof![4 => Just(0u8), 1 => 0u8..3],
        // a small guest page space so that adjacency, overlap and duplicates happen often
        prop_oneof![3 => 0u16..48, 1 => 0u16..512],
        prop_oneof![3 => 1u8..=8, 1 => 1u8..=64],
        0u8..12,
        prop_oneof![2 => Just(0u8), 1 => 0u8..=255],
        prop_oneof![2 => Just(0u8), 2 => 0u8..16, 1 => 0u8..64],
        0u8..4,
        prop_oneof![8 => Just(0u8), 1 => Just(1u8), 1 => Just(2u8)],
    )
        .prop_map(|(gpa_hi, gpa_page, npages, ua_slot, ua_delta, off_pages, file, unmappable)| Reg { gpa_hi, gpa_page, npages, ua_slot, ua_delta, off_pages, file, unmappable })
}

/// a sorted, non-overlapping table (construction, not rejection)
fn good_table() -> impl Strategy<Value = Vec<Reg>> {
    proptest::collection::vec((1u16..6, 1u8..=6, 0u8..12, 0u8..8, 0u8..4), 1..=8).prop_map(|v| {
        let mut page = 0u16;
        v.into_iter()
            .enumerate()
            .map(|(i, (gap, npages, ua_slot, off_pages, file))| {
                page += gap - 1;
                let r = Reg { gpa_hi: 0, gpa_page: page, npages, ua_slot: if ua_slot == 4 { 5 } else { ua_slot }, ua_delta: ((i as u32) * 70 % 250) as u8, off_pages, file, unmappable: 0 };
                page += npages as u16;
                r
            })
            .collect()
    })
}

fn op_strategy() -> impl Strategy<Value = MemOp> {
    prop_oneof![
        2 => good_table().prop_map(MemOp::Set),
        1 => proptest::collection::vec(reg_strategy(), 1..=8).prop_map(MemOp::Set),
        4 => reg_strategy().prop_map(MemOp::Add),
        3 => (any::<u16>(), prop_oneof![3 => Just(RemHow::Exact), 1 => Just(RemHow::WrongSize), 1 => Just(RemHow::Absent), 1 => Just(RemHow::WrongUser)]).prop_map(|(i, how)| MemOp::Rem { i, how }),
        1 => (good_table(), any::<u8>()).prop_map(|(regs, nfds)| MemOp::SetShort { regs, nfds }),
        2 => any::<u8>().prop_map(|file_rot| MemOp::Resend { file_rot }),
    ]
}

pub fn run(ctx: &mut Ctx) {
    ctx.rule = "histories (1..12 steps) of SET_MEM_TABLE(1..8 regions) / ADD_MEM_REG / REM_MEM_REG(exact, size-mismatched, absent, other front-end address), SET_MEM_TABLE with fewer descriptors than regions, with \
                generated geometry: guest pages from a small space (adjacent, overlapping, duplicate, unordered), 1..64 pages, non-zero \
                mmap offsets, unmappable descriptors / unaligned offsets (failing mmap), user ranges near 0 / around 2^63 / ending at 2^64-1; executed on a real \
                daemon (both vring kinds) by a raw client, reconnecting after every refused request. Non-trivial = a refused operation after \
                a successful one, a probe into a removed region, or >= 3 regions; distinct by operation sequence."
        .into();
    ctx.assumptions = vec![
        "a SET_MEM_TABLE whose regions are unsorted or overlap in guest space may be refused or accepted; if accepted the table must be the requested one".into(),
        "translation probes are skipped when the user ranges of two accepted regions overlap (the statement assumes a unique containing region)".into(),
        "failed back-end update_memory() callbacks are not injected (application code is trusted)".into(),
    ];
    let cases = ctx.tier.pick(1500u32, 300_000u32);
    let strat = (any::<bool>(), proptest::collection::vec(8u8..=80, 1..=4), proptest::collection::vec(op_strategy(), 1..=12))
        .prop_map(|(rwlock, files, ops)| Hist { rwlock, files, ops });
    ctx.prop_check("histories", cases, strat, |ctx, h| run_hist(ctx, h));
}
