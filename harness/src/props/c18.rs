//! C18 — back-end-initiated requests reach the front-end handler faithfully, with status.
//!
//! G: histories `vec(Req, 1..16)` over {shared_object_add, remove, lookup(fd), shmem_map(fd),
//!    shmem_unmap} issued on the real Backend proxy, connected through a byte-and-descriptor tee to
//!    the real FrontendReqHandler served in a thread; generated UUIDs / mapping descriptors,
//!    descriptor kinds, a scripted handler result per request, REPLY_ACK on/off on both ends.
//! O: handler log: one entry per request, equal arguments, same open file, lent descriptor closed
//!    after the call; with REPLY_ACK the proxy succeeds iff the handler returned 0 and the
//!    acknowledgement on the wire is the value / negated errno, k-th ack after k-th request;
//!    without REPLY_ACK no acknowledgement bytes at all.

use std::os::unix::io::{AsRawFd, OwnedFd, RawFd};
use std::os::unix::net::UnixStream;
use std::sync::atomic::{AtomicBool, Ordering};
use std::sync::{Arc, Mutex};
use std::time::{Duration, Instant};

use proptest::prelude::*;
use serde::{Deserialize, Serialize};
use serde_json::json;
use vhost::vhost_user::message::{VhostUserMMap, VhostUserSharedMsg};
use vhost::vhost_user::{Backend, Error, FrontendReqHandler, VhostUserFrontendReqHandler};

use crate::engine::{lat64, Ctx};
use crate::fdtrack::{file_id, make_fd, FdKind, FD_KINDS};
use crate::gen::valid_uuid;
use crate::rawpeer;
use crate::rec_backend::{FeCall, FeOutcome, FeRec};
use crate::spec::{self, be};

#[derive(Serialize, Deserialize, Debug, Clone, Hash, PartialEq, Eq)]
pub struct Req {
    pub kind: u8,
    pub uuid: [u8; 16],
    pub mmap: [u64; 5],
    pub fd_kind: u8,
    pub result: FeOutcome,
    /// 0: nothing special.  1: another front-end thread holds the handler's mutex (the library's Mutex<S> adapter)
    /// when the request arrives and lets go a little later.  2: as 1, and with REPLY_ACK the thread inside the proxy
    /// call receives a signal (handler without SA_RESTART) while it waits for the acknowledgement.
    #[serde(default)]
    pub disturb: u8,
}

#[derive(Serialize, Deserialize, Debug, Clone, Hash, PartialEq, Eq)]
pub struct Hist {
    pub reply_ack: bool,
    /// the front-end side has REPLY_ACK negotiated although the proxy does not ask for replies
    #[serde(default)]
    pub handler_ack_only: bool,
    pub reqs: Vec<Req>,
}

#[derive(Clone, Debug)]
struct Seen {
    /// true: proxy -> front end
    request: bool,
    bytes: Vec<u8>,
    nfds: usize,
}

const BOUND: Duration = Duration::from_secs(10);

/// forward everything between `a` (proxy side) and `b` (front-end side), descriptors included, and record it
fn tee(a: UnixStream, b: UnixStream, stop: Arc<AtomicBool>, seen: Arc<Mutex<Vec<Seen>>>) {
    tee_inner(&a, &b, stop, seen);
    // whatever ended the tee: both sides see end-of-stream
    let _ = a.shutdown(std::net::Shutdown::Both);
    let _ = b.shutdown(std::net::Shutdown::Both);
}

fn tee_inner(a: &UnixStream, b: &UnixStream, stop: Arc<AtomicBool>, seen: Arc<Mutex<Vec<Seen>>>) {
    let _ = a.set_nonblocking(true);
    let _ = b.set_nonblocking(true);
    loop {
        let mut idle = true;
        for (from, to, request) in [(a, b, true), (b, a, false)] {
            match rawpeer::recv_once(from.as_raw_fd(), 8192, 64, libc::MSG_DONTWAIT) {
                Ok((bytes, fds, _)) => {
                    if bytes.is_empty() {
                        let _ = to.shutdown(std::net::Shutdown::Write);
                        if request {
                            return;
                        }
                        continue;
                    }
                    idle = false;
                    let raw: Vec<RawFd> = fds.iter().map(|f| f.as_raw_fd()).collect();
                    seen.lock().unwrap().push(Seen { request, bytes: bytes.clone(), nfds: fds.len() });
                    // blocking-ish forward
                    let t0 = Instant::now();
                    let mut off = 0;
                    let mut first = true;
                    while off < bytes.len() && t0.elapsed() < BOUND {
                        match rawpeer::send_with_fds(to.as_raw_fd(), &bytes[off..], if first { &raw } else { &[] }) {
                            Ok(n) => {
                                off += n;
                                first = false;
                            }
                            Err(e) if e.kind() == std::io::ErrorKind::WouldBlock => std::thread::yield_now(),
                            Err(_) => return,
                        }
                    }
                }
                Err(e) if e.kind() == std::io::ErrorKind::WouldBlock => {}
                Err(_) => return,
            }
        }
        if idle {
            // `stop` is raised after the proxy was dropped: nothing more can arrive
            if stop.load(Ordering::Acquire) {
                return;
            }
            std::thread::yield_now();
        }
    }
}

pub fn run_hist(ctx: &mut Ctx, h: &Hist) -> Result<(), String> {
    let t_start = Instant::now();
    let rec = Arc::new(Mutex::new(FeRec::new()));
    let mut server = FrontendReqHandler::new(rec.clone()).map_err(|e| format!("{e:?}"))?;
    server.set_reply_ack_flag(h.reply_ack || h.handler_ack_only);
    let tx = crate::daemon_fx::dup_fd(server.get_tx_raw_fd());
    let tx = UnixStream::from(tx);
    let (p1, p2) = UnixStream::pair().map_err(|e| e.to_string())?;
    let proxy = Backend::from_stream(p1);
    proxy.set_reply_ack_flag(h.reply_ack);
    proxy.set_shared_object_flag(true);
    proxy.set_shmem_flag(true);
    let stop = Arc::new(AtomicBool::new(false));
    let seen: Arc<Mutex<Vec<Seen>>> = Arc::new(Mutex::new(Vec::new()));
    let (st2, se2) = (stop.clone(), seen.clone());
    let tee_thread = std::thread::Builder::new().name("c18_tee".into()).spawn(move || tee(p2, tx, st2, se2)).map_err(|e| e.to_string())?;
    let served = Arc::new(std::sync::atomic::AtomicUsize::new(0));
    let sv2 = served.clone();
    let srv_thread = std::thread::Builder::new()
        .name("c18_server".into())
        .spawn(move || loop {
            match server.handle_request() {
                Ok(_) | Err(Error::ReqHandlerError(_)) => {
                    sv2.fetch_add(1, Ordering::SeqCst);
                }
                Err(_) => {
                    sv2.fetch_add(1, Ordering::SeqCst);
                    break;
                }
            }
        })
        .map_err(|e| e.to_string())?;

    let res = (|| -> Result<(), String> {
        let mut mixed = (false, false);
        for (i, r) in h.reqs.iter().enumerate() {
            rec.lock().unwrap().script.push_back(r.result.clone());
            let kind = r.kind % 5;
            let code = [be::SHARED_OBJECT_ADD, be::SHARED_OBJECT_REMOVE, be::SHARED_OBJECT_LOOKUP, be::SHMEM_MAP, be::SHMEM_UNMAP][kind as usize];
            let mut u = VhostUserSharedMsg::default();
            u.uuid = uuid::Uuid::from_bytes(r.uuid);
            let mm = VhostUserMMap { shmid: r.mmap[0] as u8, padding: [0; 7], fd_offset: r.mmap[1], shm_offset: r.mmap[2], len: r.mmap[3], flags: r.mmap[4] };
            let fd: OwnedFd = make_fd(FD_KINDS[r.fd_kind as usize % FD_KINDS.len()]);
            let id = file_id(fd.as_raw_fd()).unwrap();
            let before = rec.lock().unwrap().log.len();
            let served_before = served.load(Ordering::SeqCst);
            let seen_before = seen.lock().unwrap().len();
            // the proxy call (bounded: with REPLY_ACK it waits for the acknowledgement)
            let p = proxy.clone();
            let rawfd = fd.as_raw_fd();
            struct R(RawFd);
            impl AsRawFd for R {
                fn as_raw_fd(&self) -> RawFd {
                    self.0
                }
            }
            // the application's own use of its handler object: the request has to wait for the lock, not be refused
            let guard = if r.disturb % 3 != 0 { Some(rec.lock().unwrap()) } else { None };
            let tid = Arc::new(std::sync::atomic::AtomicI32::new(0));
            let tid2 = tid.clone();
            let hcall = std::thread::spawn(move || {
                tid2.store(unsafe { libc::gettid() }, Ordering::SeqCst);
                match kind {
                    0 => p.shared_object_add(&u),
                    1 => p.shared_object_remove(&u),
                    2 => p.shared_object_lookup(&u, &R(rawfd)),
                    3 => p.shmem_map(&mm, &R(rawfd)),
                    _ => p.shmem_unmap(&mm),
                }
            });
            if let Some(g) = guard {
                // until the tee has passed the request on, and a moment longer so that the server thread reaches the lock
                let t0 = Instant::now();
                while !seen.lock().unwrap()[seen_before..].iter().any(|x| x.request) && t0.elapsed() < BOUND {
                    std::thread::yield_now();
                }
                std::thread::sleep(Duration::from_millis(1));
                if r.disturb % 3 == 2 && h.reply_ack {
                    super::c10::install_noop_sigusr2();
                    let t = tid.load(Ordering::SeqCst);
                    let t0 = Instant::now();
                    while !crate::sched::asleep(t, 3) && t0.elapsed() < Duration::from_secs(1) {}
                    if t != 0 && !hcall.is_finished() {
                        unsafe { libc::syscall(libc::SYS_tgkill, libc::getpid(), t, libc::SIGUSR2) };
                        std::thread::sleep(Duration::from_millis(1));
                        ctx.class("signal_while_waiting_for_ack");
                    }
                }
                ctx.class("handler_mutex_held_when_request_arrives");
                drop(g);
            }
            let t0 = Instant::now();
            while !hcall.is_finished() {
                if t0.elapsed() > BOUND {
                    return Err(format!("request #{i} {r:?}: the proxy call does not return"));
                }
                std::thread::yield_now();
            }
            let pr = hcall.join().map_err(|_| "proxy call panicked".to_string())?;
            // let the front-end side finish the request
            let t0 = Instant::now();
            while served.load(Ordering::SeqCst) == served_before && t0.elapsed() < BOUND {
                std::thread::yield_now();
            }
            let desc = format!("request #{i} kind {kind} (code {code}) with handler result {:?}, REPLY_ACK={}", r.result, h.reply_ack);
            // handler log
            let log = rec.lock().unwrap().log[before..].to_vec();
            let m5 = [r.mmap[0] as u8 as u64, r.mmap[1], r.mmap[2], r.mmap[3], r.mmap[4]];
            let want = match kind {
                0 => FeCall::SharedObjectAdd(r.uuid),
                1 => FeCall::SharedObjectRemove(r.uuid),
                2 => FeCall::SharedObjectLookup(r.uuid, id),
                3 => FeCall::ShmemMap(m5, id),
                _ => FeCall::ShmemUnmap(m5),
            };
            if log != vec![want.clone()] {
                return Err(format!("{desc}: front-end handler saw {log:?}, the proxy was called with {want:?}"));
            }
            // the descriptor lent to the handler is closed afterwards, the one lent to the proxy is not
            if kind == 2 || kind == 3 {
                let lent = *rec.lock().unwrap().lent.last().unwrap();
                if lent != fd.as_raw_fd() && file_id(lent) == Some(id) {
                    return Err(format!("{desc}: the descriptor lent to the handler (fd {lent}) is still open after the call"));
                }
                if file_id(fd.as_raw_fd()) != Some(id) {
                    return Err(format!("{desc}: the descriptor lent to the proxy was closed"));
                }
                ctx.class("request_with_descriptor");
            }
            // proxy result and acknowledgement on the wire
            let new_seen: Vec<Seen> = {
                // wait until the tee has forwarded the ack (if one is due)
                let t0 = Instant::now();
                loop {
                    let s = seen.lock().unwrap()[seen_before..].to_vec();
                    let acks: usize = s.iter().filter(|x| !x.request).map(|x| x.bytes.len()).sum();
                    if !h.reply_ack || acks >= 20 || t0.elapsed() > Duration::from_secs(2) {
                        break s;
                    }
                    std::thread::yield_now();
                }
            };
            let req_bytes: Vec<u8> = new_seen.iter().filter(|x| x.request).flat_map(|x| x.bytes.clone()).collect();
            let ack_bytes: Vec<u8> = new_seen.iter().filter(|x| !x.request).flat_map(|x| x.bytes.clone()).collect();
            let first_req = new_seen.iter().position(|x| x.request);
            let first_ack = new_seen.iter().position(|x| !x.request);
            if req_bytes.len() < 12 || spec::parse_hdr(&req_bytes).0 != code {
                return Err(format!("{desc}: the tee did not see the request (saw {} request bytes)", req_bytes.len()));
            }
            if h.reply_ack {
                let v = match &r.result {
                    FeOutcome::Ok(v) => *v,
                    FeOutcome::Errno(e) => (-(*e as i64)) as u64,
                    FeOutcome::Other => (-(libc::EINVAL as i64)) as u64,
                };
                let want_ack = spec::reply(code, &spec::b_u64(v));
                if ack_bytes != want_ack {
                    return Err(format!("{desc}: acknowledgement on the wire {ack_bytes:x?}, prescribed {want_ack:x?}"));
                }
                if let (Some(a), Some(b)) = (first_req, first_ack) {
                    if b < a {
                        return Err(format!("{desc}: acknowledgement seen before its request"));
                    }
                }
                let ok = v == 0;
                if pr.is_ok() != ok {
                    return Err(format!("{desc}: proxy call returned {:?} although the handler's status is {v:#x}", pr.map_err(|e| e.to_string())));
                }
                if ok {
                    mixed.0 = true;
                } else {
                    mixed.1 = true;
                }
            } else {
                if !ack_bytes.is_empty() {
                    return Err(format!("{desc}: {} acknowledgement bytes were written without REPLY_ACK", ack_bytes.len()));
                }
                if pr.is_err() {
                    return Err(format!("{desc}: without REPLY_ACK the proxy call must not fail on the handler's result ({:?})", pr.map_err(|e| e.to_string())));
                }
            }
            ctx.class(match &r.result {
                FeOutcome::Ok(0) => "handler_ok_zero",
                FeOutcome::Ok(_) => "handler_ok_nonzero",
                FeOutcome::Errno(_) => "handler_errno",
                FeOutcome::Other => "handler_error_without_errno",
            });
            drop(fd);
        }
        if (mixed.0 && mixed.1) || h.reqs.iter().any(|r| matches!(r.kind % 5, 2 | 3)) {
            ctx.nontrivial(&(h.reply_ack, h.reqs.iter().map(|r| (r.kind % 5, std::mem::discriminant(&r.result))).map(|(k, d)| format!("{k}{d:?}")).collect::<Vec<_>>(), crate::engine::hash_of(h) % 1024));
            ctx.class("nontrivial");
        }
        Ok(())
    })();
    ctx.sample(|| json!({"reply_ack": h.reply_ack, "requests": h.reqs.iter().map(|r| json!({"kind": r.kind % 5, "result": r.result, "fd_kind": r.fd_kind % 5})).collect::<Vec<_>>()}));
    let t_body = t_start.elapsed();
    drop(proxy);
    stop.store(true, Ordering::Release);
    let t0 = Instant::now();
    for t in [tee_thread, srv_thread] {
        while !t.is_finished() && t0.elapsed() < BOUND {
            std::thread::yield_now();
        }
        if t.is_finished() {
            let _ = t.join();
        }
    }
    if std::env::var("VERIF_DEBUG").is_ok() && t_start.elapsed() > Duration::from_millis(50) {
        eprintln!("slow history: body {:?} total {:?} reqs {} reply_ack {}", t_body, t_start.elapsed(), h.reqs.len(), h.reply_ack);
    }
    res
}

pub fn req_strategy() -> impl Strategy<Value = Req> {
    let mm = (any::<u8>(), lat64(), lat64(), lat64(), 0u64..2).prop_map(|(id, a, b, len, fl)| {
        let len = len.max(1);
        let fit = |x: u64| if (x as u128 + len as u128) < (1u128 << 64) { x } else { u64::MAX - len };
        [id as u64, fit(a), fit(b), len, fl]
    });
    let uu = prop_oneof![
        4 => valid_uuid(),
        1 => (0usize..16, 0u8..8).prop_map(|(i, b)| { let mut u = [0u8; 16]; u[i] = 1 << b; u }),
        1 => (0usize..16, 0u8..8).prop_map(|(i, b)| { let mut u = [0xffu8; 16]; u[i] ^= 1 << b; u }),
    ];
    let res = prop_oneof![
        3 => Just(FeOutcome::Ok(0)),
        2 => lat64().prop_map(FeOutcome::Ok),
        2 => (1i32..=4095).prop_map(FeOutcome::Errno),
        1 => prop_oneof![Just(libc::ENOSYS), Just(libc::EINVAL), Just(libc::EPERM), Just(libc::ENOMEM)].prop_map(FeOutcome::Errno),
        1 => (-4095i32..0).prop_map(FeOutcome::Errno),
        1 => Just(FeOutcome::Other),
    ];
    let disturb = prop_oneof![21 => Just(0u8), 2 => Just(1u8), 1 => Just(2u8)];
    (0u8..5, uu, mm, 0u8..5, res, disturb).prop_map(|(kind, uuid, mmap, fd_kind, result, disturb)| Req { kind, uuid, mmap, fd_kind, result, disturb })
}

pub fn run(ctx: &mut Ctx) {
    ctx.rule = "histories of 1..16 requests over the five kinds on the real Backend proxy, forwarded by a recording tee (bytes and descriptors, both \
                directions) to the real FrontendReqHandler served in a thread that keeps serving after handler errors; UUIDs random / one bit away \
                from nil / one bit away from all-ones, mapping descriptors from the 64-bit lattice with valid flag/len combinations, five \
                descriptor kinds, handler results {0, non-zero values, errno 1..4095, negative raw codes, error without errno}, REPLY_ACK on or off \
                on both ends; for some requests another thread holds the handler's mutex when the request arrives, and the thread inside the proxy call \
                is sent a signal while it waits for the acknowledgement. Non-trivial = a history mixing failing and succeeding requests, or containing a request with a descriptor."
        .into();
    ctx.assumptions = vec![
        "protocol-invalid arguments (nil / all-ones UUID, zero or wrapping mapping length, undefined flags) are outside the claim and not generated".into(),
        "raw error code i32::MIN is excluded (not an errno; the application's handler is trusted code)".into(),
    ];
    let n = ctx.tier.pick(6000u32, 1_200_000u32);
    let strat = (any::<bool>(), any::<bool>(), proptest::collection::vec(req_strategy(), 1..=16)).prop_map(|(reply_ack, handler_ack_only, reqs)| Hist { reply_ack, handler_ack_only, reqs });
    ctx.prop_check("histories", n, strat, |ctx, h| run_hist(ctx, h));
}
