//! C17 — kicks are routed to the owning worker with the ring's rank as event id; custom listener
//! ids are delivered exactly or refused.
//!
//! G: queues-per-thread configurations: num_queues 1..=6, 1..=3 worker masks with any value in
//!    0..2^(num_queues+2) (sparse, interleaved, overlapping masks, bits beyond the queue count),
//!    every queue kicked once; custom listener ids across the 64-bit range.
//! O: from first principles: owner(q) = first thread whose mask has bit q; rank = popcount of the
//!    owner's mask below q; rings are made distinguishable by size 2^(q+1).

use std::os::unix::io::AsRawFd;

use proptest::prelude::*;
use serde::{Deserialize, Serialize};
use serde_json::json;
use vmm_sys_util::epoll::EventSet;
use vmm_sys_util::eventfd::EventFd;

use crate::daemon_fx::{new_eventfd, BeCfg, Fx, VRw};
use crate::engine::Ctx;
use crate::rawclient::RawClient;
use crate::spec::{self, fe};

#[derive(Serialize, Deserialize, Debug, Clone, Hash, PartialEq, Eq)]
pub struct Cfg {
    pub num_queues: u8,
    pub masks: Vec<u64>,
    /// 0: protocol features negotiated, all rings started, then enabled.  1: legacy front end (no protocol features):
    /// the upper half of the rings is started, then SET_FEATURES enables everything, then the lower half is started.
    /// 2: protocol features, odd rings enabled before they are started.
    /// 3: like 0, then every running ring gets a new kick descriptor (SET_VRING_KICK on a started ring).
    #[serde(default)]
    pub mode: u8,
}

#[derive(Serialize, Deserialize, Debug, Clone, Hash, PartialEq, Eq)]
pub struct ListenerCase {
    pub num_queues: u8,
    pub masks: Vec<u64>,
    pub thread: u8,
    pub id: u64,
}

pub const F7_SIG: &str = "C17/F7-listener-id-above-65535-accepted-but-delivered-truncated";
const BARRIER_ID: u64 = 40_000;

fn thread_count() -> usize {
    std::fs::read_dir("/proc/self/task").map(|d| d.count()).unwrap_or(0)
}

fn setup(cfg: &Cfg) -> Result<(Fx<VRw>, RawClient, Vec<EventFd>), String> {
    let n = cfg.num_queues as usize;
    let be = BeCfg { num_queues: n, max_queue_size: 256, queues_per_thread: cfg.masks.clone(), barrier_id: Some(BARRIER_ID), ..Default::default() };
    let mut fx: Fx<VRw> = Fx::new(be)?;
    fx.connect()?;
    let cl = RawClient::new(fx.peer.as_ref().unwrap().try_clone().unwrap());
    // ack every protocol feature; virtio features with PROTOCOL_FEATURES so rings start disabled
    cl.negotiate(|f| f & ((1 << 32) | spec::VIRTIO_F_PROTOCOL_FEATURES), |p| p).map_err(|e| format!("negotiation: {e}"))?;
    let mut kicks = Vec::new();
    for q in 0..n {
        let a = cl.ack(fe::SET_VRING_NUM, &spec::b_vring_state(q as u32, 1 << (q + 1)), &[]).map_err(|e| format!("SET_VRING_NUM {q}: {e}"))?;
        if a != 0 {
            return Err(format!("SET_VRING_NUM({q}, {}) refused", 1 << (q + 1)));
        }
        let e = new_eventfd();
        let a = cl.ack(fe::SET_VRING_KICK, &spec::b_u64(q as u64), &[e.as_raw_fd()]).map_err(|e| format!("SET_VRING_KICK {q}: {e}"))?;
        if a != 0 {
            return Err(format!("SET_VRING_KICK({q}) refused"));
        }
        kicks.push(e);
    }
    Ok((fx, cl, kicks))
}

/// other orders in which the rings get started and enabled (the routing must not depend on them)
fn setup_other_order(cfg: &Cfg) -> Result<(Fx<VRw>, RawClient, Vec<EventFd>), String> {
    let n = cfg.num_queues as usize;
    let be = BeCfg { num_queues: n, max_queue_size: 256, queues_per_thread: cfg.masks.clone(), barrier_id: Some(BARRIER_ID), ..Default::default() };
    let mut fx: Fx<VRw> = Fx::new(be)?;
    fx.connect()?;
    let cl = RawClient::new(fx.peer.as_ref().unwrap().try_clone().unwrap());
    let kicks: Vec<EventFd> = (0..n).map(|_| new_eventfd()).collect();
    let io = |e: crate::rawclient::RcErr| format!("setup: {e}");
    if cfg.mode == 1 {
        let (b, _) = cl.get(fe::GET_FEATURES, &[], &[]).map_err(io)?;
        let feats = spec::rd_u64(&b, 0);
        for q in 0..n {
            cl.send(fe::SET_VRING_NUM, false, &spec::b_vring_state(q as u32, 1 << (q + 1)), &[]).map_err(io)?;
        }
        for q in (n / 2..n).rev() {
            cl.send(fe::SET_VRING_KICK, false, &spec::b_u64(q as u64), &[kicks[q].as_raw_fd()]).map_err(io)?;
        }
        cl.send(fe::SET_FEATURES, false, &spec::b_u64(feats & (1 << 32)), &[]).map_err(io)?;
        for q in 0..n / 2 {
            cl.send(fe::SET_VRING_KICK, false, &spec::b_u64(q as u64), &[kicks[q].as_raw_fd()]).map_err(io)?;
        }
        // synchronise: a reply-bearing request is answered after everything before it was processed
        cl.get(fe::GET_FEATURES, &[], &[]).map_err(io)?;
    } else {
        cl.negotiate(|f| f & ((1 << 32) | spec::VIRTIO_F_PROTOCOL_FEATURES), |p| p).map_err(|e| format!("negotiation: {e}"))?;
        for q in 0..n {
            if cl.ack(fe::SET_VRING_NUM, &spec::b_vring_state(q as u32, 1 << (q + 1)), &[]).map_err(io)? != 0 {
                return Err(format!("SET_VRING_NUM({q}) refused"));
            }
        }
        for q in (0..n).rev() {
            let steps: [u32; 2] = if q % 2 == 1 { [fe::SET_VRING_ENABLE, fe::SET_VRING_KICK] } else { [fe::SET_VRING_KICK, fe::SET_VRING_ENABLE] };
            for code in steps {
                let a = if code == fe::SET_VRING_KICK {
                    cl.ack(code, &spec::b_u64(q as u64), &[kicks[q].as_raw_fd()])
                } else {
                    cl.ack(code, &spec::b_vring_state(q as u32, 1), &[])
                };
                if a.map_err(io)? != 0 {
                    return Err(format!("setup message {code} for ring {q} refused"));
                }
            }
        }
    }
    Ok((fx, cl, kicks))
}

pub fn run_cfg(ctx: &mut Ctx, cfg: &Cfg) -> Result<(), String> {
    let n = cfg.num_queues as usize;
    let base_threads = thread_count();
    let (fx, cl, kicks) = if cfg.mode == 0 || cfg.mode == 3 { setup(cfg)? } else { setup_other_order(cfg)? };
    let (mut fx, cl, mut kicks) = (fx, cl, kicks);
    if cfg.mode == 0 || cfg.mode == 3 {
        for q in 0..n {
            let a = cl.ack(fe::SET_VRING_ENABLE, &spec::b_vring_state(q as u32, 1), &[]).map_err(|e| format!("enable {q}: {e}"))?;
            if a != 0 {
                return Err(format!("SET_VRING_ENABLE({q},1) refused"));
            }
        }
    }
    if cfg.mode != 0 {
        ctx.class(match cfg.mode {
            1 => "order_legacy_features_between_starts",
            2 => "order_enable_before_start",
            _ => "kick_descriptor_replaced_while_running",
        });
    }
    if cfg.mode == 3 {
        // every running ring gets a new kick descriptor; the routing of the new descriptor is what is checked below
        for q in 0..n {
            let e = new_eventfd();
            if cl.ack(fe::SET_VRING_KICK, &spec::b_u64(q as u64), &[e.as_raw_fd()]).map_err(|e| format!("replace kick {q}: {e}"))? != 0 {
                return Err(format!("SET_VRING_KICK({q}) on a running ring refused"));
            }
            kicks[q] = e;
        }
    }

    fx.barrier()?;
    let mut seen = fx.be.event_count();
    if seen != 0 {
        return Err(format!("{seen} handler invocations before any kick"));
    }
    let mut nontrivial = false;
    for q in 0..n {
        let owner = cfg.masks.iter().position(|m| m >> q & 1 == 1);
        kicks[q].write(1).map_err(|e| e.to_string())?;
        fx.barrier()?;
        let evs = fx.be.events();
        let new = &evs[seen..];
        seen = evs.len();
        match owner {
            None => {
                ctx.class("queue_in_no_mask");
                if !new.is_empty() {
                    return Err(format!("kick on queue {q} (in no mask) led to {} handler invocations (first: {:?})", new.len(), new.iter().take(3).collect::<Vec<_>>()));
                }
            }
            Some(t) => {
                let mask = cfg.masks[t];
                let rank = (mask & ((1u64 << q) - 1)).count_ones() as u16;
                let slice_len = (mask & ((1u64 << n) - 1)).count_ones() as usize;
                if rank != 0 && rank as usize != q {
                    nontrivial = true;
                }
                if slice_len >= 2 && rank as usize != q {
                    nontrivial = true;
                }
                if new.len() != 1 {
                    return Err(format!("kick on queue {q}: {} handler invocations (first: {:?}), exactly one expected", new.len(), new.iter().take(3).collect::<Vec<_>>()));
                }
                let e = &new[0];
                if e.thread_id != t {
                    return Err(format!("kick on queue {q} handled by worker {} but the first mask containing it is thread {t} (masks {:x?})", e.thread_id, cfg.masks));
                }
                if e.device_event != rank {
                    return Err(format!("kick on queue {q}: event id {} but {rank} lower-numbered queues are in thread {t}'s mask {mask:#x}", e.device_event));
                }
                if e.nvrings != slice_len {
                    return Err(format!("kick on queue {q}: ring slice has {} elements, thread {t}'s mask {mask:#x} selects {slice_len}", e.nvrings));
                }
                if e.ring_size != Some(1 << (q + 1)) {
                    return Err(format!("kick on queue {q}: vrings[{}] has size {:?}, queue {q} was configured with {}", e.device_event, e.ring_size, 1 << (q + 1)));
                }
            }
        }
    }
    if nontrivial {
        ctx.nontrivial(cfg);
        ctx.class("nontrivial");
    }
    ctx.class(&format!("queues_{n}_threads_{}", cfg.masks.len()));
    ctx.sample(|| json!({"num_queues": n, "masks": cfg.masks.iter().map(|m| format!("{m:#b}")).collect::<Vec<_>>(), "events": fx.be.events()}));
    // exit: dropping the daemon raises each worker's exit event (id num_queues) and joins the workers
    drop(cl);
    if let Err(e) = fx.teardown_checked(10) {
        ctx.fatal_violation(format!("exit event (id num_queues={n}) does not terminate the workers: {e}"), cfg);
    }
    for _ in 0..2000 {
        if thread_count() <= base_threads {
            break;
        }
        std::thread::sleep(std::time::Duration::from_millis(1));
    }
    if thread_count() > base_threads {
        return Err(format!("after dropping the daemon {} threads remain (before: {base_threads}): a worker did not take the exit event", thread_count()));
    }
    Ok(())
}

pub fn run_listener(ctx: &mut Ctx, c: &ListenerCase) -> Result<(), String> {
    let n = c.num_queues as usize;
    let cfg = Cfg { num_queues: c.num_queues, masks: c.masks.clone(), mode: 0 };
    let (mut fx, cl, kicks) = setup(&cfg)?;
    // every ring started, disabled, with one kick pending: a mis-delivered listener event would eat it
    for k in &kicks {
        k.write(1).map_err(|e| e.to_string())?;
    }
    fx.barrier()?;
    let t = c.thread as usize % c.masks.len();
    let lfd = new_eventfd();
    let reg = fx.daemon.as_ref().unwrap().register_listener(t, lfd.as_raw_fd(), c.id);
    let res = (|| -> Result<(), String> {
        if c.id <= n as u64 {
            ctx.class("listener_id_reserved");
            return match reg {
                Ok(()) => Err(format!("listener id {} (<= num_queues {n}) was accepted", c.id)),
                Err(_) => Ok(()),
            };
        }
        if reg.is_err() {
            ctx.class("listener_refused");
            return Ok(()); // an id that cannot be delivered exactly may be refused
        }
        ctx.class("listener_accepted");
        ctx.nontrivial(&(c.id, n, t));
        let seen = fx.be.event_count();
        lfd.write(1).map_err(|e| e.to_string())?;
        // the test listener is level-triggered and nobody reads it inside the worker: take the
        // event back as soon as the first delivery is seen (or the barrier completed)
        let b1 = fx.barrier_once();
        let _ = lfd.read();
        let b2 = fx.barrier_once();
        let evs = fx.be.events();
        let new: Vec<_> = evs[seen..].to_vec();
        let exact = !new.is_empty() && new.iter().all(|e| e.device_event as u64 == c.id && e.thread_id == t);
        let mut eaten = Vec::new();
        for (q, k) in kicks.iter().enumerate() {
            match k.read() {
                Ok(_) => {}
                Err(_) => eaten.push(q),
            }
        }
        let worker_dead = b1.is_err() || b2.is_err();
        if !exact || !eaten.is_empty() || worker_dead {
            if c.id > 65535 && ctx.known(F7_SIG) {
                return Ok(());
            }
            return Err(format!(
                "listener registered with id {} on worker {t} (accepted): delivered as {:?}, kicks of rings {eaten:?} consumed, worker {}",
                c.id,
                new.iter().map(|e| (e.thread_id, e.device_event)).collect::<Vec<_>>(),
                if worker_dead { "no longer answers (took the exit path?)" } else { "alive" }
            ));
        }
        Ok(())
    })();
    let _ = fx.daemon.as_ref().unwrap().unregister_listener(t, lfd.as_raw_fd(), c.id);
    ctx.sample(|| json!({"listener_id": format!("{:#x}", c.id), "num_queues": n, "thread": t, "masks": c.masks}));
    drop(cl);
    fx.teardown();
    res
}

fn all_cfgs(n: u8, t: usize) -> Vec<Cfg> {
    let lim = 1u64 << (n + 2);
    let mut out = Vec::new();
    let mut cur = vec![0u64; t];
    loop {
        out.push(Cfg { num_queues: n, masks: cur.clone(), mode: 0 });
        let mut i = 0;
        loop {
            if i == t {
                return out;
            }
            cur[i] += 1;
            if cur[i] < lim {
                break;
            }
            cur[i] = 0;
            i += 1;
        }
    }
}

pub fn run(ctx: &mut Ctx) {
    ctx.rule = "queues-per-thread configurations (num_queues 1..=6, 1..=3 masks, each any value below 2^(num_queues+2)); each configuration \
                builds a fresh daemon, configures ring q with size 2^(q+1), enables all rings (sampled part: also a legacy front end whose SET_FEATURES arrives between the ring starts, and rings enabled before they are started) and kicks every queue once with a double barrier \
                on every worker in between. Exhaustive over the stated sub-space, sampled (proptest) beyond. Custom listeners: ids num_queues+1, \
                255, 256, 65535, 65536+k, 2^32+k, random u64 and reserved ids. Non-trivial = a configuration where some kicked queue has \
                rank != 0 and rank != q (or a multi-queue mask with shifted ranks); distinct configurations."
        .into();
    ctx.assumptions = vec![
        "queues that are in no mask: only 'no handler invocation' is checked".into(),
        "a listener id that cannot be delivered exactly may be refused at registration; acceptance creates the obligation".into(),
    ];
    // exhaustive part
    let (max_n_full, max_t_full) = ctx.tier.pick((4u8, 2usize), (4u8, 3usize));
    let mut space = Vec::new();
    for n in 1..=max_n_full {
        for t in 1..=max_t_full {
            space.extend(all_cfgs(n, t));
        }
    }
    ctx.exhaustive = Some(true);
    ctx.extra.insert("exhaustive_space".into(), json!(format!("num_queues<={max_n_full}, threads<={max_t_full}: {} configurations", space.len())));
    ctx.enumerate("exhaustive_configs", space, |ctx, c| run_cfg(ctx, c));

    // sampled part: up to 6 queues and 3 threads
    let cases = ctx.tier.pick(1500u32, 60_000u32);
    let strat = (1u8..=6, 1usize..=3).prop_flat_map(|(n, t)| {
        let lim = 1u64 << (n + 2);
        (Just(n), proptest::collection::vec(0..lim, t..=t), prop_oneof![2 => Just(0u8), 1 => Just(1u8), 1 => Just(2u8), 1 => Just(3u8)])
    }).prop_map(|(n, masks, mode)| Cfg { num_queues: n, masks, mode });
    ctx.prop_check("sampled_configs", cases, strat, |ctx, c| run_cfg(ctx, c));

    // listeners
    let cases = ctx.tier.pick(600u32, 20_000u32);
    let strat = (1u8..=4, 1usize..=2).prop_flat_map(|(n, t)| {
        let lim = 1u64 << n;
        let ids = prop_oneof![
            2 => Just(n as u64 + 1),
            1 => Just(255u64), 1 => Just(256u64), 1 => Just(65535u64),
            3 => (0u64..=n as u64 + 1).prop_map(|k| 65536 + k),
            2 => (0u64..=n as u64 + 1).prop_map(|k| (1u64 << 32) + k),
            1 => (0u64..=n as u64),
            2 => any::<u64>(),
            1 => (n as u64 + 1..1000),
        ];
        (Just(n), proptest::collection::vec(1..lim.max(2), t..=t), 0u8..3, ids)
    }).prop_map(|(num_queues, masks, thread, id)| ListenerCase { num_queues, masks, thread, id })
      .prop_filter("barrier id is taken", |c| c.id != BARRIER_ID);
    ctx.prop_check("listeners", cases, strat, |ctx, c| run_listener(ctx, c));
}
