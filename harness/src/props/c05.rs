//! C05 — no front-end input can crash the back end or reach the handler unvalidated.
//!
//! (a) BackendReqHandler level: grammar-aware byte streams (valid messages of random codes with
//!     mutated size/flags/code/body fields, truncation, extension, random tails, 0..=40 descriptors
//!     at byte 0 or a random byte) after a random negotiation prefix, plus pure random bytes.
//! (b) daemon level: sequences of well-typed messages with adversarial 64-bit field values sent to a
//!     running VhostUserDaemon (see c05 daemon part in `daemon_fx`).
//! O:  no panic anywhere (catch_unwind + global panic hook, overflow checks and debug assertions
//!     on); every handler invocation must be explained by a protocol-valid message (refpred) that
//!     literally occurs in the sent bytes, at increasing offsets, with the prescribed descriptors.

use proptest::prelude::*;
use serde::{Deserialize, Serialize};
use serde_json::json;

use crate::engine::Ctx;
use crate::fdtrack::FdKind;
use crate::rec_backend::{Outcome, Rec};
use crate::srv::{fresh_fds, run_stream, Chunk, Res};
use crate::stream::{chunk_strategy, explain_calls_fds, negotiation_strategy, ChunkSpec, Mutation, Negotiation};

#[derive(Serialize, Deserialize, Debug, Clone)]
pub struct StreamCase {
    pub neg: Negotiation,
    pub chunks: Vec<ChunkSpec>,
    /// handler fails on its k-th invocation (modulo) when Some
    pub fail_every: Option<u8>,
}

#[derive(Serialize, Deserialize, Debug, Clone)]
pub struct RawCase {
    pub neg: Negotiation,
    pub bytes: Vec<u8>,
    pub nfds: u8,
    pub fd_at: u16,
}

pub fn mut_name(m: &Mutation) -> &'static str {
    match m {
        Mutation::None => "none",
        Mutation::SizeDelta(_) => "size_delta",
        Mutation::SizeSet(_) => "size_set",
        Mutation::FlagsXor(_) => "flags",
        Mutation::CodeSet(_) => "code",
        Mutation::BodyField { .. } => "body_field",
        Mutation::TruncateFramed(_) => "trunc_framed",
        Mutation::TruncateRaw(_) => "trunc_raw",
        Mutation::ExtendFramed(_) => "extend",
        Mutation::SumEdge { .. } => "sum_edge",
        Mutation::WordAdd { .. } => "word_add",
    }
}

pub fn build_chunks(neg: &Negotiation, specs: &[ChunkSpec]) -> (Vec<Chunk>, Vec<u8>) {
    let mut chunks = Vec::new();
    let mut all = Vec::new();
    for p in neg.prefix_bytes() {
        all.extend_from_slice(&p);
        chunks.push(Chunk { bytes: p, fds: vec![] });
    }
    for s in specs {
        let b = s.bytes();
        all.extend_from_slice(&b);
        let n = s.nfds_sent();
        let k = (s.fd_at as usize * b.len()) >> 16;
        if k == 0 || n == 0 {
            chunks.push(Chunk { bytes: b, fds: fresh_fds(n, FdKind::Memfd) });
        } else {
            chunks.push(Chunk { bytes: b[..k].to_vec(), fds: vec![] });
            chunks.push(Chunk { bytes: b[k..].to_vec(), fds: fresh_fds(n, FdKind::Memfd) });
        }
    }
    (chunks, all)
}

fn header_valid(b: &[u8]) -> bool {
    if b.len() < 12 {
        return false;
    }
    let (c, f, s) = crate::spec::parse_hdr(b);
    crate::refpred::hdr(c, f, s, 44) == Some(true)
}

/// (absolute stream offset, count) of every descriptor group the chunks carry (a sentinel group of zero descriptors keeps
/// the list non-empty so that descriptor counts are judged even when none was sent)
fn fd_groups_of(chunks: &[Chunk]) -> Vec<(usize, usize)> {
    let mut off = 0;
    let mut g = vec![(usize::MAX, 0)];
    for c in chunks {
        if !c.fds.is_empty() {
            g.push((off, c.fds.len()));
        }
        off += c.bytes.len();
    }
    g
}

fn judge(ctx: &mut Ctx, what: &str, run: &crate::srv::ServerRun, all: &[u8], max_calls: usize, fd_groups: &[(usize, usize)]) -> Result<(), String> {
    for r in &run.results {
        if let Res::Panic(p) = r {
            return Err(format!("{what}: handle_request panicked: {p}"));
        }
    }
    let other = crate::engine_panic::take();
    if !other.is_empty() {
        return Err(format!("{what}: panic recorded: {}", other[0]));
    }
    if !run.ended_disconnected && run.results.len() >= max_calls {
        ctx.note_inconclusive(format!("{what}: stream not finished after {max_calls} calls"));
    }
    if let Err(i) = explain_calls_fds(all, &run.log, fd_groups) {
        return Err(format!(
            "{what}: handler invocation #{i} {:?} is not explained by any protocol-valid message, carrying exactly the descriptors its request prescribes, in the sent bytes after the previous one (log {:?}; descriptor groups sent (offset, count): {fd_groups:?})",
            run.log[i],
            run.log.iter().map(|c| c.name()).collect::<Vec<_>>()
        ));
    }
    Ok(())
}

pub fn run_stream_case(ctx: &mut Ctx, c: &StreamCase) -> Result<(), String> {
    let (chunks, all) = build_chunks(&c.neg, &c.chunks);
    let mut rec = Rec::new(c.neg.dev_features, c.neg.dev_pf);
    rec.hold_files = false;
    if let Some(k) = c.fail_every {
        for i in 0..64u32 {
            let fail = if (i % (k as u32 + 2)) == (k as u32 % 2) + 1 { Some((i % 16) as u8) } else { None };
            rec.script.push_back(Outcome { fail, ..Default::default() });
        }
    }
    let max_calls = all.len() / 12 + 4;
    let groups = fd_groups_of(&chunks);
    let run = run_stream(rec, chunks, max_calls);

    let mut nontrivial = false;
    for s in &c.chunks {
        ctx.class(&format!("mut_{}", mut_name(&s.mutation)));
        if s.nfds_override.is_some() {
            ctx.class("fds_overridden");
        }
        if s.fd_at != 0 && s.nfds_sent() > 0 {
            ctx.class("fds_not_on_byte0");
        }
        if !s.pristine() && header_valid(&s.bytes()) {
            nontrivial = true;
            let fdc = match s.nfds_sent() {
                0 => 0,
                1 => 1,
                2..=32 => 2,
                _ => 3,
            };
            ctx.nontrivial(&(s.code, mut_name(&s.mutation), fdc, c.neg.ack_pf.is_some(), c.neg.ack_vf.map(|v| v >> 30 & 1)));
        }
    }
    if nontrivial {
        ctx.class("nontrivial_stream");
    }
    ctx.class_n("handler_invocations", run.log.len() as u64);
    ctx.sample(|| {
        json!({"negotiation": c.neg, "chunks": c.chunks.iter().map(|s| json!({"code": s.code, "mutation": s.mutation, "nfds_sent": s.nfds_sent(), "fd_at": s.fd_at, "tail": s.tail.len()})).collect::<Vec<_>>(),
               "results": run.results.iter().map(|r| format!("{r:?}")).collect::<Vec<_>>(), "handler_calls": run.log.iter().map(|c| c.name()).collect::<Vec<_>>()})
    });
    judge(ctx, "stream", &run, &all, max_calls, &groups)
}

pub fn run_raw_case(ctx: &mut Ctx, c: &RawCase) -> Result<(), String> {
    let mut chunks = Vec::new();
    let mut all = Vec::new();
    for p in c.neg.prefix_bytes() {
        all.extend_from_slice(&p);
        chunks.push(Chunk { bytes: p, fds: vec![] });
    }
    all.extend_from_slice(&c.bytes);
    let k = (c.fd_at as usize * c.bytes.len()) >> 16;
    if k > 0 {
        chunks.push(Chunk { bytes: c.bytes[..k].to_vec(), fds: vec![] });
    }
    if k < c.bytes.len() {
        chunks.push(Chunk { bytes: c.bytes[k..].to_vec(), fds: fresh_fds(c.nfds as usize, FdKind::Memfd) });
    }
    let mut rec = Rec::new(c.neg.dev_features, c.neg.dev_pf);
    rec.hold_files = false;
    let max_calls = all.len() / 12 + 4;
    let groups = fd_groups_of(&chunks);
    let run = run_stream(rec, chunks, max_calls);
    ctx.class("raw_bytes");
    ctx.class_n("handler_invocations", run.log.len() as u64);
    judge(ctx, "raw", &run, &all, max_calls, &groups)
}

pub fn stream_case_strategy() -> impl Strategy<Value = StreamCase> {
    (
        negotiation_strategy(),
        proptest::collection::vec(chunk_strategy(), 1..=6),
        prop_oneof![2 => Just(None), 1 => (0u8..4).prop_map(Some)],
    )
        .prop_map(|(neg, chunks, fail_every)| StreamCase { neg, chunks, fail_every })
}

pub fn raw_case_strategy() -> impl Strategy<Value = RawCase> {
    // random bytes, with a bias towards a plausible header at the front
    let bytes = prop_oneof![
        proptest::collection::vec(any::<u8>(), 0..200),
        (1u32..=44, 0u32..16, 0u32..64, proptest::collection::vec(any::<u8>(), 0..120)).prop_map(|(c, f, s, rest)| {
            let mut v = crate::spec::hdr(c, f | 1, s).to_vec();
            v.extend_from_slice(&rest);
            v
        }),
    ];
    (negotiation_strategy(), bytes, 0u8..=40, prop_oneof![Just(0u16), any::<u16>()])
        .prop_map(|(neg, bytes, nfds, fd_at)| RawCase { neg, bytes, nfds, fd_at })
}

pub fn run(ctx: &mut Ctx) {
    ctx.rule = "(a) byte streams fed by a raw peer to the real BackendReqHandler: 1..6 chunks, each a spec-valid message of a random \
                request code transformed by one mutator {size+-k, size:=boundary, flag bits, code, body field:=lattice value, truncate, \
                extend} with 0..=40 descriptors at byte 0 or a random byte and an optional random tail, after a random negotiation \
                prefix; plus random byte strings. (b) daemon level: see classes daemon_*. Non-trivial = a stream with >=1 chunk that \
                passes header validation and differs from its pristine form; distinct by (code, mutator, fd-count class, negotiation class)."
        .into();
    ctx.assumptions = vec![
        "harness build has overflow-checks and debug-assertions on, so arithmetic overflow in the library panics".into(),
        "oracle: each handler invocation must be explained by a protocol-valid message (refpred.rs) literally present in the sent bytes at increasing offsets; resynchronisation after an error is the server's choice".into(),
        "out-of-bounds reads that do not change arguments are only visible in the ASan fuzz target (fuzz/), not here".into(),
    ];
    let n = ctx.tier.pick(12_000u32, 2_000_000u32);
    ctx.prop_check("streams", n, stream_case_strategy(), |ctx, c| run_stream_case(ctx, c));
    let n = ctx.tier.pick(4_000u32, 1_000_000u32);
    ctx.prop_check("raw_bytes", n, raw_case_strategy(), |ctx, c| run_raw_case(ctx, c));
    crate::fuzzing::corpus_check(ctx, "c05_stream");
    super::c05d::run_daemon_part(ctx);
}
