//! Byte-level entry points shared by the libFuzzer targets in /verif/fuzz and by the "fuzz_corpus"
//! sub-checks of the quick tiers: the fuzzer's bytes are decoded into the same case types the proptest
//! generators produce and judged by the same oracles.  A target never only waits for crashes.
//!
//! Input layouts (all little endian; short inputs are padded with zeroes):
//!   c05_stream : [negotiation selector][nfds 0..=40][fd_at u16] bytes...      -> props::c05::RawCase
//!   c06_reply  : [op selector][bit0 need_reply][nfds 0..=3] reply bytes...    -> props::c06::FeReplyCase{muts=[Junk, Fds]}
//!   c06_bereq  : [bit0 reply_ack][nfds 0..=3][fd_at u16] bytes...             -> props::c06::run_br_raw
//!   c20_valid  : [type selector] up to 6 u64 fields                          -> props::c20::VCase
//!   c04_hist   : [features selector][pf u24] then 12-byte records [code][flags][8 seed bytes][val selector][spare]
//!                -> props::c04::Hist (bodies are well-formed by construction: gen::wellformed_body sampled from the seed)
use serde::{Deserialize, Serialize};

use crate::engine::Ctx;
use crate::feops::{FeOp, ReplyVals};
use crate::props::{c05, c06, c20};
use crate::spec;
use crate::stream::Negotiation;

pub const TARGETS: &[(&str, &str)] = &[("c05_stream", "C05"), ("c06_reply", "C06"), ("c06_bereq", "C06"), ("c20_valid", "C20"), ("c04_hist", "C04")];

#[derive(Serialize, Deserialize, Debug, Clone)]
pub struct FuzzInput {
    pub target: String,
    pub hex: String,
}

pub fn hex(b: &[u8]) -> String {
    b.iter().map(|x| format!("{x:02x}")).collect()
}
pub fn unhex(s: &str) -> Vec<u8> {
    (0..s.len() / 2).filter_map(|i| u8::from_str_radix(&s[2 * i..2 * i + 2], 16).ok()).collect()
}

fn negotiation(sel: u8) -> Negotiation {
    let pfb = spec::VIRTIO_F_PROTOCOL_FEATURES;
    let dev_features = if sel & 1 == 0 { pfb | 0x1_2000_0003 } else { 0x1_2000_0003 };
    let ack_vf = match (sel >> 1) & 3 {
        0 | 1 => Some(pfb | 3),
        2 => Some(3),
        _ => None,
    };
    let ack_pf = match (sel >> 3) & 3 {
        0 | 1 => Some(0x3f_ffff),
        2 => Some(0x3f_ffff & !8),
        _ => None,
    };
    Negotiation { dev_features, dev_pf: 0x3f_ffff, ack_vf, ack_pf }
}

/// the Frontend operations that await an answer, one representative each
pub fn reply_ops() -> Vec<FeOp> {
    vec![
        FeOp::GetFeatures,
        FeOp::GetProtocolFeatures,
        FeOp::GetQueueNum,
        FeOp::GetVringBase(1),
        FeOp::GetConfig { off: 0, size: 8, flags: 0 },
        FeOp::GetConfig { off: 4, size: 1, flags: 1 },
        FeOp::GetInflightFd([0x1000, 0], 2, 16),
        FeOp::GetMaxMemSlots,
        FeOp::GetSharedObject([7; 16]),
        FeOp::GetShmemConfig,
        FeOp::SetDeviceStateFd(0),
        FeOp::CheckDeviceState,
        FeOp::SetLogBase { base: 0x1000, region: Some((0, 0x1000)) },
        FeOp::SetFeatures(3),
        FeOp::SetVringNum(0, 16),
        FeOp::SetVringEnable(0, true),
        FeOp::SetVringKick(0),
        FeOp::SetConfig { off: 0, flags: 0, buf: vec![1, 2, 3, 4] },
        FeOp::ResetDevice,
    ]
}

fn at(d: &[u8], i: usize) -> u8 {
    d.get(i).copied().unwrap_or(0)
}

pub fn one(target: &str, ctx: &mut Ctx, d: &[u8]) -> Result<(), String> {
    match target {
        "c05_stream" => {
            let c = c05::RawCase {
                neg: negotiation(at(d, 0)),
                nfds: at(d, 1) % 41,
                fd_at: u16::from_le_bytes([at(d, 2), at(d, 3)]),
                bytes: d.get(4..).unwrap_or(&[]).to_vec(),
            };
            c05::run_raw_case(ctx, &c)
        }
        "c06_reply" => {
            let ops = reply_ops();
            let op = ops[at(d, 0) as usize % ops.len()].clone();
            let c = c06::FeReplyCase {
                op,
                rv: ReplyVals { v: 0, v2: 0, bytes_seed: 0, with_file: true, split: 0 },
                need_reply: at(d, 1) & 1 == 1,
                muts: vec![c06::RMut::Junk(d.get(3..).unwrap_or(&[]).to_vec()), c06::RMut::Fds(at(d, 2) % 4)],
            };
            c06::run_fe_reply(ctx, &c)
        }
        "c06_bereq" => c06::run_br_raw(ctx, at(d, 0) & 1 == 1, d.get(4..).unwrap_or(&[]), (at(d, 1) % 4) as usize, u16::from_le_bytes([at(d, 2), at(d, 3)])),
        "c20_valid" => {
            let (ty, n) = c20::TYPES[at(d, 0) as usize % c20::TYPES.len()];
            let f: Vec<u64> = (0..n)
                .map(|i| {
                    let mut w = [0u8; 8];
                    for k in 0..8 {
                        w[k] = at(d, 1 + 8 * i + k);
                    }
                    u64::from_le_bytes(w)
                })
                .collect();
            c20::check_one(ctx, &c20::VCase { ty: ty.to_string(), f })
        }
        "c04_hist" => {
            use crate::props::c04::{Hist, Req};
            use proptest::strategy::{Strategy, ValueTree};
            use proptest::test_runner::{Config, RngAlgorithm, TestRng, TestRunner};
            let dev_features = match at(d, 0) % 3 {
                0 => spec::VIRTIO_F_PROTOCOL_FEATURES | 0x1_0000_0003,
                1 => 0x1_0000_0003,
                _ => crate::engine::LATTICE64[at(d, 0) as usize % crate::engine::LATTICE64.len()],
            };
            let dev_pf = (u32::from_le_bytes([at(d, 1), at(d, 2), at(d, 3), 0]) & 0x3f_ffff) as u64;
            let mut reqs = Vec::new();
            let mut i = 4;
            while i + 12 <= d.len() && reqs.len() < 12 {
                let r = &d[i..i + 12];
                i += 12;
                let code = 1 + (r[0] as u32 % 44);
                let mut seed = [0u8; 32];
                seed[..8].copy_from_slice(&r[2..10]);
                seed[8] = r[0];
                let mut runner = TestRunner::new_with_rng(Config::default(), TestRng::from_seed(RngAlgorithm::ChaCha, &seed));
                let (body, nfds) = match crate::gen::wellformed_body(code).new_tree(&mut runner) {
                    Ok(t) => t.current(),
                    Err(_) => continue,
                };
                let lat = crate::engine::LATTICE64;
                let outcome = crate::rec_backend::Outcome {
                    fail: if r[1] & 2 != 0 && code != 16 { Some(r[1] >> 4) } else { None },
                    val: if code == 1 || code == 15 || r[10] & 1 == 0 { None } else { Some(lat[r[10] as usize % lat.len()]) },
                    val2: lat[r[11] as usize % lat.len()],
                    bytes: None,
                    file: r[1] & 4 != 0,
                };
                reqs.push(Req { code, need_reply: r[1] & 1 != 0, body, nfds, outcome });
            }
            crate::props::c04::run_hist(ctx, &Hist { dev_features, dev_pf, reqs })
        }
        other => Err(format!("unknown fuzz target {other}")),
    }
}

/// small valid inputs per target (the starting corpus next to the empty one)
pub fn seeds(target: &str) -> Vec<Vec<u8>> {
    let mut out = Vec::new();
    match target {
        "c05_stream" => {
            use proptest::strategy::{Strategy, ValueTree};
            let mut runner = proptest::test_runner::TestRunner::deterministic();
            for (i, r) in spec::FE_REQS.iter().enumerate() {
                let (body, nfds) = match crate::gen::wellformed_body(r.code).new_tree(&mut runner) {
                    Ok(t) => t.current(),
                    Err(_) => continue,
                };
                if body.len() > 600 {
                    continue;
                }
                let mut v = vec![(i % 32) as u8, nfds as u8, 0, 0];
                v.extend_from_slice(&spec::request(r.code, i % 2 == 1, &body));
                out.push(v);
            }
        }
        "c06_reply" => {
            let ops = reply_ops();
            for (i, op) in ops.iter().enumerate() {
                for nr in [0u8, 1] {
                    let st = crate::props::c01::state_for(op, nr == 1, true);
                    let rv = ReplyVals { v: 5, v2: 0, bytes_seed: 1, with_file: true, split: 0 };
                    let (bytes, nfds) = match crate::feops::reply_for(op, &st, &rv) {
                        Some((b, n, _)) => (b, n),
                        None => (spec::reply(op.code(), &spec::b_u64(0)), 0),
                    };
                    let mut v = vec![i as u8, nr, nfds as u8];
                    v.extend_from_slice(&bytes);
                    out.push(v);
                }
            }
        }
        "c06_bereq" => {
            for code in 1u32..=10 {
                let body: Vec<u8> = match code {
                    6 | 7 | 8 => vec![7; 16],
                    9 | 10 => spec::b_mmap(1, 0, 0x1000, 0x1000, 1),
                    _ => vec![],
                };
                let nfds = if code == 8 || code == 9 { 1 } else { 0 };
                for ra in [0u8, 1] {
                    let mut v = vec![ra, nfds, 0, 0];
                    v.extend_from_slice(&spec::msg(code, 1 | if ra == 1 { 8 } else { 0 }, &body));
                    out.push(v);
                }
            }
        }
        "c04_hist" => {
            // negotiation prefixes followed by one request of every code, with and without NEED_REPLY
            for code in 1u8..=44 {
                for flags in [0u8, 1, 3] {
                    let mut v = vec![0u8, 0xff, 0xff, 0x3f];
                    for (c, f) in [(0u8, 0u8), (14, 0), (15, 0), (code - 1, flags)] {
                        // record: code-1, flags, 8 seed bytes, val selector, spare  (SET_PROTOCOL_FEATURES bodies come from the seed)
                        v.extend_from_slice(&[c, f, code, 1, 2, 3, 4, 5, 6, 7, 0, 0]);
                    }
                    out.push(v);
                }
            }
        }
        "c20_valid" => {
            for (i, (_, n)) in c20::TYPES.iter().enumerate() {
                let mut v = vec![i as u8];
                for k in 0..*n {
                    v.extend_from_slice(&(0x1000u64 << k).to_le_bytes());
                }
                out.push(v);
            }
        }
        _ => {}
    }
    out
}

/// quick-tier sub-check: replay the committed (coverage-minimised) corpus of a target through the oracle
pub fn corpus_check(ctx: &mut Ctx, target: &'static str) {
    let dir = std::path::Path::new(&crate::engine::verif_dir()).join("fuzz").join("corpus").join(target);
    let mut files: Vec<_> = std::fs::read_dir(&dir).map(|d| d.filter_map(|e| e.ok()).map(|e| e.path()).collect()).unwrap_or_default();
    files.sort();
    let mut inputs: Vec<FuzzInput> = seeds(target).into_iter().map(|b| FuzzInput { target: target.into(), hex: hex(&b) }).collect();
    for f in files {
        if let Ok(b) = std::fs::read(&f) {
            inputs.push(FuzzInput { target: target.into(), hex: hex(&b) });
        }
    }
    ctx.class_n(&format!("fuzz_corpus_inputs_{target}"), inputs.len() as u64);
    let name = format!("fuzz_corpus_{target}");
    ctx.enumerate(&name, inputs, |ctx, c| one(&c.target, ctx, &unhex(&c.hex)));
}

// ---------------------------------------------------------------- libFuzzer side

use std::cell::RefCell;
thread_local! {
    static FCTX: RefCell<Option<Ctx>> = RefCell::new(None);
}

/// called by the libFuzzer targets: run the oracle, abort (after saving a replay file) on a violation
pub fn entry(target: &'static str, data: &[u8]) {
    let prop = TARGETS.iter().find(|t| t.0 == target).map(|t| t.1).unwrap_or("C00");
    FCTX.with(|c| {
        let mut g = c.borrow_mut();
        if g.is_none() {
            std::panic::set_hook(Box::new(|info| crate::engine_panic::record(info)));
            let mut ctx = Ctx::new(prop, crate::engine::Tier::Thorough, 0, "exploration");
            *g = Some(ctx);
        }
        let ctx = g.as_mut().unwrap();
        ctx.reset_counters_if_large();
        let r = one(target, ctx, data);
        let _ = crate::engine_panic::take();
        if let Err(what) = r {
            let name = format!("fuzz_corpus_{target}");
            ctx.violation(&name, what.clone(), &FuzzInput { target: target.into(), hex: hex(data) });
            eprintln!("fuzz target {target}: property violated: {what}");
            std::process::abort();
        }
    });
}
