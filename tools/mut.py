#!/usr/bin/env python3
"""tools/mut.py <file-relative-to-/repo> <old> <new> -- <check args...>
Applies a one-off textual mutation to /repo's working tree, runs ./check with the given args,
and ALWAYS restores the file.  Used only for sensitivity testing of the checks (never committed)."""
import sys, subprocess, os
i = sys.argv.index('--')
path, old, new = sys.argv[1:4]
args = sys.argv[i+1:]
full = os.path.join('/repo', path)
orig = open(full).read()
import shutil, glob
prop = args[0]
ev = f'/verif/evidence/{prop}.json'
ev_bak = open(ev).read() if os.path.exists(ev) else None
if orig.count(old) != 1:
    print(f"mutation site not unique/found: count={orig.count(old)}"); sys.exit(3)
try:
    open(full, 'w').write(orig.replace(old, new))
    r = subprocess.run(['/verif/check'] + args, capture_output=True, text=True, env=dict(os.environ, VERIF_TIMEOUT=os.environ.get('VERIF_TIMEOUT','240')))
    out = r.stdout + r.stderr
    lines = [l for l in out.splitlines() if l.startswith(('VIOLATION', 'KNOWN', 'INCONCLUSIVE', '  check=')) or 'evaluations=' in l or 'error' in l.lower()]
    print('\n'.join(lines[:12]))
    print('rc', r.returncode, '=> mutant', 'KILLED' if r.returncode == 1 else ('NOT DETECTED' if r.returncode == 0 else 'INCONCLUSIVE'))
finally:
    open(full, 'w').write(orig)
    if ev_bak is not None:
        open(ev, 'w').write(ev_bak)
    st = subprocess.run(['git', '-C', '/repo', 'status', '--short'], capture_output=True, text=True).stdout
    if st.strip():
        print("WARNING: /repo not clean after restore:", st)
