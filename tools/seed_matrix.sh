#!/bin/bash
# tools/seed_matrix.sh <slot> <out.tsv> <seeded-id>...     (development aid)
# For each stored breaking change: apply it in the scratch copy /tmp/mv<slot> (never in /repo), run EVERY quick check
# against it and append "<seeded-id> <Cxx> <KILLED|passed|inconclusive>" lines.  Used for the "which checks catch which
# changes" table in DESIGN.md.
SLOT=$1; OUT=$2; shift 2
HERE="$(cd "$(dirname "$0")/.." && pwd)"
MV=/tmp/mv$SLOT
mkdir -p $MV
if [ ! -d $MV/repo ]; then git -C /repo worktree add --detach $MV/repo HEAD -q || exit 3; fi
for sid in "$@"; do
  git -C $MV/repo checkout -q --detach "$(git -C /repo rev-parse HEAD)" 2>/dev/null
  git -C $MV/repo checkout -q -- . ; git -C $MV/repo clean -fdq -e target
  rsync -a --delete --exclude target --exclude .git --exclude replays --exclude evidence "$HERE/" $MV/verif/
  mkdir -p $MV/verif/evidence $MV/verif/replays
  sed -i "s#\"/repo/#\"$MV/repo/#g" $MV/verif/harness/Cargo.toml
  git -C $MV/repo apply "$HERE/seeded/$sid/patch.diff" || { echo "$sid - DOES-NOT-APPLY" >> $OUT; continue; }
  for p in $(seq -w 1 20); do
    ( cd $MV/verif && VERIF_TIMEOUT=${VERIF_TIMEOUT:-300} ./check C$p quick > $MV/last.out 2>&1 ); rc=$?
    case $rc in 0) r=passed;; 1) r=KILLED;; *) r=inconclusive;; esac
    echo "$sid C$p $r" >> $OUT
  done
  git -C $MV/repo checkout -q -- . ; git -C $MV/repo clean -fdq -e target
done
echo "slot $SLOT done" >> $OUT
