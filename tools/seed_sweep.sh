#!/bin/bash
# tools/seed_sweep.sh <first> <last> [props...] : run the quick tier of every check for a range of seeds; print anything that is not exit 0
cd "$(dirname "$0")/.." || exit 2
first=$1; last=$2; shift 2
props=${@:-C01 C02 C03 C04 C05 C06 C07 C08 C09 C10 C11 C12 C13 C14 C15 C16 C17 C18 C19 C20}
./check --setup || exit 2
for s in $(seq $first $last); do
  for p in $props; do
    out=$(VERIF_SEED=$s VERIF_TIMEOUT=600 ./check $p quick 2>&1); rc=$?
    if [ $rc -ne 0 ]; then echo "SEED=$s $p rc=$rc"; echo "$out" | grep -v "^KNOWN" | cut -c1-600 | tail -5; fi
  done
  echo "seed $s done"
done
