#!/usr/bin/env python3
"""tools/seed_store.py — copy the breaking changes written by the independent sub-agents (scratch dirs /tmp/seed/<Cxx>/out)
into /verif/seeded/<Cxx>-<a|b>/ once my own confirmation (tools/seed_confirm.sh) has succeeded for them.
meta.json records the property, what was changed, what the change needs to manifest and what I ran to confirm it.
The results of my checks against each change are added by tools/seeded_eval.sh."""
import json, os, shutil, sys

HERE = os.path.dirname(os.path.dirname(os.path.abspath(__file__)))
SEED = "/tmp/seed"

# (what was changed, what it needs to manifest) — condensed from the sub-agents' notes (kept verbatim as notes.md)
DESC = {
 "C01-a": ("backend_req_handler.rs new_reply_header(): reply header built from a copy of the request header, so request flag bits leak into replies",
           "a request with NEED_REPLY set: the reply then carries flags 0xd instead of 0x5; the crate's own Frontend does not notice"),
 "C01-b": ("message.rs VhostUserMsgHeader::is_valid(): size bound counts the 12 header bytes (size > 4096-12 refused)",
           "GET_CONFIG/SET_CONFIG (request or reply) with 4073..=4084 payload bytes, i.e. size field 4085..=4096"),
 "C02-a": ("same validator change as C01-b, seen from the API: a call the front end accepts is refused by the back end",
           "CONFIG negotiated and a set_config/get_config payload within 12 bytes of the API maximum"),
 "C02-b": ("frontend.rs set_mem_table(): regions sorted by guest address before sending, descriptors keep the caller's order",
           ">=2 regions listed in non-ascending guest-address order with distinct backing files"),
 "C03-a": ("frontend.rs set_device_state_fd(): reply decoded as status byte + no-fd flag, the no-fd branch drops the status check",
           "DEVICE_STATE negotiated and the handler's set_device_state_fd failing (wire value 0x101): the call returns Ok(None)"),
 "C03-b": ("backend_req_handler.rs update_reply_ack_flag(): uses the acknowledged instead of the offered VHOST_USER_F_PROTOCOL_FEATURES",
           "protocol features (REPLY_ACK) negotiated before SET_FEATURES acknowledges bit 30 (or never): acknowledged set-operations block forever"),
 "C04-a": ("backend_req_handler.rs update_reply_ack_flag(): additionally requires bit 30 in the acknowledged virtio features",
           "history GET_FEATURES, SET_PROTOCOL_FEATURES(REPLY_ACK), request|NEED_REPLY before any SET_FEATURES with bit 30"),
 "C04-b": ("backend_req_handler.rs SET_FEATURES arm: handler error returned with `?` before the acknowledgement is written",
           "REPLY_ACK negotiated before that SET_FEATURES, NEED_REPLY set on it, and the handler refusing the features"),
 "C05-a": ("message.rs VhostUserMemoryRegion::is_valid_common(): user range checked on its last byte (user_addr + size - 1)",
           "a region with user_addr + size == 2^64 exactly (then SET_VRING_ADDR >= user_addr overflows in the daemon's translation)"),
 "C05-b": ("backend_req_handler.rs set_config(): payload length check weakened to payload.len() >= declared size, whole payload passed on",
           "CONFIG negotiated, SET_CONFIG whose body declares fewer bytes than follow (window near 0x1000 leaves the config space)"),
 "C06-a": ("frontend.rs recv_reply_with_payload(): declared-size equality dropped, payload length taken from the reply header",
           "GET_CONFIG reply with right code/flags/body but header size < 12 + requested size: Ok with short payload, or subtract overflow below 12"),
 "C06-b": ("frontend_req_handler.rs check_attached_files(): table-style refactor lets 'no descriptor at all' pass when one is expected",
           "well-formed SHARED_OBJECT_LOOKUP / SHMEM_MAP request carrying exactly zero descriptors: unwrap() panic"),
 "C07-a": ("frontend.rs set_vring_enable(): gate uses check_feature (offered) instead of the acknowledged bit 30",
           "back end offers bit 30, front end never acknowledges it (no set_features or without bit 30), then set_vring_enable"),
 "C07-b": ("backend_req_handler.rs: helper take_shmfd(feat) called with LOG_SHMFD for SET_INFLIGHT_FD as well",
           "SET_PROTOCOL_FEATURES with LOG_SHMFD but without INFLIGHT_SHMFD, then SET_INFLIGHT_FD from a raw peer"),
 "C08-a": ("connection.rs send_iovec_all(): descriptors taken by the first attempt instead of the first successful chunk",
           "descriptor-carrying message on a non-blocking socket whose first sendmsg returns EAGAIN/EINTR: bytes arrive, descriptors do not"),
 "C08-b": ("connection.rs recv_into_iovec_all(): `rfds = fds` unconditional, a later chunk's None overwrites the received descriptors",
           "descriptor-carrying message whose header (or reply header+body) arrives in >=2 segments"),
 "C09-a": ("connection.rs recv_into_iovec_all(): raw descriptors wrapped into Files only for the first piece",
           "descriptors attached to a non-first piece of a message that the receiver reads in two recvmsg calls: never closed"),
 "C09-b": ("backend_req_handler.rs set_gpu_socket(): SO_TYPE check on the raw fd after into_raw_fd(), refusal path leaks it",
           "GPU_SET_SOCKET carrying exactly one descriptor that is not a stream socket"),
 "C10-a": ("frontend.rs: helper send_simple_request() drops the lock between sending the header and waiting for the acknowledgement",
           "REPLY_ACK + NEED_REPLY, a header-only acknowledged operation (set_owner, reset_owner, reset_device...) on one clone while another clone wins the mutex in the gap"),
 "C10-b": ("gpu_backend_req.rs: reply-error wrapper calls set_failed(), which locks the mutex the caller still holds",
           "a fault while a GPU reply is awaited (peer disconnects or sends a non-reply): the caller deadlocks on itself, every other clone hangs"),
 "C11-a": ("handler.rs set_features(): merged loops keep set_enabled(true) but drop update_vring_registration()",
           "no protocol features, SET_FEATURES arriving while a ring is already started but disabled (kick fd before features, or after RESET_DEVICE)"),
 "C11-b": ("vring.rs read_kick(): early return for a disabled ring removed, the eventfd is always drained (patch rebased by me onto the later fix 2c094f0, same hunk)",
           "worker woken for a kick, ring disabled before the worker reads the kick: the kick is consumed and lost"),
 "C12-a": ("vring.rs read_kick(): always drains the kick eventfd, then returns `enabled` (patch rebased by me onto the later fix 2c094f0, same hunk)",
           "schedule: kick, worker returns from epoll, SET_VRING_ENABLE 0 acknowledged, worker reads the kick; after re-enable nothing is pending"),
 "C12-b": ("event_loop.rs handle_event(): on a 'disabled' read_kick result the worker unregisters the kick fd itself",
           "schedule: kick, worker woken, disable, worker reads 'disabled', enable fully processed, worker continues and deletes the fresh registration"),
 "C13-a": ("handler.rs set_mem_table(): translation table rebuilt in place (cleared before the fallible steps)",
           "a successful SET_MEM_TABLE followed by one the handler rejects (overlap / unmappable region), then a translation"),
 "C13-b": ("handler.rs vmm_va_to_gpa(): inclusive upper bound (offset <= size)",
           "probe address exactly user_base+size of a region (rejected address translates, or the wrong one of two user-adjacent regions wins)"),
 "C14-a": ("handler.rs set_features(): EVENT_IDX pushed to the queues only when the bit is set",
           "two accepted SET_FEATURES without RESET_DEVICE between them, first with bit 29, second without"),
 "C14-b": ("handler.rs set_vring_addr(): used index read from guest memory only while the ring is not started",
           "SET_VRING_KICK before SET_VRING_ADDR (or repeated SET_VRING_ADDR on a running ring) with a non-zero used index in guest memory"),
 "C15-a": ("bitmap.rs mark_dirty(): inclusive page range up to page_number(offset+len)",
           "a write ending exactly on a 4 KiB boundary with the next page inside the same region: next page's bit set too"),
 "C15-b": ("bitmap.rs mark_dirty(): fetch_or replaced by load / test / store",
           ">=2 concurrent writers on pages sharing a log byte, one bit not yet set, interleaved load/store"),
 "C16-a": ("lib.rs VhostUserDaemon::wait(): after a shutdown request only Disconnected / PartialMessage are forgiven, other request errors are returned",
           "peer has sent a complete header announcing a body, shutdown is requested while the daemon thread waits for that body: wait() returns Err(InvalidMessage)"),
 "C16-b": ("lib.rs VhostUserDaemon::serve(): request error returned before send_exit_event()",
           "serve() and a connection ending with an error other than a clean / partial-header disconnect (peer closes between header and body, malformed request): workers never get the exit event"),
 "C17-a": ("handler.rs update_vring_registration(): event id index - mask.trailing_zeros() instead of the rank in the owner's mask",
           "a queues_per_thread mask with a gap below the kicked queue (e.g. [0b0101, 0b1010], kick queue 2)"),
 "C17-b": ("event_loop.rs register_listener(): range check applied to the id truncated to 16 bits",
           "custom listener id > 65535 whose low 16 bits exceed num_queues: accepted, delivered as the truncated id"),
 "C18-a": ("frontend_req_handler.rs send_ack_message(): -raw_os_error().unwrap_or_default(): an error without errno is acknowledged as 0",
           "REPLY_ACK on both sides and a handler error whose raw_os_error() is None"),
 "C18-b": ("backend_req.rs wait_for_ack(): status truncated to i32 before the non-zero test",
           "REPLY_ACK and a non-zero handler result whose low 32 bits are zero (0x1_0000_0000, 1<<63)"),
 "C19-a": ("vhost_kern/mod.rs set_backend_features(): acknowledged backend features recorded before (and regardless of) the ioctl result",
           "VHOST_SET_BACKEND_FEATURES including the IOTLB-v2 bit refused by the kernel, then an IOTLB message on the same handle goes out in v2 layout"),
 "C19-b": ("vhost_kern/vdpa.rs is_valid(): power-of-two test replaces the size check, dropping queue_size > queue_max_size",
           "vDPA backend and a power-of-two queue size above the maximum: VHOST_SET_VRING_ADDR is issued"),
 "C20-a": ("message.rs VhostUserMsgHeader::is_valid(): reserved-bit test via from_bits(), which knows RESERVED_BITS as a flag",
           "a raw header with valid code/size/version and any of flag bits 4..31 set"),
 "C20-b": ("message.rs VhostUserLog::is_valid(): wrap check on the last byte (offset + size - 1)",
           "mmap_offset + mmap_size == 2^64 exactly"),
}


def main():
    only = sys.argv[1:]
    for pid in sorted(os.listdir(SEED)):
        for v in "abcd":
            out = os.path.join(SEED, pid, "out" if v in "ab" else "out2")
            if not os.path.isdir(out):
                continue
            key = f"{pid}-{v}"
            if only and key not in only and pid not in only:
                continue
            conf = os.path.join(out, f"confirm_{v}.txt")
            if not (os.path.exists(os.path.join(out, f"{v}.diff")) and os.path.exists(conf)):
                continue
            kv = dict(l.strip().split("=", 1) for l in open(conf).read().replace(" ", "\n").splitlines() if "=" in l)
            ok = kv.get("demo_without_change_rc") == "0" and kv.get("demo_with_change_rc") not in (None, "0") and kv.get("suite_with_change_rc") == "0" and kv.get("suite_failed") == "0"
            if not ok:
                print(f"{key}: NOT confirmed ({kv}) — not stored")
                continue
            d = os.path.join(HERE, "seeded", key)
            os.makedirs(d, exist_ok=True)
            shutil.copy(os.path.join(out, f"{v}.diff"), os.path.join(d, "patch.diff"))
            shutil.copy(os.path.join(out, f"{v}_demo.diff"), os.path.join(d, "demo.diff"))
            shutil.copy(os.path.join(out, f"{v}_run.sh"), os.path.join(d, "run_demo.sh"))
            if os.path.exists(os.path.join(out, "notes.md")):
                shutil.copy(os.path.join(out, "notes.md"), os.path.join(d, "notes.md"))
            mp = os.path.join(d, "meta.json")
            meta = json.load(open(mp)) if os.path.exists(mp) else {}
            what, needs = DESC.get(key, ("see notes.md", "see notes.md"))
            meta.update({
                "id": key,
                "property_broken": pid,
                "origin": "written by an independent sub-agent that was given only the text of the property and a scratch worktree of /repo (nothing from /verif)",
                "change": what,
                "needs_to_manifest": needs,
                "confirmed_by_me": {
                    "where": f"scratch worktree of /repo HEAD ({SEED}/{pid}/wt), removed afterwards",
                    "commands": ["git apply demo.diff; sh run_demo.sh   -> passes (change absent)",
                                 "git apply patch.diff demo.diff; sh run_demo.sh   -> fails (change present)",
                                 "git apply patch.diff; cargo test --workspace --no-fail-fast --offline   -> existing suite passes"],
                    "demo_without_change_exit": int(kv["demo_without_change_rc"]),
                    "demo_with_change_exit": int(kv["demo_with_change_rc"]),
                    "existing_suite_with_change": f"{kv.get('suite_passed')} passed, {kv.get('suite_failed')} failed",
                },
            })
            meta.setdefault("my_checks", {})
            json.dump(meta, open(mp, "w"), indent=1)
            print(f"{key}: stored")


if __name__ == "__main__":
    main()
