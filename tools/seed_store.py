#!/usr/bin/env python3
"""tools/seed_store.py — copy the breaking changes written by the independent sub-agents (scratch dirs /tmp/seed/<Cxx>/out)
into /verif/seeded/<Cxx>-<a|b>/ once my own confirmation (tools/seed_confirm.sh) has succeeded for them.
meta.json records the property, what was changed, what the change needs to manifest and what I ran to confirm it.
The results of my checks against each change are added by tools/seeded_eval.sh."""
import json, os, shutil, sys

HERE = os.path.dirname(os.path.dirname(os.path.abspath(__file__)))
SEED = "/tmp/seed"

# (what was changed, what it needs to manifest) — condensed from the sub-agents' notes (kept verbatim as notes.md)
DESC = {
 "C01-a": ("backend_req_handler.rs new_reply_header(): reply header built from a copy of the request header, so request flag bits leak into replies",
           "a request with NEED_REPLY set: the reply then carries flags 0xd instead of 0x5; the crate's own Frontend does not notice"),
 "C01-b": ("message.rs VhostUserMsgHeader::is_valid(): size bound counts the 12 header bytes (size > 4096-12 refused)",
           "GET_CONFIG/SET_CONFIG (request or reply) with 4073..=4084 payload bytes, i.e. size field 4085..=4096"),
 "C02-a": ("same validator change as C01-b, seen from the API: a call the front end accepts is refused by the back end",
           "CONFIG negotiated and a set_config/get_config payload within 12 bytes of the API maximum"),
 "C02-b": ("frontend.rs set_mem_table(): regions sorted by guest address before sending, descriptors keep the caller's order",
           ">=2 regions listed in non-ascending guest-address order with distinct backing files"),
 "C03-a": ("frontend.rs set_device_state_fd(): reply decoded as status byte + no-fd flag, the no-fd branch drops the status check",
           "DEVICE_STATE negotiated and the handler's set_device_state_fd failing (wire value 0x101): the call returns Ok(None)"),
 "C03-b": ("backend_req_handler.rs update_reply_ack_flag(): uses the acknowledged instead of the offered VHOST_USER_F_PROTOCOL_FEATURES",
           "protocol features (REPLY_ACK) negotiated before SET_FEATURES acknowledges bit 30 (or never): acknowledged set-operations block forever"),
 "C04-a": ("backend_req_handler.rs update_reply_ack_flag(): additionally requires bit 30 in the acknowledged virtio features",
           "history GET_FEATURES, SET_PROTOCOL_FEATURES(REPLY_ACK), request|NEED_REPLY before any SET_FEATURES with bit 30"),
 "C04-b": ("backend_req_handler.rs SET_FEATURES arm: handler error returned with `?` before the acknowledgement is written",
           "REPLY_ACK negotiated before that SET_FEATURES, NEED_REPLY set on it, and the handler refusing the features"),
 "C05-a": ("message.rs VhostUserMemoryRegion::is_valid_common(): user range checked on its last byte (user_addr + size - 1)",
           "a region with user_addr + size == 2^64 exactly (then SET_VRING_ADDR >= user_addr overflows in the daemon's translation)"),
 "C05-b": ("backend_req_handler.rs set_config(): payload length check weakened to payload.len() >= declared size, whole payload passed on",
           "CONFIG negotiated, SET_CONFIG whose body declares fewer bytes than follow (window near 0x1000 leaves the config space)"),
 "C06-a": ("frontend.rs recv_reply_with_payload(): declared-size equality dropped, payload length taken from the reply header",
           "GET_CONFIG reply with right code/flags/body but header size < 12 + requested size: Ok with short payload, or subtract overflow below 12"),
 "C06-b": ("frontend_req_handler.rs check_attached_files(): table-style refactor lets 'no descriptor at all' pass when one is expected",
           "well-formed SHARED_OBJECT_LOOKUP / SHMEM_MAP request carrying exactly zero descriptors: unwrap() panic"),
 "C07-a": ("frontend.rs set_vring_enable(): gate uses check_feature (offered) instead of the acknowledged bit 30",
           "back end offers bit 30, front end never acknowledges it (no set_features or without bit 30), then set_vring_enable"),
 "C07-b": ("backend_req_handler.rs: helper take_shmfd(feat) called with LOG_SHMFD for SET_INFLIGHT_FD as well",
           "SET_PROTOCOL_FEATURES with LOG_SHMFD but without INFLIGHT_SHMFD, then SET_INFLIGHT_FD from a raw peer"),
 "C08-a": ("connection.rs send_iovec_all(): descriptors taken by the first attempt instead of the first successful chunk",
           "descriptor-carrying message on a non-blocking socket whose first sendmsg returns EAGAIN/EINTR: bytes arrive, descriptors do not"),
 "C08-b": ("connection.rs recv_into_iovec_all(): `rfds = fds` unconditional, a later chunk's None overwrites the received descriptors",
           "descriptor-carrying message whose header (or reply header+body) arrives in >=2 segments"),
 "C09-a": ("connection.rs recv_into_iovec_all(): raw descriptors wrapped into Files only for the first piece",
           "descriptors attached to a non-first piece of a message that the receiver reads in two recvmsg calls: never closed"),
 "C09-b": ("backend_req_handler.rs set_gpu_socket(): SO_TYPE check on the raw fd after into_raw_fd(), refusal path leaks it",
           "GPU_SET_SOCKET carrying exactly one descriptor that is not a stream socket"),
 "C10-a": ("frontend.rs: helper send_simple_request() drops the lock between sending the header and waiting for the acknowledgement",
           "REPLY_ACK + NEED_REPLY, a header-only acknowledged operation (set_owner, reset_owner, reset_device...) on one clone while another clone wins the mutex in the gap"),
 "C10-b": ("gpu_backend_req.rs: reply-error wrapper calls set_failed(), which locks the mutex the caller still holds",
           "a fault while a GPU reply is awaited (peer disconnects or sends a non-reply): the caller deadlocks on itself, every other clone hangs"),
 "C11-a": ("handler.rs set_features(): merged loops keep set_enabled(true) but drop update_vring_registration()",
           "no protocol features, SET_FEATURES arriving while a ring is already started but disabled (kick fd before features, or after RESET_DEVICE)"),
 "C11-b": ("vring.rs read_kick(): early return for a disabled ring removed, the eventfd is always drained (patch rebased by me onto the later fix 2c094f0, same hunk)",
           "worker woken for a kick, ring disabled before the worker reads the kick: the kick is consumed and lost"),
 "C12-a": ("vring.rs read_kick(): always drains the kick eventfd, then returns `enabled` (patch rebased by me onto the later fix 2c094f0, same hunk)",
           "schedule: kick, worker returns from epoll, SET_VRING_ENABLE 0 acknowledged, worker reads the kick; after re-enable nothing is pending"),
 "C12-b": ("event_loop.rs handle_event(): on a 'disabled' read_kick result the worker unregisters the kick fd itself",
           "schedule: kick, worker woken, disable, worker reads 'disabled', enable fully processed, worker continues and deletes the fresh registration"),
 "C13-a": ("handler.rs set_mem_table(): translation table rebuilt in place (cleared before the fallible steps)",
           "a successful SET_MEM_TABLE followed by one the handler rejects (overlap / unmappable region), then a translation"),
 "C13-b": ("handler.rs vmm_va_to_gpa(): inclusive upper bound (offset <= size)",
           "probe address exactly user_base+size of a region (rejected address translates, or the wrong one of two user-adjacent regions wins)"),
 "C14-a": ("handler.rs set_features(): EVENT_IDX pushed to the queues only when the bit is set",
           "two accepted SET_FEATURES without RESET_DEVICE between them, first with bit 29, second without"),
 "C14-b": ("handler.rs set_vring_addr(): used index read from guest memory only while the ring is not started",
           "SET_VRING_KICK before SET_VRING_ADDR (or repeated SET_VRING_ADDR on a running ring) with a non-zero used index in guest memory"),
 "C15-a": ("bitmap.rs mark_dirty(): inclusive page range up to page_number(offset+len)",
           "a write ending exactly on a 4 KiB boundary with the next page inside the same region: next page's bit set too"),
 "C15-b": ("bitmap.rs mark_dirty(): fetch_or replaced by load / test / store",
           ">=2 concurrent writers on pages sharing a log byte, one bit not yet set, interleaved load/store"),
 "C16-a": ("lib.rs VhostUserDaemon::wait(): after a shutdown request only Disconnected / PartialMessage are forgiven, other request errors are returned",
           "peer has sent a complete header announcing a body, shutdown is requested while the daemon thread waits for that body: wait() returns Err(InvalidMessage)"),
 "C16-b": ("lib.rs VhostUserDaemon::serve(): request error returned before send_exit_event()",
           "serve() and a connection ending with an error other than a clean / partial-header disconnect (peer closes between header and body, malformed request): workers never get the exit event"),
 "C17-a": ("handler.rs update_vring_registration(): event id index - mask.trailing_zeros() instead of the rank in the owner's mask",
           "a queues_per_thread mask with a gap below the kicked queue (e.g. [0b0101, 0b1010], kick queue 2)"),
 "C17-b": ("event_loop.rs register_listener(): range check applied to the id truncated to 16 bits",
           "custom listener id > 65535 whose low 16 bits exceed num_queues: accepted, delivered as the truncated id"),
 "C18-a": ("frontend_req_handler.rs send_ack_message(): -raw_os_error().unwrap_or_default(): an error without errno is acknowledged as 0",
           "REPLY_ACK on both sides and a handler error whose raw_os_error() is None"),
 "C18-b": ("backend_req.rs wait_for_ack(): status truncated to i32 before the non-zero test",
           "REPLY_ACK and a non-zero handler result whose low 32 bits are zero (0x1_0000_0000, 1<<63)"),
 "C19-a": ("vhost_kern/mod.rs set_backend_features(): acknowledged backend features recorded before (and regardless of) the ioctl result",
           "VHOST_SET_BACKEND_FEATURES including the IOTLB-v2 bit refused by the kernel, then an IOTLB message on the same handle goes out in v2 layout"),
 "C19-b": ("vhost_kern/vdpa.rs is_valid(): power-of-two test replaces the size check, dropping queue_size > queue_max_size",
           "vDPA backend and a power-of-two queue size above the maximum: VHOST_SET_VRING_ADDR is issued"),
 "C20-a": ("message.rs VhostUserMsgHeader::is_valid(): reserved-bit test via from_bits(), which knows RESERVED_BITS as a flag",
           "a raw header with valid code/size/version and any of flag bits 4..31 set"),
 "C20-b": ("message.rs VhostUserLog::is_valid(): wrap check on the last byte (offset + size - 1)",
           "mmap_offset + mmap_size == 2^64 exactly"),
 # ---- second round (c, d): the sub-agents were told what the first-round changes were and asked for different ones
 "C01-c": ("connection.rs recv_into_iovec_all(): `rfds = fds` unconditional (descriptors of the first piece overwritten by a later piece)",
           "a descriptor-carrying reply written by the peer as header+descriptor and payload in two writes (as libvhost-user does)"),
 "C01-d": ("frontend.rs set_log_base(): 16-byte/descriptor form chosen when LOG_SHMFD was *offered* instead of acknowledged",
           "back end offers LOG_SHMFD, front end acknowledges a subset without it, then set_log_base(base, Some(region))"),
 "C02-c": ("frontend.rs set_vring_enable(): gate via check_feature() (offered bit 30) instead of the acknowledged one",
           "bit 30 offered but not acknowledged, then set_vring_enable: 20 bytes go on the wire, Ok(()) returned, back end refuses"),
 "C02-d": ("message.rs VhostUserVringAddr::from_config_data(): log address taken only when the LOG flag is set",
           "set_vring_addr with log_addr Some(non-zero) and the LOG flag clear: the handler sees log 0"),
 "C03-c": ("backend_req_handler.rs get_config(): a shorter-than-requested handler result is sent as a short payload instead of the zero-size failure reply",
           "handler returns fewer config bytes than asked for; the front end rejects the reply but cannot drain it: every later call is out of step"),
 "C03-d": ("backend_req_handler.rs SET_LOG_BASE arm: the reply is sent even when the handler failed",
           "LOG_SHMFD negotiated, set_log_base with a region, handler failing: the call returns Ok(())"),
 "C04-c": ("backend_req_handler.rs send_ack_message(): acknowledgement value taken from the handler error's raw_os_error()",
           "REPLY_ACK, NEED_REPLY, handler failing with ReqHandlerError around an io::Error without errno: acknowledged with 0"),
 "C04-d": ("backend_req_handler.rs new_reply_header(): size limit `<` instead of `<=`",
           "GET_CONFIG for exactly 4084 bytes (reply of exactly 4096 payload bytes): nothing is written"),
 "C05-c": ("mod.rs take_single_file(): returns the first of several files",
           "an otherwise valid single-descriptor request (SET_VRING_KICK, SET_LOG_BASE...) carrying 2..=32 descriptors reaches the handler"),
 "C05-d": ("handler.rs (daemon): vring lookup folded into a helper with `index > num_queues`",
           "a well-typed per-ring request whose index equals num_queues exactly: slice index panic in the request thread"),
 "C06-c": ("frontend.rs set_device_state_fd(): reply decoded as bit fields, exact (value, descriptors) pairing lost",
           "reply 0x100 ('no descriptor') carrying descriptors -> Ok(None); undefined payload bits plus a descriptor -> Ok(Some(file))"),
 "C06-d": ("message.rs VhostUserMsgHeader::is_valid(): reserved-bit check via from_bits() (dead because RESERVED_BITS is a named flag)",
           "a reply / back-end request correct in every other field with a reserved header flag bit (4..31) set"),
 "C07-c": ("frontend.rs set_protocol_features(): acknowledged set recorded before the PROTOCOL_FEATURES gate is checked",
           "a refused set_protocol_features(S) (before get_features, or bit 30 not offered) followed by an operation gated on a bit of S"),
 "C07-d": ("backend_req_handler.rs GET_PROTOCOL_FEATURES: REPLY_ACK offered only once a GET_FEATURES reply with bit 30 was seen",
           "GET_PROTOCOL_FEATURES before the first GET_FEATURES, or a device without bit 30"),
 "C08-c": ("connection.rs recv_into_iovec_all(): iovec advanced in place with an absolute offset",
           "a message arriving in >=3 segments with two split points inside the same receive buffer (overflow panic / EINVAL)"),
 "C08-d": ("frontend.rs recv_reply_with_payload(): short-read check after recv_data dropped",
           "GET_CONFIG reply whose payload is cut by end-of-stream: Ok with zero-padded bytes"),
 "C09-c": ("connection.rs recv_into_iovec(): receive array enlarged to 253, only the first 32 wrapped into Files",
           "one message with 33..=253 descriptors: n-32 of them stay open forever"),
 "C09-d": ("connection.rs recv_data(): descriptors attached to a body are received, refused (IncorrectFds) and not closed",
           "header and body written separately with 1..=32 descriptors on the body part"),
 "C10-c": ("gpu_backend_req.rs: cursor messages go through a second socket handle with its own lock",
           "one clone inside a reply-bearing GPU operation, another clone sending cursor_pos / cursor_pos_hide / cursor_update in that window"),
 "C10-d": ("backend_req.rs: reply_ack flag moved out of the mutex (atomic), read when building the header and again before waiting",
           "another clone flips REPLY_ACK while a back-end request is between send and wait_for_ack: hang, or an unread acknowledgement"),
 "C11-c": ("handler.rs get_vring_base(): descriptors dropped before update_vring_registration() (which then finds no fd to unregister)",
           "ring started+enabled, GET_VRING_BASE, then a guest kick on the old kick descriptor the peer still holds"),
 "C11-d": ("handler.rs reset_device(): rings that are not started are skipped",
           "ring enabled but not started at RESET_DEVICE time, started afterwards without an enabling message, then kicked"),
 "C12-c": ("handler.rs update_vring_registration(): 'enabled but stopped' neither registers nor unregisters",
           "GET_VRING_BASE on a started, enabled ring, then a kick on the old eventfd: endless handler entries for a stopped ring"),
 "C12-d": ("handler.rs set_features() without PROTOCOL_FEATURES: set_enabled(true) without update_vring_registration()",
           "ring started, RESET_DEVICE, SET_FEATURES without bit 30, kick (or SET_VRING_KICK before the first such SET_FEATURES)"),
 "C13-c": ("handler.rs set_vring_addr(): the descriptor table's region is used to translate all three addresses",
           ">=2 regions with different user-guest deltas and a ring whose parts are not all in the descriptor table's region"),
 "C13-d": ("handler.rs set_mem_table(): region descriptors sorted by guest address, files left in message order",
           "a table with >=2 regions not in ascending guest order backed by different files: accepted, wrong file behind a region"),
 "C14-c": ("handler.rs set_mem_table(): translations appended to those of earlier tables (first match wins)",
           "two accepted tables mapping the same front-end range to different guest addresses, then SET_VRING_ADDR in that range"),
 "C14-d": ("handler.rs set_protocol_features(): acknowledged set masked with the device's own protocol_features()",
           "device not listing REPLY_ACK itself, REPLY_ACK negotiated, SET_BACKEND_REQ_FD: the new channel does not inherit reply-ack"),
 "C15-c": ("bitmap.rs AtomicBitmapMmap::new(): log-size check rounds the needed byte count down",
           "region ending in the middle of a log byte and a log exactly one byte too short: accepted, later write panics"),
 "C15-d": ("handler.rs set_log_base(): the remembered log is replaced before the fallible bitmap creation",
           "accepted log A, rejected (too small) log B, reconnect, SET_MEM_TABLE: new memory is logged into B"),
 "C16-c": ("lib.rs wait(): shutdown_requested sampled before joining the daemon thread",
           "owner already blocked in wait() when another thread requests shutdown: wait() returns Err(Disconnected)"),
 "C16-d": ("backend_req_handler.rs handle_request(): short body reported as SocketBroken(UnexpectedEof), which wait() forgives",
           "peer closing between the end of a header and the end of its body, no shutdown requested: wait() returns Ok(())"),
 "C17-c": ("handler.rs update_vring_registration(): `break` after the first matching worker lost",
           "overlapping queues_per_thread masks and a kick on the shared queue: a later owner handles it as well"),
 "C17-d": ("handler.rs new(): no worker spawned for a thread without queues, handlers indexed by mask position",
           "a queue-less mask listed before the owner of the kicked queue: wrong worker / index out of bounds"),
 "C18-c": ("message.rs VhostUserMMap::is_valid(): `<` against u64::MAX - len instead of checked_add",
           "shmem_map/unmap with offset + len == u64::MAX exactly: refused before the handler, no acknowledgement"),
 "C18-d": ("frontend_req_handler.rs send_ack_message(): acknowledges every request once REPLY_ACK is on, NEED_REPLY or not",
           "server with REPLY_ACK on, proxy with it off (then turned on): stale acknowledgements shift every later one"),
 "C19-c": ("vhost_kern/mod.rs IOTLB parsers: message type validated against ACCESS_FAIL as upper bound",
           "a BATCH_BEGIN / BATCH_END message written by send_iotlb_msg() does not parse back"),
 "C19-d": ("vhost_kern/mod.rs to_vhost_vring_addr(): the descriptor table's region translates all three ring addresses",
           ">=2 guest memory regions and a ring whose avail or used part lies in another region: refused, no ioctl"),
 "C20-c": ("message.rs VhostUserInflight::is_valid(): `num_queues != 0 || queue_size != 0`",
           "exactly one of num_queues / queue_size equal to zero"),
 "C20-d": ("message.rs FrontendReq / BackendReq: MAX_CMD sentinel variants (45 / 11) become known request codes",
           "a header with request code 45 (front-end) or 11 (back-end)"),
}


def main():
    only = sys.argv[1:]
    for pid in sorted(os.listdir(SEED)):
        for v in "abcdef":
            out = os.path.join(SEED, pid, "out" if v in "ab" else ("out2" if v in "cd" else "out3"))
            if not os.path.isdir(out):
                continue
            key = f"{pid}-{v}"
            if only and key not in only and pid not in only:
                continue
            conf = os.path.join(out, f"confirm_{v}.txt")
            if not (os.path.exists(os.path.join(out, f"{v}.diff")) and os.path.exists(conf)):
                continue
            kv = dict(l.strip().split("=", 1) for l in open(conf).read().replace(" ", "\n").splitlines() if "=" in l)
            ok = kv.get("demo_without_change_rc") == "0" and kv.get("demo_with_change_rc") not in (None, "0") and kv.get("suite_with_change_rc") == "0" and kv.get("suite_failed") == "0"
            if not ok:
                print(f"{key}: NOT confirmed ({kv}) — not stored")
                continue
            d = os.path.join(HERE, "seeded", key)
            os.makedirs(d, exist_ok=True)
            shutil.copy(os.path.join(out, f"{v}.diff"), os.path.join(d, "patch.diff"))
            shutil.copy(os.path.join(out, f"{v}_demo.diff"), os.path.join(d, "demo.diff"))
            shutil.copy(os.path.join(out, f"{v}_run.sh"), os.path.join(d, "run_demo.sh"))
            if os.path.exists(os.path.join(out, "notes.md")):
                shutil.copy(os.path.join(out, "notes.md"), os.path.join(d, "notes.md"))
            mp = os.path.join(d, "meta.json")
            meta = json.load(open(mp)) if os.path.exists(mp) else {}
            what, needs = DESC.get(key, ("see notes.md", "see notes.md"))
            meta.update({
                "id": key,
                "property_broken": pid,
                "origin": "written by an independent sub-agent that was given only the text of the property and a scratch worktree of /repo (nothing from /verif)" + ("" if v in "ab" else ("; second round: additionally told what the first-round changes a and b were, and asked for different ones" if v in "cd" else "; third round: additionally told what the changes a-d were, and asked for different ones")),
                "change": what,
                "needs_to_manifest": needs,
                "confirmed_by_me": {
                    "where": f"scratch worktree of /repo HEAD ({SEED}/{pid}/wt), removed afterwards",
                    "commands": ["git apply demo.diff; sh run_demo.sh   -> passes (change absent)",
                                 "git apply patch.diff demo.diff; sh run_demo.sh   -> fails (change present)",
                                 "git apply patch.diff; cargo test --workspace --no-fail-fast --offline   -> existing suite passes"],
                    "demo_without_change_exit": int(kv["demo_without_change_rc"]),
                    "demo_with_change_exit": int(kv["demo_with_change_rc"]),
                    "existing_suite_with_change": f"{kv.get('suite_passed')} passed, {kv.get('suite_failed')} failed",
                },
            })
            meta.setdefault("my_checks", {})
            json.dump(meta, open(mp, "w"), indent=1)
            print(f"{key}: stored")


if __name__ == "__main__":
    main()
