#!/usr/bin/env python3
"""tools/design_table.py <matrix.tsv>... — (re)writes the seeded-change table of DESIGN.md between its two markers."""
import subprocess, sys, os, re
HERE = os.path.dirname(os.path.dirname(os.path.abspath(__file__)))
p = os.path.join(HERE, 'DESIGN.md')
s = open(p).read()
r = subprocess.run([sys.executable, os.path.join(HERE, 'tools', 'seed_table.py')] + sys.argv[1:], capture_output=True, text=True)
B, E = '<!-- SEEDED_TABLE_BEGIN -->', '<!-- SEEDED_TABLE_END -->'
block = B + '\n' + r.stdout.rstrip() + '\n\n' + r.stderr.strip() + '\n' + E
if 'SEEDED_TABLE_PLACEHOLDER' in s:
    s = s.replace('SEEDED_TABLE_PLACEHOLDER', block)
else:
    s = re.sub(re.escape(B) + '.*?' + re.escape(E), lambda m: block, s, flags=re.S)
open(p, 'w').write(s)
