#!/usr/bin/env python3
"""tools/fuzz_campaign.py <Cxx> <target> [--secs N] [--jobs J] [--seed S] [--keep-corpus DIR]

Coverage-guided part of the thorough tier (called by ./check <Cxx> thorough for the byte-level properties).
Builds the libFuzzer target /verif/fuzz/fuzz_targets/<target>.rs (cargo +nightly fuzz build, ASan on,
debug assertions on) from /repo's working tree, starts from the committed corpus fuzz/corpus/<target> plus
the generated seed inputs, runs libFuzzer in fork mode under a wall-clock budget and then

 * for every crash artifact: wraps the bytes into a replay file and re-executes it through the ordinary
   harness binary (strict replay).  A reproduced failure is a VIOLATION (exit 1, line printed by the
   harness); a crash the harness does not reproduce (ASan-only report, libFuzzer internal trouble) is
   reported as inconclusive (exit 2), never as a violation;
 * merges the campaign's numbers into evidence/<Cxx>.json under coverage.fuzz.<target>.

The oracle lives inside the target (harness/src/fuzzing.rs), a target never only waits for crashes.
A budget that runs out is the normal end of a campaign.
"""
import json, os, re, shutil, subprocess, sys, time, glob, hashlib

HERE = os.path.dirname(os.path.dirname(os.path.abspath(__file__)))


def main():
    args = sys.argv[1:]
    if len(args) < 2:
        print(__doc__)
        return 2
    prop, target = args[0], args[1]
    secs = int(os.environ.get("VERIF_FUZZ_SECS", "180"))
    jobs = int(os.environ.get("VERIF_FUZZ_JOBS", "12"))
    seed = int(os.environ.get("VERIF_SEED", "0") or 0)
    keep = None
    i = 2
    while i < len(args):
        if args[i] == "--secs":
            secs = int(args[i + 1]); i += 2
        elif args[i] == "--jobs":
            jobs = int(args[i + 1]); i += 2
        elif args[i] == "--seed":
            seed = int(args[i + 1]); i += 2
        elif args[i] == "--keep-corpus":
            keep = args[i + 1]; i += 2
        else:
            i += 1
    env = dict(os.environ, CARGO_NET_OFFLINE="true", VERIF_DIR=HERE)
    env.pop("RUSTFLAGS", None)
    tdir = os.path.join(HERE, "target", "fuzz")
    t0 = time.time()
    b = subprocess.run(["cargo", "+nightly", "fuzz", "build", "--fuzz-dir", "../fuzz", "--target-dir", tdir, target],
                       cwd=os.path.join(HERE, "harness"), env=env, stdout=subprocess.PIPE, stderr=subprocess.STDOUT, text=True)
    if b.returncode != 0:
        print("fuzz build failed:\n" + "\n".join(b.stdout.splitlines()[-30:]), file=sys.stderr)
        print(f"INCONCLUSIVE: fuzz target {target} does not build", file=sys.stderr)
        return 2
    binp = os.path.join(tdir, "x86_64-unknown-linux-gnu", "release", target)
    work = os.path.join(HERE, "target", "fuzz-work", target)
    shutil.rmtree(work, ignore_errors=True)
    corpus = os.path.join(work, "corpus")
    arts = os.path.join(work, "artifacts")
    os.makedirs(corpus); os.makedirs(arts)
    committed = os.path.join(HERE, "fuzz", "corpus", target)
    n_committed = 0
    if os.path.isdir(committed):
        for f in sorted(os.listdir(committed)):
            shutil.copy(os.path.join(committed, f), os.path.join(corpus, f)); n_committed += 1
    harness = os.path.join(HERE, "target", "release", "vverif")
    subprocess.run([harness, "--emit-seeds", target, corpus], env=env)
    n_start = len(os.listdir(corpus))
    # libFuzzer: 0 means "random seed", so remap
    lseed = seed + 1
    cmd = [binp, corpus, f"-fork={jobs}", f"-max_total_time={secs}", f"-seed={lseed}", "-max_len=1024", "-len_control=0",
           f"-artifact_prefix={arts}/", "-ignore_crashes=0", "-ignore_ooms=1", "-ignore_timeouts=1", "-rss_limit_mb=4096", "-timeout=30"]
    log = os.path.join(work, "fuzz.log")
    with open(log, "w") as lf:
        r = subprocess.run(cmd, env=env, stdout=lf, stderr=subprocess.STDOUT, cwd=work)
    text = open(log, errors="replace").read()
    stats = {"target": target, "engine": "libFuzzer (cargo-fuzz, ASan, fork mode)", "seconds_budget": secs, "jobs": jobs, "seed": lseed,
             "corpus_committed": n_committed, "corpus_start": n_start, "exit_status": r.returncode}
    last = None
    for m in re.finditer(r"#(\d+): cov: (\d+) ft: (\d+) corp: (\d+) exec/s:? (\d+) oom/timeout/crash: (\d+)/(\d+)/(\d+) time: (\d+)s", text):
        last = m
    if last:
        stats.update(executions=int(last.group(1)), edges_covered=int(last.group(2)), features=int(last.group(3)), corpus_end=int(last.group(4)),
                     exec_per_s=int(last.group(5)), ooms=int(last.group(6)), timeouts=int(last.group(7)), crashes=int(last.group(8)), seconds_run=int(last.group(9)))
    else:
        stats.update(executions=0, note="no progress line parsed; see target/fuzz-work/%s/fuzz.log" % target)
    crash_files = sorted(glob.glob(os.path.join(arts, "crash-*")))
    stats["crash_artifacts"] = len(crash_files)
    rc = 0
    reproduced = 0
    for cf in crash_files[:5]:
        data = open(cf, "rb").read()
        rep = {"property": prop, "check": f"fuzz_corpus_{target}", "what": "input found by the libFuzzer campaign",
               "case": {"target": target, "hex": data.hex()}}
        os.makedirs(os.path.join(HERE, "replays"), exist_ok=True)
        rp = os.path.join(HERE, "replays", f"{prop}-fuzz-{hashlib.sha1(data).hexdigest()[:16]}.json")
        json.dump(rep, open(rp, "w"), indent=1)
        rr = subprocess.run([harness, prop, "--replay", rp], env=env, stdout=subprocess.PIPE, stderr=subprocess.STDOUT, text=True)
        sys.stdout.write(rr.stdout)
        if rr.returncode == 1 or re.search(r"^VIOLATION property=", rr.stdout, re.M):
            reproduced += 1
            rc = 1
        else:
            print(f"note: fuzz artifact {cf} makes the instrumented target fail but the strict harness replay passes "
                  f"(sanitizer-only report or fuzz-engine trouble); kept at {rp}", file=sys.stderr)
            if rc == 0:
                rc = 2
    stats["crashes_reproduced_by_harness"] = reproduced
    if not crash_files and r.returncode not in (0,):
        # fork mode exits non-zero only when a job crashed; no artifact means engine trouble
        stats["note"] = "libFuzzer exited with status %d without a crash artifact" % r.returncode
        tail = "\n".join(text.splitlines()[-15:])
        print(tail, file=sys.stderr)
        rc = 2
    if keep:
        # coverage-minimised corpus for the quick tier's replay
        os.makedirs(keep, exist_ok=True)
        tmp = os.path.join(work, "merged")
        os.makedirs(tmp, exist_ok=True)
        subprocess.run([binp, "-merge=1", tmp, corpus], env=env, stdout=subprocess.DEVNULL, stderr=subprocess.DEVNULL, cwd=work)
        for f in os.listdir(keep):
            os.unlink(os.path.join(keep, f))
        kept = 0
        for f in sorted(os.listdir(tmp)):
            if os.path.getsize(os.path.join(tmp, f)) <= 1024:
                shutil.copy(os.path.join(tmp, f), os.path.join(keep, f)); kept += 1
        stats["corpus_kept"] = kept
    stats["wall_s"] = round(time.time() - t0, 1)
    # merge into the evidence file written by the harness run that preceded the campaign
    ev = os.path.join(HERE, "evidence", f"{prop}.json")
    try:
        d = json.load(open(ev))
        d.setdefault("coverage", {}).setdefault("fuzz", {})[target] = stats
        if rc == 1:
            d["violations"] = int(d.get("violations", 0)) + reproduced
        d["wall_s"] = round(float(d.get("wall_s", 0)) + stats["wall_s"], 1)
        json.dump(d, open(ev, "w"), indent=1)
    except Exception as e:  # evidence stays as the harness wrote it
        print(f"note: evidence not updated: {e}", file=sys.stderr)
    print(f"{prop} fuzz {target}: executions={stats.get('executions')} edges={stats.get('edges_covered')} corpus={stats.get('corpus_end')} "
          f"crash_artifacts={len(crash_files)} reproduced={reproduced} wall={stats['wall_s']}s")
    return rc


if __name__ == "__main__":
    sys.exit(main())
