#!/usr/bin/env python3
"""tools/seed_table.py <matrix.tsv>... — markdown table 'seeded change -> checks that report a violation' for DESIGN.md"""
import sys, json, os, collections
HERE = os.path.dirname(os.path.dirname(os.path.abspath(__file__)))
res = collections.defaultdict(dict)
for f in sys.argv[1:]:
    for l in open(f):
        p = l.split()
        if len(p) == 3 and p[1].startswith('C'):
            res[p[0]][p[1]] = p[2]
print("| change | what it does | needs | own check | also reported by |")
print("|---|---|---|---|---|")
for sid in sorted(res):
    m = json.load(open(os.path.join(HERE, 'seeded', sid, 'meta.json')))
    own = sid.split('-')[0]
    r = res[sid]
    others = [c for c in sorted(r) if r[c] == 'KILLED' and c != own]
    inc = [c for c in sorted(r) if r[c] == 'inconclusive']
    o = {'KILLED': 'detected', 'passed': '**missed**', 'inconclusive': 'inconclusive'}.get(r.get(own, '?'), '?')
    print(f"| {sid} | {m['change']} | {m['needs_to_manifest']} | {o} | {', '.join(others) or '-'}{(' (inconclusive: ' + ', '.join(inc) + ')') if inc else ''} |")
