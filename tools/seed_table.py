#!/usr/bin/env python3
"""tools/seed_table.py [matrix.tsv...] — markdown table 'stored breaking change -> checks that report it' for DESIGN.md.
Own-property column: seeded/<id>/meta.json (my_checks, recorded by tools/seeded_eval.sh against /repo itself).
'also reported by': cross runs of the other properties' quick checks (tools/seed_matrix.sh, scratch copies), where such
a run exists for the change; 'n/r' = the cross run was not made for this change."""
import sys, json, os, collections
HERE = os.path.dirname(os.path.dirname(os.path.abspath(__file__)))
res = collections.defaultdict(dict)
for f in sys.argv[1:]:
    for l in open(f):
        p = l.split()
        if len(p) == 3 and p[1].startswith('C'):
            # a KILLED from any run stands (checks were only ever strengthened between runs)
            if res[p[0]].get(p[1]) != 'KILLED':
                res[p[0]][p[1]] = p[2]
print("| change | what it does | needs | own check | also reported by |")
print("|---|---|---|---|---|")
n = det = 0
for sid in sorted(os.listdir(os.path.join(HERE, 'seeded'))):
    mp = os.path.join(HERE, 'seeded', sid, 'meta.json')
    if not os.path.exists(mp):
        continue
    m = json.load(open(mp))
    own = sid.split('-')[0]
    mc = m.get('my_checks', {})
    o = {'DETECTED (VIOLATION reported)': 'detected', 'NOT DETECTED': '**not detected**'}.get(mc.get(own, {}).get('result'), mc.get(own, {}).get('result', 'not run'))
    n += 1
    det += o == 'detected'
    r = dict(res.get(sid, {}))
    for c, v in mc.items():
        if c != own and v.get('result', '').startswith('DETECTED'):
            r[c] = 'KILLED'
    others = [c for c in sorted(r) if r[c] == 'KILLED' and c != own]
    cross = ', '.join(others) if others else ('-' if len(res.get(sid, {})) >= 19 else 'n/r')
    esc = lambda t: t.replace('|', '\\|')
    print(f"| {sid} | {esc(m['change'])} | {esc(m['needs_to_manifest'])} | {o} | {cross} |")
print(f"\n{det} of {n} stored changes are reported by the quick tier of their own property's check.", file=sys.stderr)
