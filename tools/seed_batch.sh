#!/bin/bash
# tools/seed_batch.sh <slot> <results-file> <Cxx:variant[:prop]>...   (development aid; scratch evaluation via seedrun.sh)
SLOT=$1; RES=$2; shift 2
for item in "$@"; do
  IFS=: read id v prop <<< "$item"; prop=${prop:-$id}
  p=/tmp/seed/$id/out/$v.diff; [ -f "$p" ] || p=/tmp/seed/$id/out2/$v.diff; [ -f "$p" ] || p=/tmp/seed/$id/out3/$v.diff; [ -f "$p" ] || p=/tmp/seed/$id/out4/$v.diff; [ -f "$p" ] || p=/tmp/seed/$id/out5/$v.diff; [ -f "$p" ] || p=/tmp/seed/$id/out7/$v.diff; [ -f "$p" ] || p=/verif/seeded/$id-$v/patch.diff
  out=$(VERIF_TIMEOUT=${VERIF_TIMEOUT:-400} "$(dirname "$0")/seedrun.sh" -s $SLOT $p $prop quick 2>&1)
  echo "== $id/$v vs $prop: $(echo "$out" | grep '^RESULT' | sed 's/.*: //')" >> $RES
  echo "$out" | grep -E "^VIOLATION|check=|INCONCLUSIVE" | head -3 | cut -c1-400 >> $RES
done
echo "batch done" >> $RES
