#!/bin/bash
# tools/seeded_eval.sh [seeded-id...]      (EVAL_PROP=Cyy: run another property's check against the change)
# The recorded evaluation of my checks against the stored breaking changes, done the way the brief prescribes:
#   git -C /repo apply seeded/<id>/patch.diff ; ./check <property> quick ; git -C /repo checkout -- .
# The evidence file of the property is saved before and restored afterwards (evidence must describe the unchanged tree).
# Result goes into seeded/<id>/meta.json (my_checks.<Cxx>).  Nothing else may build from /repo while this runs.
HERE="$(cd "$(dirname "$0")/.." && pwd)"; cd "$HERE"
ids=("$@"); [ ${#ids[@]} -eq 0 ] && ids=($(ls seeded))
if [ -n "$(git -C /repo status --short)" ]; then echo "/repo is not clean"; exit 3; fi
for sid in "${ids[@]}"; do
  prop=${EVAL_PROP:-${sid%%-*}}
  cp evidence/$prop.json /tmp/.seeded_eval_ev.$$ 2>/dev/null
  git -C /repo apply "$HERE/seeded/$sid/patch.diff" || { echo "$sid: patch does not apply"; continue; }
  VERIF_TIMEOUT=${VERIF_TIMEOUT:-400} ./check $prop quick > /tmp/.seeded_eval_out.$$ 2>&1; rc=$?
  git -C /repo checkout -- . ; git -C /repo clean -fdq
  [ -f /tmp/.seeded_eval_ev.$$ ] && mv /tmp/.seeded_eval_ev.$$ evidence/$prop.json
  first=$(grep -m1 -A1 "^VIOLATION" /tmp/.seeded_eval_out.$$ | tail -1 | cut -c1-500)
  what=$(grep -m1 "check=" /tmp/.seeded_eval_out.$$ | cut -c1-600)
  python3 - "$sid" "$prop" "$rc" "$what" <<'PY'
import json,sys,datetime
sid,prop,rc,what=sys.argv[1:5]
p=f"seeded/{sid}/meta.json"; m=json.load(open(p))
m.setdefault("my_checks",{})[prop]={"command":f"git -C /repo apply seeded/{sid}/patch.diff; ./check {prop} quick; git -C /repo checkout -- .",
  "exit":int(rc),"result":{0:"NOT DETECTED",1:"DETECTED (VIOLATION reported)"}.get(int(rc),"INCONCLUSIVE"),"first_report":what.strip()}
json.dump(m,open(p,"w"),indent=1)
print(sid,prop,m["my_checks"][prop]["result"])
PY
  rm -f /tmp/.seeded_eval_out.$$
done
git -C /repo status --short
