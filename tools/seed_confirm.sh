#!/bin/bash
# tools/seed_confirm.sh <Cxx> <a|b>   — my own confirmation of a sub-agent's breaking change, in its scratch worktree
# (/tmp/seed/<Cxx>/wt): demo passes without the change, fails with it, existing suite passes with it.
ID=$1; V=$2
WT=/tmp/seed/$ID/wt; OUT=/tmp/seed/$ID/out
case "$V" in a|b) ;; c|d) OUT=/tmp/seed/$ID/out2 ;; e|f) OUT=/tmp/seed/$ID/out3 ;; g|h) OUT=/tmp/seed/$ID/out4 ;; i|j) OUT=/tmp/seed/$ID/out5 ;; m) OUT=/tmp/seed/$ID/out7 ;; *) OUT=/tmp/seed/$ID/out6 ;; esac
export CARGO_TARGET_DIR=$WT/target CARGO_NET_OFFLINE=true
cd $WT || exit 3
clean() { git checkout -q -- . ; git clean -fdq -e target; }
clean
res=$OUT/confirm_$V.txt; : > $res
git apply $OUT/${V}_demo.diff || { echo "demo does not apply" >> $res; exit 3; }
bash $OUT/${V}_run.sh > $OUT/confirm_${V}_demo_clean.log 2>&1; echo "demo_without_change_rc=$?" >> $res
clean
git apply $OUT/$V.diff || { echo "change does not apply" >> $res; exit 3; }
git apply $OUT/${V}_demo.diff || { echo "demo does not apply on change" >> $res; exit 3; }
bash $OUT/${V}_run.sh > $OUT/confirm_${V}_demo_changed.log 2>&1; echo "demo_with_change_rc=$?" >> $res
clean
git apply $OUT/$V.diff
cargo test --workspace --no-fail-fast --offline > $OUT/confirm_${V}_suite.log 2>&1; echo "suite_with_change_rc=$?" >> $res
echo "suite_passed=$(grep -E '^test result' $OUT/confirm_${V}_suite.log | awk '{s+=$4} END {print s}') suite_failed=$(grep -E '^test result' $OUT/confirm_${V}_suite.log | awk '{s+=$6} END {print s}')" >> $res
clean
cat $res
