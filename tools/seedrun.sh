#!/bin/bash
# tools/seedrun.sh [-s slot] <patch-file|none> <Cxx> [quick|thorough]
# Development aid: evaluates a check against a breaking change WITHOUT touching /repo, in a scratch
# worktree of /repo (HEAD) plus a scratch copy of /verif whose harness points at that worktree
# (/tmp/mv<slot>/{repo,verif}).  Prints KILLED / NOT DETECTED / INCONCLUSIVE.  The registered
# commands never use this; the recorded results in seeded/*/meta.json come from tools/seeded_eval.sh,
# which applies the patch to /repo itself as the brief prescribes.
SLOT=0
if [ "$1" = "-s" ]; then SLOT=$2; shift 2; fi
PATCH=$1; PROP=$2; TIER=${3:-quick}
HERE="$(cd "$(dirname "$0")/.." && pwd)"
MV=/tmp/mv$SLOT
mkdir -p $MV
if [ ! -d $MV/repo ]; then git -C /repo worktree add --detach $MV/repo HEAD -q || exit 3; fi
git -C $MV/repo checkout -q --detach "$(git -C /repo rev-parse HEAD)" 2>/dev/null
git -C $MV/repo checkout -q -- . ; git -C $MV/repo clean -fdq -e target
rsync -a --delete --exclude target --exclude .git --exclude replays --exclude evidence "$HERE/" $MV/verif/
mkdir -p $MV/verif/evidence $MV/verif/replays
sed -i "s#\"/repo/#\"$MV/repo/#g" $MV/verif/harness/Cargo.toml
if [ "$PATCH" != none ]; then
  git -C $MV/repo apply "$PATCH" || { echo "PATCH DOES NOT APPLY"; exit 3; }
fi
cd $MV/verif
VERIF_TIMEOUT=${VERIF_TIMEOUT:-400} ./check $PROP $TIER > $MV/last.out 2>&1
rc=$?
grep -E "^VIOLATION|^KNOWN-FINDING|INCONCLUSIVE|error(\[|:)" $MV/last.out | head -8
case $rc in
  0) echo "RESULT $PROP $(basename $(dirname $PATCH))/$(basename $PATCH): NOT DETECTED";;
  1) echo "RESULT $PROP $(basename $(dirname $PATCH))/$(basename $PATCH): KILLED";;
  *) echo "RESULT $PROP $(basename $(dirname $PATCH))/$(basename $PATCH): INCONCLUSIVE rc=$rc"; tail -5 $MV/last.out;;
esac
git -C $MV/repo checkout -q -- . ; git -C $MV/repo clean -fdq -e target
exit $rc
